/-
C07  Attribution is single-use: a connection never inherits another's identity.
-/
import Gpa.Model.Attribution
import Gpa.Props.C01
namespace Gpa.Props.C07
open Gpa.Attribution Gpa.Pipeline Gpa.Text

variable (mac : Str → List UInt8 → Str)

theorem lookup_remove_self (m : AuditMap) (p : Nat) : lookup (remove m p) p = none := by
  induction m with
  | nil => rfl
  | cons hd tl ih =>
    obtain ⟨q, r⟩ := hd
    by_cases h : q = p
    · simp only [remove, List.filter_cons, h, ne_eq, not_true_eq_false, decide_false, Bool.false_eq_true, ↓reduceIte]
      exact ih
    · simp only [remove, List.filter_cons, ne_eq, h, not_false_eq_true, decide_true, ↓reduceIte, lookup]
      exact ih

theorem lookup_remove_other (m : AuditMap) (p q : Nat) (h : q ≠ p) : lookup (remove m p) q = lookup m q := by
  induction m with
  | nil => rfl
  | cons hd tl ih =>
    obtain ⟨k, r⟩ := hd
    by_cases hk : k = p
    · subst hk
      have hkq : ¬ k = q := fun e => h e.symm
      have e1 : remove ((k, r) :: tl) k = remove tl k := by
        simp [remove, List.filter_cons]
      rw [e1, ih]
      simp [lookup, hkq]
    · have e1 : remove ((k, r) :: tl) p = (k, r) :: remove tl p := by
        simp [remove, List.filter_cons, hk]
      rw [e1]
      simp only [lookup]
      by_cases hq : k = q
      · simp [hq]
      · simp only [hq, ↓reduceIte]; exact ih

/-- **C07(a)** the context of a connection is the record the kernel wrote for *its* source port
(present at accept time), else unattributed -/
theorem context_is_own_record (m : AuditMap) (p : Nat) :
    (accept m p).2 = match lookup m p with
      | some r => { caller := some r.caller, dest := some r.dest }
      | none => Conn.unattributed := by
  unfold accept; split <;> simp_all

/-- **C07(b)** the record is consumed by the accept -/
theorem record_consumed (m : AuditMap) (p : Nat) : lookup (accept m p).1 p = none := by
  unfold accept
  cases h : lookup m p with
  | none => simpa using h
  | some r => exact lookup_remove_self m p

/-- accepting one port leaves every other port's record alone -/
theorem accept_other_ports (m : AuditMap) (p q : Nat) (h : q ≠ p) : lookup (accept m p).1 q = lookup m q := by
  unfold accept
  cases hl : lookup m p with
  | none => rfl
  | some r => exact lookup_remove_other m p q h

/-- **C07(c)** immediate source-port reuse without a fresh kernel record: the second connection is
unattributed — whatever the first one was -/
theorem reuse_without_record_unattributed (m : AuditMap) (p : Nat) :
    (accept (accept m p).1 p).2 = Conn.unattributed := by
  rw [context_is_own_record, record_consumed]

/-- … and therefore refused: none of its requests is ever relayed (C01) -/
theorem reuse_without_record_refused (m : AuditMap) (p : Nat) (env : Env) (r : Req) :
    Gpa.Props.C01.isForward (handle mac env (accept (accept m p).1 p).2 r).outcome = false := by
  rw [reuse_without_record_unattributed]
  exact Gpa.Props.C01.direct_connection_never_forwarded mac env r

/-- a fresh kernel record for the reused port re-attributes the new connection to the *new* record -/
theorem reuse_with_fresh_record (m : AuditMap) (p : Nat) (r : Record) :
    (accept (record (accept m p).1 p r) p).2 = { caller := some r.caller, dest := some r.dest } := by
  rw [context_is_own_record]
  simp [record, lookup]

/-! ### requests use their own connection's context, under any interleaving -/

theorem ctxOf_step_other (env : Env) (s : Server) (op : Op) (id : Nat)
    (h : ∀ p, op ≠ .accept id p) (hc : op ≠ .close id) :
    ctxOf (step mac env s op).1 id = ctxOf s id := by
  cases op with
  | kernelRecord p r => rfl
  | request i req => simp only [step]; split <;> rfl
  | close i =>
    have hi : i ≠ id := fun e => hc (by rw [e])
    simp only [step, ctxOf]
    rw [Gpa.Headers.find?_filter_ne' ] <;> simp [hi]
  | accept i p =>
    have hi : i ≠ id := fun e => h p (by rw [e])
    simp only [step, ctxOf, List.find?_cons, hi, decide_false]
    rw [Gpa.Headers.find?_filter_ne'] <;> simp [hi]

/-- **C07(d)** a request on connection `id` is evaluated with the context fixed at `id`'s accept:
for any events in between that neither re-accept nor close `id` (other connections' accepts,
requests, closes, kernel records — in any order), the result is `handle` with that very context. -/
theorem requests_use_own_context (env : Env) (s : Server) (id port : Nat) (between : List Op) (req : Req)
    (hb : ∀ op ∈ between, (∀ p, op ≠ .accept id p) ∧ op ≠ .close id) :
    let s1 := (step mac env s (.accept id port)).1
    let s2 := (run mac env s1 between).1
    (step mac env s2 (.request id req)).2 = some (handle mac env (accept s.audit port).2 req) := by
  intro s1 s2
  have h1 : ctxOf s1 id = some (accept s.audit port).2 := by
    simp [s1, step, ctxOf]
  have h2 : ∀ (ops : List Op) (t : Server), (∀ op ∈ ops, (∀ p, op ≠ .accept id p) ∧ op ≠ .close id) →
      ctxOf (run mac env t ops).1 id = ctxOf t id := by
    intro ops
    induction ops with
    | nil => intro t _; rfl
    | cons op ops ih =>
      intro t hops
      simp only [run]
      rw [ih _ (fun o ho => hops o (List.mem_cons_of_mem _ ho))]
      exact ctxOf_step_other mac env t op id (hops op List.mem_cons_self).1 (hops op List.mem_cons_self).2
  simp only [step, s2, h2 between s1 hb, h1]

end Gpa.Props.C07
