/-
C07  Attribution is single-use: a connection never inherits another's identity.
-/
import Gpa.Model.Attribution
import Gpa.Props.C01
namespace Gpa.Props.C07
open Gpa.Attribution Gpa.Pipeline Gpa.Text

variable (mac : Str → List UInt8 → Str)

theorem lookup_remove_self (m : AuditMap) (p : Nat) : lookup (remove m p) p = none := by
  induction m with
  | nil => rfl
  | cons hd tl ih =>
    obtain ⟨q, r⟩ := hd
    by_cases h : q = p
    · simp only [remove, List.filter_cons, h, ne_eq, not_true_eq_false, decide_false, Bool.false_eq_true, ↓reduceIte]
      exact ih
    · simp only [remove, List.filter_cons, ne_eq, h, not_false_eq_true, decide_true, ↓reduceIte, lookup]
      exact ih

theorem lookup_remove_other (m : AuditMap) (p q : Nat) (h : q ≠ p) : lookup (remove m p) q = lookup m q := by
  induction m with
  | nil => rfl
  | cons hd tl ih =>
    obtain ⟨k, r⟩ := hd
    by_cases hk : k = p
    · subst hk
      have hkq : ¬ k = q := fun e => h e.symm
      have e1 : remove ((k, r) :: tl) k = remove tl k := by
        simp [remove, List.filter_cons]
      rw [e1, ih]
      simp [lookup, hkq]
    · have e1 : remove ((k, r) :: tl) p = (k, r) :: remove tl p := by
        simp [remove, List.filter_cons, hk]
      rw [e1]
      simp only [lookup]
      by_cases hq : k = q
      · simp [hq]
      · simp only [hq, ↓reduceIte]; exact ih

/-- **C07(a)** the context of a connection is the record the kernel wrote for *its* source port
(present at accept time), else unattributed -/
theorem context_is_own_record (m : AuditMap) (p : Nat) :
    (accept m p).2 = match lookup m p with
      | some r => { caller := some r.caller, dest := some r.dest }
      | none => Conn.unattributed := by
  unfold accept; split <;> simp_all

/-- **C07(b)** the record is consumed by the accept -/
theorem record_consumed (m : AuditMap) (p : Nat) : lookup (accept m p).1 p = none := by
  unfold accept
  cases h : lookup m p with
  | none => simpa using h
  | some r => exact lookup_remove_self m p

/-- accepting one port leaves every other port's record alone -/
theorem accept_other_ports (m : AuditMap) (p q : Nat) (h : q ≠ p) : lookup (accept m p).1 q = lookup m q := by
  unfold accept
  cases hl : lookup m p with
  | none => rfl
  | some r => exact lookup_remove_other m p q h

/-- **C07(c)** immediate source-port reuse without a fresh kernel record: the second connection is
unattributed — whatever the first one was -/
theorem reuse_without_record_unattributed (m : AuditMap) (p : Nat) :
    (accept (accept m p).1 p).2 = Conn.unattributed := by
  rw [context_is_own_record, record_consumed]

/-- … and therefore refused: none of its requests is ever relayed (C01) -/
theorem reuse_without_record_refused (m : AuditMap) (p : Nat) (env : Env) (r : Req) :
    Gpa.Props.C01.isForward (handle mac env (accept (accept m p).1 p).2 r).outcome = false := by
  rw [reuse_without_record_unattributed]
  exact Gpa.Props.C01.direct_connection_never_forwarded mac env r

/-- a fresh kernel record for the reused port re-attributes the new connection to the *new* record -/
theorem reuse_with_fresh_record (m : AuditMap) (p : Nat) (r : Record) :
    (accept (record (accept m p).1 p r) p).2 = { caller := some r.caller, dest := some r.dest } := by
  rw [context_is_own_record]
  simp [record, lookup]

/-! ### requests use their own connection's context, under any interleaving -/

theorem ctxOf_step_other (env : Env) (s : Server) (op : Op) (id : Nat)
    (h : ∀ p, op ≠ .accept id p) (hc : op ≠ .close id) :
    ctxOf (step mac env s op).1 id = ctxOf s id := by
  cases op with
  | kernelRecord p r => rfl
  | hostCloses i => rfl
  | request i req => simp only [step]; split <;> rfl
  | close i =>
    have hi : i ≠ id := fun e => hc (by rw [e])
    simp only [step, ctxOf]
    rw [Gpa.Headers.find?_filter_ne' ] <;> simp [hi]
  | accept i p =>
    have hi : i ≠ id := fun e => h p (by rw [e])
    simp only [step, ctxOf, List.find?_cons, hi, decide_false]
    rw [Gpa.Headers.find?_filter_ne'] <;> simp [hi]

theorem contains_filter_ne_self (l : List Nat) (id : Nat) : (l.filter (· ≠ id)).contains id = false := by
  induction l with
  | nil => rfl
  | cons a t ih =>
    rw [List.filter_cons]
    by_cases h : a = id
    · simp only [h, ne_eq, not_true_eq_false, decide_false, Bool.false_eq_true, if_false]; exact ih
    · simp only [ne_eq, h, not_false_eq_true, decide_true, if_true, List.contains_cons]
      have : (id == a) = false := by simp [Ne.symm h]
      rw [this, ih]; rfl

theorem contains_filter_ne_other (l : List Nat) (id j : Nat) (h : j ≠ id) : (l.filter (· ≠ j)).contains id = l.contains id := by
  induction l with
  | nil => rfl
  | cons a t ih =>
    rw [List.filter_cons]
    by_cases ha : a = j
    · subst ha
      have hia : (id == a) = false := by simp [Ne.symm h]
      simp only [ne_eq, not_true_eq_false, decide_false, Bool.false_eq_true, if_false, List.contains_cons, hia, Bool.false_or]
      exact ih
    · simp only [ne_eq, ha, not_false_eq_true, decide_true, if_true, List.contains_cons, ih]

/-- whether the host has closed a connection's upstream changes only through that connection's own events -/
theorem hostClosed_step_other (env : Env) (s : Server) (op : Op) (id : Nat)
    (h : ∀ p, op ≠ .accept id p) (hc : op ≠ .close id) (hh : op ≠ .hostCloses id) :
    (step mac env s op).1.hostClosed.contains id = s.hostClosed.contains id := by
  cases op with
  | kernelRecord p r => rfl
  | request i req => simp only [step]; split <;> rfl
  | hostCloses i =>
    have hi : i ≠ id := fun e => hh (by rw [e])
    have : (id == i) = false := by simp [Ne.symm hi]
    simp only [step, List.contains_cons, this, Bool.false_or]
  | close i =>
    have hi : i ≠ id := fun e => hc (by rw [e])
    simp only [step]; exact contains_filter_ne_other _ _ _ hi
  | accept i p =>
    have hi : i ≠ id := fun e => h p (by rw [e])
    simp only [step]; exact contains_filter_ne_other _ _ _ hi

/-- **C07(d)** a request on connection `id` is evaluated with the context fixed at `id`'s accept:
for any events in between that neither re-accept nor close `id` nor end its upstream connection (other connections' accepts,
requests, closes, host closes, kernel records — in any order), the result is `handle` with that very context. -/
theorem requests_use_own_context (env : Env) (s : Server) (id port : Nat) (between : List Op) (req : Req)
    (hb : ∀ op ∈ between, (∀ p, op ≠ .accept id p) ∧ op ≠ .close id ∧ op ≠ .hostCloses id) :
    let s1 := (step mac env s (.accept id port)).1
    let s2 := (run mac env s1 between).1
    (step mac env s2 (.request id req)).2 = some (handle mac env (accept s.audit port).2 req) := by
  intro s1 s2
  have h1 : ctxOf s1 id = some (accept s.audit port).2 := by
    simp [s1, step, ctxOf]
  have h1c : s1.hostClosed.contains id = false := by
    simp only [s1, step]; exact contains_filter_ne_self _ _
  have h2 : ∀ (ops : List Op) (t : Server), (∀ op ∈ ops, (∀ p, op ≠ .accept id p) ∧ op ≠ .close id ∧ op ≠ .hostCloses id) →
      ctxOf (run mac env t ops).1 id = ctxOf t id ∧ (run mac env t ops).1.hostClosed.contains id = t.hostClosed.contains id := by
    intro ops
    induction ops with
    | nil => intro t _; exact ⟨rfl, rfl⟩
    | cons op ops ih =>
      intro t hops
      simp only [run]
      have hop := hops op List.mem_cons_self
      have ih' := ih (step mac env t op).1 (fun o ho => hops o (List.mem_cons_of_mem _ ho))
      exact ⟨ih'.1.trans (ctxOf_step_other mac env t op id hop.1 hop.2.1),
             ih'.2.trans (hostClosed_step_other mac env t op id hop.1 hop.2.1 hop.2.2)⟩
  obtain ⟨hc2, hh2⟩ := h2 between s1 hb
  simp only [step, s2, hc2, h1, hh2, h1c, Bool.false_eq_true, if_false]

/-! ### after the host has closed a connection's upstream connection -/

/-- a request on a connection whose upstream the host has closed gets what it would have got, except that nothing is relayed -/
theorem request_on_closed_upstream (env : Env) (s : Server) (id : Nat) (c : Conn) (req : Req)
    (hc : ctxOf s id = some c) (hh : s.hostClosed.contains id = true) :
    (step mac env s (.request id req)).2 = some (afterHostClose (handle mac env c req)) := by
  simp only [step, hc, hh, if_true]

theorem afterHostClose_never_forwards (r : Result) (u : UpReq) : (afterHostClose r).outcome ≠ .forward u := by
  unfold afterHostClose
  cases h : r.outcome with
  | forward v => intro e; cases e
  | respond st => rw [h]; intro e; cases e
  | provision => rw [h]; intro e; cases e
  | panic => rw [h]; intro e; cases e

/-- refusals (and their records) are what they would have been with a live upstream -/
theorem afterHostClose_keeps_refusals (r : Result) (h : ∀ u, r.outcome ≠ .forward u) : afterHostClose r = r := by
  unfold afterHostClose
  cases hr : r.outcome with
  | forward v => exact absurd hr (h v)
  | respond st => rfl
  | provision => rfl
  | panic => rfl

theorem afterHostClose_failedAuth (r : Result) : (afterHostClose r).failedAuth = r.failedAuth := by
  unfold afterHostClose
  cases r.outcome <;> rfl

/-! ### histories in which the environment (rules in force, latched key, clock) changes between events

Nothing a connection has seen before — earlier requests, the rules or the key in force when it was accepted or when it was last
used — takes part in a later verdict: a request is judged with the connection's own context and the environment in force when
that request arrives. (A per-connection cache of a decision, of the rules or of the key would contradict this.) -/

def stepE (s : Server) (e : Env × Op) : Server × Option Result := step mac e.1 s e.2

def runE (s : Server) : List (Env × Op) → Server × List (Option Result)
  | [] => (s, [])
  | e :: es =>
    let r := stepE mac s e
    let rs := runE r.1 es
    (rs.1, r.2 :: rs.2)

/-- the server's state after an event does not depend on the environment of that event -/
theorem step_state_env_free (env env' : Env) (s : Server) (op : Op) : (step mac env s op).1 = (step mac env' s op).1 := by
  cases op with
  | kernelRecord p r => rfl
  | accept id p => rfl
  | close id => rfl
  | hostCloses id => rfl
  | request id req =>
    simp only [step]
    cases ctxOf s id <;> rfl

/-- two histories with the same events reach the same state, whatever environments were in force along the way -/
theorem runE_state_env_free (hs hs' : List (Env × Op)) (s : Server) (hops : hs.map Prod.snd = hs'.map Prod.snd) :
    (runE mac s hs).1 = (runE mac s hs').1 := by
  induction hs generalizing hs' s with
  | nil =>
    cases hs' with
    | nil => rfl
    | cons _ _ => simp at hops
  | cons e es ih =>
    cases hs' with
    | nil => simp at hops
    | cons e' es' =>
      simp only [List.map_cons, List.cons.injEq] at hops
      simp only [runE, stepE]
      have h1 : (step mac e.1 s e.2).1 = (step mac e'.1 s e'.2).1 := by
        rw [hops.1]; exact step_state_env_free mac e.1 e'.1 s e'.2
      rw [h1]
      exact ih es' _ hops.2

/-- **C07/C01/C04 (no memory of earlier environments)** the answer to the `i`-th event of a history is the same in any other
history with the same events whose environment agrees at position `i` — however the rules, the key or the clock differed
before (or after) it -/
theorem answer_depends_on_environment_in_force (hs hs' : List (Env × Op)) (s : Server)
    (hops : hs.map Prod.snd = hs'.map Prod.snd) (i : Nat) (hi : (hs[i]?).map Prod.fst = (hs'[i]?).map Prod.fst) :
    (runE mac s hs).2[i]? = (runE mac s hs').2[i]? := by
  induction hs generalizing hs' s i with
  | nil =>
    cases hs' with
    | nil => rfl
    | cons _ _ => simp at hops
  | cons e es ih =>
    cases hs' with
    | nil => simp at hops
    | cons e' es' =>
      simp only [List.map_cons, List.cons.injEq] at hops
      have h1 : (step mac e.1 s e.2).1 = (step mac e'.1 s e'.2).1 := by
        rw [hops.1]; exact step_state_env_free mac e.1 e'.1 s e'.2
      cases i with
      | zero =>
        simp only [List.getElem?_cons_zero, Option.map_some, Option.some.injEq] at hi
        simp only [runE, stepE, List.getElem?_cons_zero]
        rw [hops.1, hi]
      | succ j =>
        simp only [List.getElem?_cons_succ] at hi
        simp only [runE, stepE, List.getElem?_cons_succ]
        rw [h1]
        exact ih es' _ hops.2 j hi

/-- in particular: what a kept-alive connection is answered after the rules or the key were replaced is what a history that had
the new rules and key all along would answer -/
theorem kept_connection_sees_current_environment (old new : Env) (s : Server) (id port : Nat) (r1 r2 : Req) :
    (runE mac s [(old, .accept id port), (old, .request id r1), (new, .request id r2)]).2[2]? =
    (runE mac s [(new, .accept id port), (new, .request id r1), (new, .request id r2)]).2[2]? :=
  answer_depends_on_environment_in_force mac
    [(old, .accept id port), (old, .request id r1), (new, .request id r2)]
    [(new, .accept id port), (new, .request id r1), (new, .request id r2)] s rfl 2 rfl

end Gpa.Props.C07
