/-
C17  Agent upgrade is reversible: backup, install and restore reinstate files exactly.
-/
import Gpa.Model.SetupFs
namespace Gpa.Props.C17
open Gpa.SetupFs

variable (runs : Content → Bool)

@[simp] theorem put_same (fs : Fs) (p : Path) (c) : put fs p c p = c := by simp [put]
@[simp] theorem put_other (fs : Fs) (p q : Path) (c) (h : q ≠ p) : put fs p c q = fs q := by simp [put, h]

/-- a file system with the four system files, a complete package and no backup yet -/
structure Installed (fs : Fs) : Prop where
  exe : (fs .sysExe).isSome
  cfg : (fs .sysCfg).isSome
  ebpf : (fs .sysEbpf).isSome
  unit : (fs .sysUnit).isSome

structure PackageOk (fs : Fs) : Prop where
  exe : ∃ c, fs .pkgExe = some c ∧ runs c = true
  cfg : (fs .pkgCfg).isSome
  ebpf : (fs .pkgEbpf).isSome
  unit : (fs .pkgUnit).isSome

/-- **C17(a)** backup; install another version; restore ⇒ the executable, configuration, eBPF
object and unit file at their system locations are what they were before the upgrade — for all file
contents (old executable able to answer `--version`, as any installed agent is) -/
theorem roundtrip (fs : Fs) (del : Bool) (hi : Installed fs) (hp : PackageOk runs fs)
    (hold : ∃ c, fs .sysExe = some c ∧ runs c = true) :
    let fs1 := (backup fs).1
    let fs2 := (install runs fs1).1
    let fs3 := (restore runs del fs2).1
    fs3 .sysExe = fs .sysExe ∧ fs3 .sysCfg = fs .sysCfg ∧ fs3 .sysEbpf = fs .sysEbpf ∧ fs3 .sysUnit = fs .sysUnit := by
  obtain ⟨e0, he0, hr0⟩ := hold
  obtain ⟨c0, hc0⟩ := Option.isSome_iff_exists.mp hi.cfg
  obtain ⟨b0, hb0⟩ := Option.isSome_iff_exists.mp hi.ebpf
  obtain ⟨u0, hu0⟩ := Option.isSome_iff_exists.mp hi.unit
  obtain ⟨pe, hpe, hpr⟩ := hp.exe
  obtain ⟨pc, hpc⟩ := Option.isSome_iff_exists.mp hp.cfg
  obtain ⟨pb, hpb⟩ := Option.isSome_iff_exists.mp hp.ebpf
  obtain ⟨pu, hpu⟩ := Option.isSome_iff_exists.mp hp.unit
  cases del <;>
    simp [backup, install, restore, deploy, copyFile, deleteBackup, deleteFile, sys, put, he0, hc0, hb0, hu0, hpe, hpc, hpb, hpu, hr0, hpr]

/-- **C17(b)** install places exactly the packaged files -/
theorem install_places_exactly (fs : Fs) (hp : PackageOk runs fs) :
    let fs' := (install runs fs).1
    fs' .sysExe = fs .pkgExe ∧ fs' .sysCfg = fs .pkgCfg ∧ fs' .sysEbpf = fs .pkgEbpf ∧ fs' .sysUnit = fs .pkgUnit := by
  obtain ⟨pe, hpe, hpr⟩ := hp.exe
  obtain ⟨pc, hpc⟩ := Option.isSome_iff_exists.mp hp.cfg
  obtain ⟨pb, hpb⟩ := Option.isSome_iff_exists.mp hp.ebpf
  obtain ⟨pu, hpu⟩ := Option.isSome_iff_exists.mp hp.unit
  simp [install, deploy, copyFile, sys, put, hpe, hpc, hpb, hpu, hpr]

/-- the service is stopped before any file is replaced and started after the last one -/
theorem install_order (fs : Fs) (hp : PackageOk runs fs) :
    ∃ mid, (install runs fs).2 = .systemctl "stop" :: mid ++ [.systemctl "start"] ∧
      ∀ e ∈ mid, e ≠ .systemctl "start" ∧ e ≠ .systemctl "stop" := by
  obtain ⟨pe, hpe, hpr⟩ := hp.exe
  obtain ⟨pc, hpc⟩ := Option.isSome_iff_exists.mp hp.cfg
  obtain ⟨pb, hpb⟩ := Option.isSome_iff_exists.mp hp.ebpf
  obtain ⟨pu, hpu⟩ := Option.isSome_iff_exists.mp hp.unit
  refine ⟨[.write .sysExe, .write .sysCfg, .write .sysEbpf, .write .sysUnit, .systemctl "unmask", .systemctl "daemon-reload", .systemctl "enable"], ?_, ?_⟩
  · simp [install, deploy, copyFile, sys, put, hpe, hpc, hpb, hpu, hpr]
  · intro e he; revert e; decide

/-- **C17(c)** restore without a backup changes nothing (no file, no service call) -/
theorem restore_without_backup_is_identity (fs : Fs) (del : Bool) (h : fs .bakExe = none) :
    restore runs del fs = (fs, []) := by
  simp [restore, h]

/-- **C17(d)** uninstall in package mode removes the installed files -/
theorem uninstall_package_removes (fs : Fs) :
    let fs' := (uninstall true fs).1
    fs' .sysExe = none ∧ fs' .sysCfg = none ∧ fs' .sysEbpf = none ∧ fs' .sysUnit = none := by
  cases h1 : fs .sysUnit <;> cases h2 : fs .sysExe <;> cases h3 : fs .sysCfg <;> cases h4 : fs .sysEbpf <;>
    simp [uninstall, deleteFile, sys, put, h1, h2, h3, h4]

theorem uninstall_service_keeps_package (fs : Fs) :
    let fs' := (uninstall false fs).1
    fs' .sysExe = fs .sysExe ∧ fs' .sysCfg = fs .sysCfg ∧ fs' .sysEbpf = fs .sysEbpf ∧ fs' .sysUnit = none := by
  cases h1 : fs .sysUnit <;> simp [uninstall, deleteFile, sys, put, h1]

def isBackupPath : Path → Bool
  | .bakExe | .bakCfg | .bakEbpf | .bakUnit => true
  | _ => false

def isSystemPath : Path → Bool
  | .sysExe | .sysCfg | .sysEbpf | .sysUnit => true
  | _ => false

theorem copyFile_frame (st : Fs × List Ev) (src dst q : Path) (h : q ≠ dst) : (copyFile st src dst).1 q = st.1 q := by
  unfold copyFile; split <;> simp [put, h]

theorem deleteFile_frame (st : Fs × List Ev) (p q : Path) (h : q ≠ p) : (deleteFile st p).1 q = st.1 q := by
  unfold deleteFile; split <;> simp [put, h]

/-- **C17(e)** purge removes only the backup -/
theorem purge_removes_only_backup (fs : Fs) :
    (∀ q, isBackupPath q = true → (purge fs).1 q = none) ∧ (∀ q, isBackupPath q = false → (purge fs).1 q = fs q) := by
  constructor
  · intro q hq
    cases q <;> simp [isBackupPath] at hq <;>
      (cases h1 : fs .bakExe <;> cases h2 : fs .bakCfg <;> cases h3 : fs .bakEbpf <;> cases h4 : fs .bakUnit <;>
        simp [purge, deleteBackup, deleteFile, put, h1, h2, h3, h4])
  · intro q hq
    simp only [purge, deleteBackup]
    rw [deleteFile_frame, deleteFile_frame, deleteFile_frame, deleteFile_frame] <;>
      (intro e; subst e; simp [isBackupPath] at hq)

theorem deploy_frame (st : Fs × List Ev) (exe cfg ebpf unit q : Path) (h : isSystemPath q = false) :
    (deploy runs st exe cfg ebpf unit).1 q = st.1 q := by
  have hne : q ≠ .sysExe ∧ q ≠ .sysCfg ∧ q ≠ .sysEbpf ∧ q ≠ .sysUnit := by
    refine ⟨?_, ?_, ?_, ?_⟩ <;> (intro e; subst e; simp [isSystemPath] at h)
  unfold deploy
  split
  · rfl
  · split
    · rfl
    · simp only
      split
      · rw [copyFile_frame _ _ _ _ hne.2.2.1, copyFile_frame _ _ _ _ hne.2.1, copyFile_frame _ _ _ _ hne.1]
      · simp only [sys]
        rw [copyFile_frame _ _ _ _ hne.2.2.2, copyFile_frame _ _ _ _ hne.2.2.1, copyFile_frame _ _ _ _ hne.2.1,
          copyFile_frame _ _ _ _ hne.1]

/-- **C17(f)** frame: no command alters any path outside the four system locations and the backup
folder — in particular not the package it was started from, nor anything else on the machine — for
every command and every initial state -/
theorem frame (fs : Fs) (cmd : Cmd) (q : Path) (hs : isSystemPath q = false) (hb : isBackupPath q = false) :
    (run runs fs cmd).1 q = fs q := by
  have hneS : q ≠ .sysExe ∧ q ≠ .sysCfg ∧ q ≠ .sysEbpf ∧ q ≠ .sysUnit := by
    refine ⟨?_, ?_, ?_, ?_⟩ <;> (intro e; subst e; simp [isSystemPath] at hs)
  have hneB : q ≠ .bakExe ∧ q ≠ .bakCfg ∧ q ≠ .bakEbpf ∧ q ≠ .bakUnit := by
    refine ⟨?_, ?_, ?_, ?_⟩ <;> (intro e; subst e; simp [isBackupPath] at hb)
  have hdb : ∀ st : Fs × List Ev, (deleteBackup st).1 q = st.1 q := by
    intro st
    simp only [deleteBackup]
    rw [deleteFile_frame _ _ _ hneB.2.2.2, deleteFile_frame _ _ _ hneB.2.2.1, deleteFile_frame _ _ _ hneB.2.1,
      deleteFile_frame _ _ _ hneB.1]
  cases cmd with
  | backup =>
    simp only [run, backup]
    rw [copyFile_frame _ _ _ _ hneB.2.2.2, copyFile_frame _ _ _ _ hneB.1, copyFile_frame _ _ _ _ hneB.2.2.1,
      copyFile_frame _ _ _ _ hneB.2.1]
  | install => simp only [run, install]; rw [deploy_frame runs _ _ _ _ _ _ hs]; rfl
  | restore d =>
    simp only [run, restore]
    split
    · rfl
    · split
      · rw [hdb, deploy_frame runs _ _ _ _ _ _ hs]; rfl
      · rw [deploy_frame runs _ _ _ _ _ _ hs]; rfl
  | uninstall p =>
    simp only [run, uninstall]
    cases hu : fs .sysUnit <;> cases p <;> simp only [sys, hu, Bool.false_eq_true, ↓reduceIte]
    · rw [deleteFile_frame _ _ _ hneS.2.2.1, deleteFile_frame _ _ _ hneS.2.1, deleteFile_frame _ _ _ hneS.1]
    · rw [deleteFile_frame _ _ _ hneS.2.2.2]
    · rw [deleteFile_frame _ _ _ hneS.2.2.1, deleteFile_frame _ _ _ hneS.2.1, deleteFile_frame _ _ _ hneS.1,
        deleteFile_frame _ _ _ hneS.2.2.2]
  | purge => simp only [run, purge]; exact hdb _

/-! non-vacuity -/
def exFs : Fs
  | .sysExe => some 1 | .sysCfg => some 2 | .sysEbpf => some 3 | .sysUnit => some 4
  | .pkgExe => some 11 | .pkgCfg => some 12 | .pkgEbpf => some 13 | .pkgUnit => some 14
  | _ => none
example : ((install (fun _ => true) (backup exFs).1).1 .sysExe) = some 11 := by decide
example : ((restore (fun _ => true) true (install (fun _ => true) (backup exFs).1).1).1 .sysExe) = some 1 := by decide
example : ((restore (fun _ => true) true (install (fun _ => true) (backup exFs).1).1).1 .bakExe) = none := by decide

end Gpa.Props.C17
