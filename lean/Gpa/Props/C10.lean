/-
C10  The key id in a signature always names the key that produced the MAC.
-/
import Gpa.Model.SignSched
namespace Gpa.Props.C10
open Gpa.SignSched Gpa.KeyKeeper Gpa.Text

theorem step_emitted_mono (s : St) (o : Op) : ∀ e ∈ s.emitted, e ∈ (step s o).emitted := by
  intro e he
  cases o <;> simp only [step]
  · exact he
  · exact he
  · exact List.mem_append_left _ he
  · exact he
  · split
    · exact List.mem_append_left _ he
    · exact he

/-- **C10** when every signer reads the latched key in a single actor message, then under EVERY
interleaving of any number of signers with key rotation, clearing and re-latching, each emitted
pair is `(k.guid, k.key)` for one key `k` that was latched at some instant of the run — or the
request goes out unsigned; never the id of one key with the secret of another. -/
theorem pair_consistent (init : Option Key) (ops : List Op) (h : onlyPairReads ops = true) :
    ∀ e ∈ (run (St.init init) ops).emitted,
      e.2 = none ∨ ∃ k ∈ everLatched init ops, e.2 = some (k.guid, k.key) := by
  -- generalise over the starting state: cell content is ever-latched, emitted pairs are consistent
  suffices H : ∀ (ops : List Op) (s : St) (L : List Key), onlyPairReads ops = true →
      (∀ k, s.cell = some k → k ∈ L) →
      (∀ e ∈ s.emitted, e.2 = none ∨ ∃ k ∈ L, e.2 = some (k.guid, k.key)) →
      ∀ e ∈ (run s ops).emitted, e.2 = none ∨ ∃ k ∈ L ++ (ops.filterMap setKey?),
        e.2 = some (k.guid, k.key) by
    intro e he
    have := H ops (St.init init) init.toList h (by
      intro k hk; simp only [St.init] at hk; simp [hk]) (by intro e he; cases he) e he
    simpa [everLatched] using this
  intro ops
  induction ops with
  | nil =>
    intro s L _ _ hem e he
    rcases hem e he with h0 | ⟨k, hk, hp⟩
    · exact Or.inl h0
    · exact Or.inr ⟨k, by simp [hk], hp⟩
  | cons o ops ih =>
    intro s L hops hcell hem e he
    simp only [onlyPairReads, List.all_cons, Bool.and_eq_true] at hops
    have hrest : onlyPairReads ops = true := hops.2
    simp only [run, List.foldl_cons] at he
    cases o with
    | set k =>
      have := ih (step s (.set k)) (L ++ [k]) hrest
        (by intro k' hk'; simp only [step, Option.some.injEq] at hk'; simp [hk'])
        (by intro e' he'
            rcases hem e' he' with h0 | ⟨k', hk', hp⟩
            · exact Or.inl h0
            · exact Or.inr ⟨k', by simp [hk'], hp⟩) e he
      rcases this with h0 | ⟨k', hk', hp⟩
      · exact Or.inl h0
      · exact Or.inr ⟨k', by simpa [List.filterMap_cons, setKey?] using hk', hp⟩
    | clear =>
      have := ih (step s .clear) L hrest (by intro k' hk'; simp [step] at hk') hem e he
      rcases this with h0 | ⟨k', hk', hp⟩
      · exact Or.inl h0
      · exact Or.inr ⟨k', by simpa [List.filterMap_cons, setKey?] using hk', hp⟩
    | readPair i =>
      have := ih (step s (.readPair i)) L hrest hcell
        (by intro e' he'
            simp only [step, List.mem_append, List.mem_singleton] at he'
            rcases he' with h1 | h1
            · exact hem e' h1
            · rw [h1]
              cases hc : s.cell with
              | none => left; simp
              | some k => right; exact ⟨k, hcell k hc, by simp⟩) e he
      rcases this with h0 | ⟨k', hk', hp⟩
      · exact Or.inl h0
      · exact Or.inr ⟨k', by simpa [List.filterMap_cons, setKey?] using hk', hp⟩
    | readValue i => simp at hops
    | readGuid i => simp at hops

/-- **negative witness (F5)** with the two-message program (value in one message, id in another) a
rotation that lands between the two reads signs with K1's secret under K2's id -/
def K1 : Key := { guid := "id-1".toList, key := "secret-1".toList }
def K2 : Key := { guid := "id-2".toList, key := "secret-2".toList }
theorem two_reads_can_mismatch :
    (run (St.init (some K1)) [.readValue 0, .set K2, .readGuid 0]).emitted = [(0, some (K2.guid, K1.key))] := by decide

/-- the same schedule with the single-message program is consistent -/
example : (run (St.init (some K1)) [.readPair 0, .set K2]).emitted = [(0, some (K1.guid, K1.key))] := by decide
example : (run (St.init (some K1)) [.set K2, .readPair 0]).emitted = [(0, some (K2.guid, K2.key))] := by decide
example : (run (St.init (some K1)) [.clear, .readPair 0]).emitted = [(0, none)] := by decide

end Gpa.Props.C10
