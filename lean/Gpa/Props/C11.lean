/-
C11  Enforce blocks, audit forwards and records; every denial is recorded once.
-/
import Gpa.Generated.Facts
import Gpa.Lemmas.Pipeline
import Gpa.Lemmas.Rbac
namespace Gpa.Props.C11
open Gpa.Pipeline Gpa.Rbac Gpa.Text Gpa.Url Gpa.Headers Gpa.Canon

variable (mac : Str → List UInt8 → Str)

/-- the rules deny the request (the decision function of C02 says no) -/
def denies (it : Item) (u : Uri) (c : Claims) : Prop := isAllowed (compute it) u c = false

theorem mode_compute (it : Item) : (compute it).mode = parseMode it.mode := by rw [compute_eq]

/-- endpoints whose rules are consulted for this caller -/
def consulted (ep : Endpoint) (caller : Caller) : Prop :=
  ep = .imds ∨ ((ep = .wireServer ∨ ep = .gaPlugin) ∧ caller.elevated = true)

theorem authorize_consulted (ep : Endpoint) (caller : Caller) (u : Uri) (rules : Option Item)
    (h : consulted ep caller) : authorize ep caller u rules = rulesDecision rules u caller.claims := by
  rcases h with h | ⟨h | h, he⟩ <;> subst h <;> simp [authorize, *]

/-- **C11(a)** enforce mode + denial: 403, nothing relayed, exactly one failed-authorization record -/
theorem enforce_denial (env : Env) (conn : Conn) (r : Req) (ip : Str) (port : Nat) (caller : Caller) (it : Item)
    (hl : ¬ (r.declared.getD 0) > limitFor r) (ht : containsSub r.uri.path ['.', '.'] = false)
    (hp : r.uri.toStr ≠ provisionUrl)
    (hd : conn.dest = some (ip, port)) (hc : conn.caller = some caller)
    (hcons : consulted (endpointOf ip port) caller)
    (hr : rulesFor (endpointOf ip port) env = .ok (some it))
    (hmode : parseMode it.mode = .enforce) (hdeny : denies it r.uri caller.claims) :
    handle mac env conn r = ⟨.respond 403, 1⟩ := by
  have hf : authorize (endpointOf ip port) caller r.uri (some it) = .forbidden := by
    rw [authorize_consulted _ _ _ _ hcons]
    simp only [rulesDecision, denies] at hdeny ⊢
    simp [hdeny, mode_compute, hmode]
  rw [handle_eq_connStage mac env conn r hl ht hp, connStage_attributed mac env conn r ip port caller hd hc,
    authStage_forbidden mac env r ip port caller _ hr hf]

/-- **C11(b)** audit mode + denial: the request is relayed exactly as an allowed one would be
(`forwardStage` does not look at the rules at all) and exactly one record is added -/
theorem audit_denial (env : Env) (conn : Conn) (r : Req) (ip : Str) (port : Nat) (caller : Caller) (it : Item)
    (hl : ¬ (r.declared.getD 0) > limitFor r) (ht : containsSub r.uri.path ['.', '.'] = false)
    (hp : r.uri.toStr ≠ provisionUrl)
    (hd : conn.dest = some (ip, port)) (hc : conn.caller = some caller)
    (hcons : consulted (endpointOf ip port) caller)
    (hr : rulesFor (endpointOf ip port) env = .ok (some it))
    (hmode : parseMode it.mode = .audit) (hdeny : denies it r.uri caller.claims) :
    handle mac env conn r = ⟨forwardStage mac env caller r, 1⟩ := by
  have ha : authorize (endpointOf ip port) caller r.uri (some it) = .okWithAudit := by
    rw [authorize_consulted _ _ _ _ hcons]
    simp only [rulesDecision, denies] at hdeny ⊢
    simp [hdeny, mode_compute, hmode]
  rw [handle_eq_connStage mac env conn r hl ht hp, connStage_attributed mac env conn r ip port caller hd hc,
    authStage_pass mac env r ip port caller _ hr (by rw [ha]; decide), ha]
  rfl

/-- an allowed request (any mode) is relayed by the same `forwardStage`, with no record -/
theorem allowed_request (env : Env) (conn : Conn) (r : Req) (ip : Str) (port : Nat) (caller : Caller) (rules)
    (hl : ¬ (r.declared.getD 0) > limitFor r) (ht : containsSub r.uri.path ['.', '.'] = false)
    (hp : r.uri.toStr ≠ provisionUrl)
    (hd : conn.dest = some (ip, port)) (hc : conn.caller = some caller)
    (hr : rulesFor (endpointOf ip port) env = .ok rules)
    (ha : authorize (endpointOf ip port) caller r.uri rules = .ok) :
    handle mac env conn r = ⟨forwardStage mac env caller r, 0⟩ := by
  rw [handle_eq_connStage mac env conn r hl ht hp, connStage_attributed mac env conn r ip port caller hd hc,
    authStage_pass mac env r ip port caller _ hr (by rw [ha]; decide), ha]
  rfl

/-- `forwardStage` reads the environment only through the key and the clock: what is relayed for
an audited denial is what would be relayed for an allowed request -/
theorem forwardStage_ignores_rules (env env' : Env) (caller : Caller) (r : Req)
    (hk : env'.key = env.key) (hn : env'.now = env.now) :
    forwardStage mac env' caller r = forwardStage mac env caller r := by
  unfold forwardStage signStage
  rw [hk, hn]

/-- **C11(c)** disabled mode: the rules are not consulted — whatever the document contains, the
decision is Ok and no record is added -/
theorem disabled_ignores_rules (it : Item) (u : Uri) (c : Claims) (h : parseMode it.mode = .disabled) :
    rulesDecision (some it) u c = .ok := by
  have hm : (compute it).mode = .disabled := by rw [mode_compute]; exact h
  simp [rulesDecision, isAllowed, hm]

/-! ### the summary: every denial is counted exactly once, under its caller's key -/

section summary
variable {κ : Type} [DecidableEq κ]

/-- `failed_authenticate_summary`: insert with count 1 if the key is vacant, else count += 1 -/
def addOne (m : List (κ × Nat)) (k : κ) : List (κ × Nat) :=
  match m with
  | [] => [(k, 1)]
  | (k', n) :: rest => if k' = k then (k', n + 1) :: rest else (k', n) :: addOne rest k

def countOf (m : List (κ × Nat)) (k : κ) : Nat :=
  match m with
  | [] => 0
  | (k', n) :: rest => if k' = k then n else countOf rest k

theorem countOf_addOne (m : List (κ × Nat)) (k q : κ) :
    countOf (addOne m k) q = countOf m q + (if k = q then 1 else 0) := by
  induction m with
  | nil => simp [addOne, countOf]
  | cons hd tl ih =>
    obtain ⟨k', n⟩ := hd
    simp only [addOne]
    by_cases h1 : k' = k
    · subst h1
      by_cases h2 : k' = q <;> simp [countOf, h2]
    · simp only [h1, ↓reduceIte, countOf]
      by_cases h2 : k' = q
      · subst h2
        have : ¬ k = k' := fun e => h1 e.symm
        simp [this]
      · simp [h2, ih]

theorem countOf_addAll (m : List (κ × Nat)) (ks : List κ) (q : κ) :
    countOf (ks.foldl addOne m) q = countOf m q + ks.count q := by
  induction ks generalizing m with
  | nil => simp
  | cons k ks ih =>
    simp only [List.foldl_cons, ih, countOf_addOne, List.count_cons]
    by_cases h : k = q <;> simp [h] <;> omega

/-- **C11(d)** after any history, the count published under key `q` is the number of denials with
key `q` in that history … -/
theorem counts (ks : List κ) (q : κ) : countOf (ks.foldl addOne []) q = ks.count q := by
  simpa [countOf] using countOf_addAll [] ks q

/-- … and does not depend on the order (hence on the interleaving of concurrent connections, the
status actor handling one addition at a time) -/
theorem counts_perm (ks ks' : List κ) (h : ks.Perm ks') (q : κ) :
    countOf (ks.foldl addOne []) q = countOf (ks'.foldl addOne []) q := by
  rw [counts, counts, h.count_eq]
end summary

/-! ### the status task: what is counted is published until it is cleared, and it is cleared a day after the task started

`loop_status` publishes the summary in every iteration and clears it when `start_time.elapsed() >= map_clear_duration`,
`start_time` being the moment the task started or last cleared (generated facts: the duration, the test that
guards the clearing, the timer being restarted there). Denials can be recorded before the task runs its first iteration (the task is started
only once provisioning has finished or timed out). -/
section statusTask
variable {κ : Type} [DecidableEq κ]

inductive TaskEv (κ : Type) where
  /-- a denial recorded at the status actor -/
  | deny (k : κ)
  /-- one iteration of the status loop, `t` ms after the task started (monotonic clock) -/
  | tick (t : Nat)

structure TaskSt (κ : Type) where
  summary : List (κ × Nat)
  /-- `start_time`, in ms after the task started -/
  since : Nat
  /-- what every iteration wrote to status.json, latest first -/
  published : List (List (κ × Nat))

def clearAfterMs : Nat := Gpa.Facts.statusClearSeconds * 1000

def taskStep (s : TaskSt κ) : TaskEv κ → TaskSt κ
  | .deny k => { s with summary := addOne s.summary k }
  | .tick t =>
    if t - s.since ≥ clearAfterMs then { summary := [], since := t, published := s.summary :: s.published }
    else { s with published := s.summary :: s.published }

def denialsOf : List (TaskEv κ) → List κ
  | [] => []
  | .deny k :: t => k :: denialsOf t
  | .tick _ :: t => denialsOf t

/-- every iteration in the history comes less than a day after the task started -/
def Early : List (TaskEv κ) → Prop
  | [] => True
  | .deny _ :: t => Early t
  | .tick x :: t => x < clearAfterMs ∧ Early t

theorem early_history (evs : List (TaskEv κ)) (s : TaskSt κ) (h0 : s.since = 0) (h : Early evs) :
    (evs.foldl taskStep s).summary = (denialsOf evs).foldl addOne s.summary ∧ (evs.foldl taskStep s).since = 0 := by
  induction evs generalizing s with
  | nil => exact ⟨rfl, h0⟩
  | cons e t ih =>
    cases e with
    | deny k => exact ih _ h0 h
    | tick x =>
      obtain ⟨hx, ht⟩ := h
      have hn : ¬ (x - s.since ≥ clearAfterMs) := by rw [h0]; omega
      simp only [List.foldl_cons, taskStep, if_neg hn, denialsOf]
      exact ih _ h0 ht

/-- **C11 (every denial recorded, status task)** denials recorded before the task started (`before`) and while it
runs are all in what an iteration publishes, as long as less than a day has passed since the task started: the count
published under `q` is the number of denials with key `q` so far -/
theorem published_counts_every_denial_so_far (before : List κ) (evs : List (TaskEv κ)) (t : Nat) (q : κ)
    (h : Early evs) :
    let s0 : TaskSt κ := { summary := before.foldl addOne [], since := 0, published := [] }
    ((evs ++ [TaskEv.tick t]).foldl taskStep s0).published.head?.map (countOf · q) = some ((before ++ denialsOf evs).count q) := by
  intro s0
  obtain ⟨hs, h0⟩ := early_history evs s0 rfl h
  have e : ∀ s : TaskSt κ, (taskStep s (.tick t)).published.head? = some s.summary := by
    intro s; simp only [taskStep]; split <;> rfl
  rw [List.foldl_append, List.foldl_cons, List.foldl_nil, e, hs]
  simp only [Option.map_some, s0]
  rw [← List.foldl_append, counts]

/-- the summary is cleared only by an iteration that comes a full day after the task started or last cleared -/
theorem cleared_only_after_a_day (s : TaskSt κ) (t : Nat) (h : (taskStep s (.tick t)).since ≠ s.since) :
    t - s.since ≥ clearAfterMs := by
  by_cases hc : t - s.since ≥ clearAfterMs
  · exact hc
  · simp [taskStep, hc] at h

theorem status_task_facts :
    Gpa.Facts.statusClearSeconds = 86400 ∧ Gpa.Facts.statusClearTest = 1 ∧ Gpa.Facts.statusClearResetsTimer = 1 := by decide

end statusTask

/-- negative witness: a clear that fires at the first iteration (a timer whose first tick is immediate) drops the
denials recorded before the task started; the source's rule keeps them -/
theorem clear_at_first_iteration_loses_denials :
    let s0 : TaskSt Nat := { summary := [7, 7, 9].foldl addOne [], since := 0, published := [] }
    let eager (s : TaskSt Nat) (t : Nat) : TaskSt Nat := { summary := [], since := t, published := s.summary :: s.published }
    ((taskStep (eager s0 0) (.tick 60)).published.head?.map (countOf · 7) = some 0) ∧
    ((taskStep (taskStep s0 (.tick 0)) (.tick 60)).published.head?.map (countOf · 7) = some 2) := by
  decide

/-- the denial keys of a history of requests: one key per request whose handling produced a
failed-authorization record -/
def denialKeys {κ : Type} (key : Conn → κ) (env : Env) (hist : List (Conn × Req)) : List κ :=
  (hist.filter fun cr => (handle mac env cr.1 cr.2).failedAuth = 1).map fun cr => key cr.1

/-- every request adds at most one record -/
theorem failedAuth_le_one (env : Env) (conn : Conn) (r : Req) : (handle mac env conn r).failedAuth ≤ 1 := by
  unfold handle
  split; · simp
  split; · simp
  split; · simp
  unfold connStage
  split; · simp
  split; · simp
  unfold authStage
  split; · simp
  simp only
  split <;> simp <;> split <;> simp

/-! non-vacuity -/
example : countOf ([1, 2, 1, 1].foldl addOne ([] : List (Nat × Nat))) 1 = 3 := by decide

end Gpa.Props.C11
