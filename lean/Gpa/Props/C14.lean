/-
C14  The proxy is transparent: requests and responses are relayed unchanged.
-/
import Gpa.Lemmas.Pipeline
import Gpa.Props.C05
namespace Gpa.Props.C14
open Gpa.Pipeline Gpa.Rbac Gpa.Text Gpa.Url Gpa.Headers Gpa.Canon

variable (mac : Str → List UInt8 → Str)

/-- the client's headers other than the three proxy-owned names and the message-framing header
`transfer-encoding` (which the property lets either leg regenerate) -/
def clientPart (hs : Headers) : Headers :=
  hs.filter fun kv => kv.1 ≠ claimsHeader ∧ kv.1 ≠ dateHeader ∧ kv.1 ≠ authHeader ∧ kv.1 ≠ teHeader

theorem clientPart_remove_te (hs : Headers) : clientPart (remove teHeader hs) = clientPart hs := by
  unfold clientPart remove
  rw [List.filter_filter]
  apply List.filter_congr
  intro kv _
  by_cases h : kv.1 = teHeader <;> simp [h]

theorem clientPart_signed (r : Req) (hs : Headers) : clientPart (signedHeaders r hs) = clientPart hs := by
  unfold signedHeaders; split
  · exact clientPart_remove_te hs
  · rfl

theorem clientPart_insert (n v : Str) (hs : Headers)
    (hn : n = claimsHeader ∨ n = dateHeader ∨ n = authHeader) :
    clientPart (insert n v hs) = clientPart hs := by
  unfold clientPart
  apply filter_insert_other
  intro kv hk
  rcases hn with h | h | h <;> subst h <;> simp [hk]

/-- **C14(a)** for a relayed request the host receives the client's method, path and query, body
bytes unchanged, and every client header other than the three proxy-owned names unchanged (values
and relative order; `ofWire` is hyper's own parsing: names lower-cased, same-name values grouped). -/
theorem request_transparent (env : Env) (conn : Conn) (r : Req) (u : UpReq)
    (h : (handle mac env conn r).outcome = .forward u) :
    u.method = r.method ∧ u.uri = r.uri ∧ u.body = r.body ∧
    clientPart u.headers = clientPart (ofWire r.headers) := by
  obtain ⟨ip, port, caller, rules, _, _, _, _, _, _, _, hfwd⟩ := handle_forward mac env conn r u h
  obtain ⟨hm, hu, hb, _, hcase⟩ := forwardStage_forward mac env caller r u hfwd
  refine ⟨hm, hu, hb, ?_⟩
  have howned : clientPart (ownedHeaders env caller r) = clientPart (ofWire r.headers) := by
    unfold ownedHeaders
    rw [clientPart_insert _ _ _ (Or.inr (Or.inl rfl)), clientPart_insert _ _ _ (Or.inl rfl)]
  rcases hcase with ⟨hh, _, _⟩ | ⟨hh, _, _⟩ | ⟨_, _, _, _, _, _, _, hh, _⟩
  · rw [hh, howned]
  · rw [hh, clientPart_signed, howned]
  · rw [hh, clientPart_insert _ _ _ (Or.inr (Or.inr rfl)), clientPart_signed, howned]

/-- `u8::to_be` is the identity on a byte: the response frame mapping changes nothing -/
theorem to_be_identity (bs : List UInt8) : bs.map (fun b => b) = bs := List.map_id' bs

/-- **C14(b)** the client receives the host's status and body byte-for-byte, and the host's headers
unchanged except that exactly one marker header is present -/
theorem response_transparent (resp : Resp) :
    (relayResponse resp).status = resp.status ∧ (relayResponse resp).body = resp.body ∧
    remove authHeader (relayResponse resp).headers = remove authHeader (ofWire resp.headers) ∧
    count authHeader (relayResponse resp).headers = 1 ∧
    get? authHeader (relayResponse resp).headers = some "value".toList := by
  refine ⟨rfl, ?_, ?_, ?_, ?_⟩
  · simp [relayResponse]
  · simp only [relayResponse]; exact remove_insert_self _ _ _
  · simp only [relayResponse]; exact count_insert_self _ _ _
  · simp only [relayResponse]; exact get?_insert_self _ _ _

/-- one client connection = one upstream connection, requests handled strictly in order: the
i-th response answers the i-th request (the upstream `host` is a parameter) -/
def serveConnection (host : UpReq → Resp) (env : Env) (conn : Conn) (reqs : List Req) : List (Option Resp) :=
  reqs.map fun r =>
    match (handle mac env conn r).outcome with
    | .forward u => some (relayResponse (host u))
    | _ => none

/-- **C14(c)** pipelining: the i-th answer on a connection is the relay of the host's answer to the
i-th request — never to another request of the same connection -/
theorem pipelining_order (host : UpReq → Resp) (env : Env) (conn : Conn) (reqs : List Req) (i : Nat)
    (hi : i < reqs.length) (u : UpReq) (h : (handle mac env conn reqs[i]).outcome = .forward u) :
    (serveConnection mac host env conn reqs)[i]? = some (some (relayResponse (host u))) := by
  simp [serveConnection, hi, h]

example : clientPart (ofWire [("Accept".toList, "*/*".toList), ("X-MS-Azure-Host-Date".toList, "old".toList)])
    = [("accept".toList, "*/*".toList)] := by decide

end Gpa.Props.C14
