/-
C03  WireServer/HostGAPlugin are root-only under every policy; no self-proxying.
-/
import Gpa.Lemmas.Pipeline
namespace Gpa.Props.C03
open Gpa.Pipeline Gpa.Rbac Gpa.Text Gpa.Url

variable (mac : Str → List UInt8 → Str)

/-- obligations on generated facts: the four endpoint selectors are the documented addresses, and
the proxy's own address is distinct from the metadata endpoints -/
theorem facts_endpoints :
    Gpa.Facts.wireServerIp = "168.63.129.16" ∧ Gpa.Facts.wireServerPort = 80 ∧
    Gpa.Facts.gaPluginIp = "168.63.129.16" ∧ Gpa.Facts.gaPluginPort = 32526 ∧
    Gpa.Facts.imdsIp = "169.254.169.254" ∧ Gpa.Facts.imdsPort = 80 ∧
    Gpa.Facts.proxyAgentIp = "127.0.0.1" ∧ Gpa.Facts.proxyAgentPort = 3080 := by decide

/-- **C03(a)** a caller that is not elevated is Forbidden on WireServer and HostGAPlugin for every
rule set (none, disabled, audit, enforce, any default, even rules that grant the caller) and URL -/
theorem nonelevated_forbidden (ep : Endpoint) (h : ep = .wireServer ∨ ep = .gaPlugin)
    (caller : Caller) (hne : caller.elevated = false) (u : Uri) (rules : Option Item) :
    authorize ep caller u rules = .forbidden := by
  rcases h with h | h <;> subst h <;> simp [authorize, hne]

/-- **C03(b)** the proxy's own listener address as original destination is always Forbidden -/
theorem self_destination_forbidden (caller : Caller) (u : Uri) (rules : Option Item) :
    authorize .proxySelf caller u rules = .forbidden := rfl

theorem endpointOf_self : endpointOf "127.0.0.1".toList 3080 = .proxySelf := by decide
theorem endpointOf_wireServer : endpointOf "168.63.129.16".toList 80 = .wireServer := by decide
theorem endpointOf_gaPlugin : endpointOf "168.63.129.16".toList 32526 = .gaPlugin := by decide

def isForward : Outcome → Bool
  | .forward _ => true
  | _ => false

/-- **C03(c)** composed with the pipeline: such a request is never relayed — whatever the
environment (rules in any mode, key or none), the request and its headers/body -/
theorem never_relayed (env : Env) (conn : Conn) (r : Req) (ip : Str) (port : Nat) (caller : Caller)
    (hd : conn.dest = some (ip, port)) (hc : conn.caller = some caller)
    (h : ((endpointOf ip port = .wireServer ∨ endpointOf ip port = .gaPlugin) ∧ caller.elevated = false) ∨
          endpointOf ip port = .proxySelf) :
    isForward (handle mac env conn r).outcome = false := by
  cases hf : (handle mac env conn r).outcome with
  | forward u =>
    obtain ⟨ip', port', caller', rules, hd', hc', _, _, _, _, hauth, _⟩ := handle_forward mac env conn r u hf
    rw [hd] at hd'; rw [hc] at hc'
    cases hd'; cases hc'
    rcases h with ⟨hep, hne⟩ | hself
    · exact absurd (nonelevated_forbidden _ hep caller hne r.uri rules) hauth
    · rw [hself] at hauth; exact absurd rfl hauth
  | _ => rfl

/-- and when it gets as far as authorization the answer is 403 -/
theorem refused_403 (env : Env) (conn : Conn) (r : Req) (ip : Str) (port : Nat) (caller : Caller) (rules)
    (hl : ¬ (r.declared.getD 0) > limitFor r) (ht : containsSub r.uri.path ['.', '.'] = false)
    (hp : r.uri.toStr ≠ provisionUrl)
    (hd : conn.dest = some (ip, port)) (hc : conn.caller = some caller)
    (hr : rulesFor (endpointOf ip port) env = .ok rules)
    (h : ((endpointOf ip port = .wireServer ∨ endpointOf ip port = .gaPlugin) ∧ caller.elevated = false) ∨
          endpointOf ip port = .proxySelf) :
    (handle mac env conn r).outcome = .respond 403 := by
  have hf : authorize (endpointOf ip port) caller r.uri rules = .forbidden := by
    rcases h with ⟨hep, hne⟩ | hself
    · exact nonelevated_forbidden _ hep caller hne r.uri rules
    · rw [hself]; rfl
  rw [handle_eq_connStage mac env conn r hl ht hp, connStage_attributed mac env conn r ip port caller hd hc,
    authStage_forbidden mac env r ip port caller rules hr hf]

/-! non-vacuity: an elevated caller IS relayed to WireServer without rules -/
example : authorize .wireServer { claims := ⟨[], [], [], []⟩, elevated := true } ⟨[], none⟩ none = .ok := by decide
example : authorize .wireServer { claims := ⟨[], [], [], []⟩, elevated := false } ⟨[], none⟩ none = .forbidden := by decide

end Gpa.Props.C03
