/-
C05  Proxy-owned headers cannot be spoofed or duplicated by the client.
-/
import Gpa.Lemmas.Pipeline
namespace Gpa.Props.C05
open Gpa.Pipeline Gpa.Rbac Gpa.Text Gpa.Url Gpa.Headers Gpa.Canon

variable (mac : Str → List UInt8 → Str)

/-- generated header names are the documented ones and pairwise different -/
theorem facts_names :
    Gpa.Facts.claimsHeaderName = "x-ms-azure-host-claims" ∧
    Gpa.Facts.dateHeaderName = "x-ms-azure-host-date" ∧
    Gpa.Facts.authorizationHeaderName = "x-ms-azure-host-authorization" := by decide

theorem names_distinct : claimsHeader ≠ dateHeader ∧ claimsHeader ≠ authHeader ∧ dateHeader ≠ authHeader := by
  decide

theorem owned_claims (env : Env) (c : Caller) (r : Req) :
    count claimsHeader (ownedHeaders env c r) = 1 ∧
    get? claimsHeader (ownedHeaders env c r) = some (claimsValue c.elevated) := by
  unfold ownedHeaders
  rw [count_insert_other _ _ _ _ names_distinct.1, get?_insert_other _ _ _ _ names_distinct.1]
  exact ⟨count_insert_self _ _ _, get?_insert_self _ _ _⟩

theorem owned_date (env : Env) (c : Caller) (r : Req) :
    count dateHeader (ownedHeaders env c r) = 1 ∧ get? dateHeader (ownedHeaders env c r) = some env.now := by
  unfold ownedHeaders
  exact ⟨count_insert_self _ _ _, get?_insert_self _ _ _⟩

theorem names_not_te : claimsHeader ≠ teHeader ∧ dateHeader ≠ teHeader ∧ authHeader ≠ teHeader := by decide

theorem signed_claims (env : Env) (c : Caller) (r : Req) :
    count claimsHeader (signedHeaders r (ownedHeaders env c r)) = 1 ∧
    get? claimsHeader (signedHeaders r (ownedHeaders env c r)) = some (claimsValue c.elevated) := by
  unfold signedHeaders
  split
  · rw [count_remove_other _ _ _ names_not_te.1, get?_remove_other _ _ _ names_not_te.1]; exact owned_claims env c r
  · exact owned_claims env c r

theorem signed_date (env : Env) (c : Caller) (r : Req) :
    count dateHeader (signedHeaders r (ownedHeaders env c r)) = 1 ∧
    get? dateHeader (signedHeaders r (ownedHeaders env c r)) = some env.now := by
  unfold signedHeaders
  split
  · rw [count_remove_other _ _ _ names_not_te.2.1, get?_remove_other _ _ _ names_not_te.2.1]; exact owned_date env c r
  · exact owned_date env c r

/-- **C05(a,b)** in every relayed request — for every client header list, containing any number of
copies of the proxy-owned names in any letter case with any values — the host sees exactly one
claims header, stating the attributed caller's elevation, and exactly one date header carrying the
proxy's clock value. -/
theorem claims_and_date_unique_and_true (env : Env) (conn : Conn) (r : Req) (u : UpReq)
    (h : (handle mac env conn r).outcome = .forward u) :
    ∃ caller, conn.caller = some caller ∧
      count claimsHeader u.headers = 1 ∧ get? claimsHeader u.headers = some (claimsValue caller.elevated) ∧
      count dateHeader u.headers = 1 ∧ get? dateHeader u.headers = some env.now := by
  obtain ⟨ip, port, caller, rules, _, hc, _, _, _, _, _, hfwd⟩ := handle_forward mac env conn r u h
  refine ⟨caller, hc, ?_⟩
  obtain ⟨_, _, _, _, hcase⟩ := forwardStage_forward mac env caller r u hfwd
  have hcl := owned_claims env caller r
  have hdt := owned_date env caller r
  have hcl' := signed_claims env caller r
  have hdt' := signed_date env caller r
  rcases hcase with ⟨hh, _, _⟩ | ⟨hh, _, _⟩ | ⟨guid, key, si, _, _, _, _, hh, _⟩
  · rw [hh]; exact ⟨hcl.1, hcl.2, hdt.1, hdt.2⟩
  · rw [hh]; exact ⟨hcl'.1, hcl'.2, hdt'.1, hdt'.2⟩
  · rw [hh]
    rw [count_insert_other _ _ _ _ names_distinct.2.1, get?_insert_other _ _ _ _ names_distinct.2.1,
      count_insert_other _ _ _ _ names_distinct.2.2, get?_insert_other _ _ _ _ names_distinct.2.2]
    exact ⟨hcl'.1, hcl'.2, hdt'.1, hdt'.2⟩

/-- **C05(c)** on a request the proxy signs, exactly one authorization header reaches the host and it
is the proxy's (`scheme keyId mac`): no client-supplied copy survives. -/
theorem client_authorization_never_forwarded_when_signed (env : Env) (conn : Conn) (r : Req) (u : UpReq)
    (h : (handle mac env conn r).outcome = .forward u) (guid : Str) (si : List UInt8)
    (hs : u.signed = some (guid, si)) :
    ∃ key, env.key = some (guid, key) ∧ count authHeader u.headers = 1 ∧
      get? authHeader u.headers = some (authScheme ++ [' '] ++ guid ++ [' '] ++ mac key si) := by
  obtain ⟨ip, port, caller, rules, _, hc, _, _, _, _, _, hfwd⟩ := handle_forward mac env conn r u h
  obtain ⟨_, _, _, _, hcase⟩ := forwardStage_forward mac env caller r u hfwd
  rcases hcase with ⟨_, hn, _⟩ | ⟨_, hn, _⟩ | ⟨guid', key, si', hk, _, _, _, hh, hsg⟩
  · rw [hn] at hs; cases hs
  · rw [hn] at hs; cases hs
  · rw [hsg] at hs; cases hs
    exact ⟨key, hk, by rw [hh]; exact count_insert_self _ _ _, by rw [hh]; exact get?_insert_self _ _ _⟩

/-- a client value under a proxy-owned name never equals what the host sees unless it is the
proxy's own value: stated as "the only claims value upstream is the proxy's" -/
theorem spoofed_claims_dropped (env : Env) (conn : Conn) (r : Req) (u : UpReq)
    (h : (handle mac env conn r).outcome = .forward u) (v : Str) (hv : (claimsHeader, v) ∈ u.headers) :
    ∃ caller, conn.caller = some caller ∧ v = claimsValue caller.elevated := by
  obtain ⟨caller, hc, hcnt, hget, _, _⟩ := claims_and_date_unique_and_true mac env conn r u h
  refine ⟨caller, hc, ?_⟩
  exact unique_value claimsHeader v _ u.headers hcnt hget hv

/-! non-vacuity -/
example : count claimsHeader (insert claimsHeader (claimsValue false)
    (ofWire [("X-MS-Azure-Host-Claims".toList, "{ \"isRoot\": \"true\"}".toList),
             ("x-ms-azure-host-claims".toList, "spoof".toList)])) = 1 := by decide

end Gpa.Props.C05
