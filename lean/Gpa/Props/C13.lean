/-
C13  No input can crash a request handler or a background task.
The modelled panic sites: three byte-offset truncations, header-value text conversion while
building the string to sign, utf-16 response decoding; plus "every request gets an outcome".
-/
import Gpa.Model.Truncate
import Gpa.Lemmas.Pipeline
namespace Gpa.Props.C13
open Gpa.Truncate Gpa.Text Gpa.Pipeline

theorem csize_pos (c : Char) : 1 ≤ csize c := by
  unfold csize encodeChar
  simp only
  split <;> (try split) <;> (try split) <;> simp

theorem utf8Len_cons (c : Char) (cs : Str) : utf8Len (c :: cs) = csize c + utf8Len cs := by
  simp [utf8Len, utf8, csize]

/-- **C13(a)** the truncation is total and never exceeds the cap — for every text, of any length,
with multi-byte scalars anywhere -/
theorem takeBytes_le (n : Nat) (s : Str) : utf8Len (takeBytes n s) ≤ n := by
  induction s generalizing n with
  | nil => simp [takeBytes, utf8Len, utf8]
  | cons c cs ih =>
    simp only [takeBytes]
    split
    · rw [utf8Len_cons]; have := ih (n - csize c); omega
    · simp [utf8Len, utf8]

theorem takeBytes_prefix (n : Nat) (s : Str) : ∃ rest, s = takeBytes n s ++ rest := by
  induction s generalizing n with
  | nil => exact ⟨[], rfl⟩
  | cons c cs ih =>
    simp only [takeBytes]
    split
    · obtain ⟨rest, h⟩ := ih (n - csize c)
      exact ⟨rest, by rw [List.cons_append, ← h]⟩
    · exact ⟨c :: cs, rfl⟩

/-- it is the *longest* such prefix: the next scalar would not fit -/
theorem takeBytes_maximal (n : Nat) (s : Str) (c : Char) (rest : Str)
    (h : s = takeBytes n s ++ c :: rest) : utf8Len (takeBytes n s) + csize c > n := by
  induction s generalizing n with
  | nil => simp [takeBytes] at h
  | cons d ds ih =>
    simp only [takeBytes] at h ⊢
    split at h
    · rename_i hfit
      rw [if_pos hfit]
      have h' : ds = takeBytes (n - csize d) ds ++ c :: rest := by
        simpa using h
      have := ih (n - csize d) h'
      rw [utf8Len_cons]; omega
    · rename_i hfit
      rw [if_neg hfit]
      simp only [List.nil_append, List.cons.injEq] at h
      rw [← h.1]
      simp [utf8Len, utf8]; omega

theorem eventMessage_bounded (s : Str) : utf8Len (eventMessage s) ≤ eventCap ∧ ∃ rest, s = eventMessage s ++ rest := by
  unfold eventMessage truncateTo
  split
  · exact ⟨by assumption, [], by simp⟩
  · exact ⟨takeBytes_le _ _, takeBytes_prefix _ _⟩

theorem statusMessage_bounded (s : Str) : utf8Len (statusMessage s) ≤ statusCap + 3 := by
  unfold statusMessage truncateTo
  split
  · rename_i h
    have h2 : ¬ utf8Len s ≤ statusCap := by omega
    rw [if_neg h2]
    have := takeBytes_le statusCap s
    simp only [utf8Len, utf8, List.flatMap_append, List.length_append] at this ⊢
    have h3 : (List.flatMap encodeChar "...".toList).length = 3 := by decide
    omega
  · omega

/-- where the old slicing did not panic, the fix computes the same text -/
theorem takeBytes_eq_byteSlice (s : Str) (n : Nat) (p : Str) (h : byteSlice? s n = some p) : takeBytes n s = p := by
  induction s generalizing n p with
  | nil =>
    cases n with
    | zero => simp [byteSlice?] at h; simp [takeBytes, h]
    | succ n => simp [byteSlice?] at h
  | cons c cs ih =>
    cases n with
    | zero =>
      simp [byteSlice?] at h
      have := csize_pos c
      simp [takeBytes, ← h]; omega
    | succ n =>
      simp only [byteSlice?] at h
      split at h
      · rename_i hfit
        simp only [Option.map_eq_some_iff] at h
        obtain ⟨q, hq, hp⟩ := h
        simp only [takeBytes, hfit, ↓reduceIte]
        rw [ih _ _ hq, hp]
      · cases h

/-- **negative witness (F7)** the code before the fix panics: a two-byte scalar straddling the
offset, for every offset `k+1` -/
theorem old_slicing_panics (k : Nat) (rest : Str) :
    byteSlice? (List.replicate k 'a' ++ 'é' :: rest) (k + 1) = none := by
  induction k with
  | zero =>
    have h2 : csize 'é' = 2 := by decide
    simp [byteSlice?, h2]
  | succ k ih =>
    have h1 : csize 'a' = 1 := by decide
    simp only [List.replicate_succ, List.cons_append, byteSlice?, h1]
    rw [if_pos (by omega)]
    simp only [Nat.add_sub_cancel, ih, Option.map_none]

theorem utf8Len_replicate_a (k : Nat) (rest : Str) :
    utf8Len (List.replicate k 'a' ++ rest) = k + utf8Len rest := by
  induction k with
  | zero => simp
  | succ k ih =>
    have h1 : csize 'a' = 1 := by decide
    rw [List.replicate_succ, List.cons_append, utf8Len_cons, ih, h1]; omega

theorem old_event_panics : eventMessageOld (List.replicate 4095 'a' ++ 'é' :: ['x']) = none := by
  unfold eventMessageOld
  have hlen : utf8Len (List.replicate 4095 'a' ++ 'é' :: ['x']) = 4098 := by
    rw [utf8Len_replicate_a]
    have : utf8Len ('é' :: ['x']) = 3 := by decide
    omega
  rw [if_pos (by rw [hlen]; decide)]
  exact old_slicing_panics 4095 ['x']

/-- the fixed function on the same input -/
example : eventMessage (List.replicate 3 'a' ++ 'é' :: ['x']) = List.replicate 3 'a' ++ 'é' :: ['x'] := by decide
example : takeBytes 4 (List.replicate 3 'a' ++ 'é' :: ['x']) = List.replicate 3 'a' := by decide

/-- **C13(b)** utf-16 decoding is total; on even-length frames it agrees with the old code, and
the old code panics exactly on odd-length frames -/
theorem utf16_old_panics_iff_odd (bs : List UInt8) : utf16UnitsOld bs = none ↔ bs.length % 2 = 1 := by
  induction bs using utf16UnitsOld.induct with
  | case1 => simp [utf16UnitsOld]
  | case2 => simp [utf16UnitsOld]
  | case3 a b rest ih =>
    simp only [utf16UnitsOld, Option.map_eq_none_iff, ih, List.length_cons]
    omega

theorem utf16_agrees_on_even (bs : List UInt8) (us : List Nat) (h : utf16UnitsOld bs = some us) : utf16Units bs = us := by
  induction bs using utf16UnitsOld.induct generalizing us with
  | case1 => simp [utf16UnitsOld] at h; simp [utf16Units, h]
  | case2 => simp [utf16UnitsOld] at h
  | case3 a b rest ih =>
    simp only [utf16UnitsOld, Option.map_eq_some_iff] at h
    obtain ⟨q, hq, hp⟩ := h
    simp [utf16Units, ih q hq, hp]

/-- **C13(c)** building the string to sign is total for every header value (any bytes): the
canonical-header function has no failing case left, whereas the strict conversion of the old code
fails on any byte outside visible ASCII -/
theorem old_header_conversion_panics : Gpa.Canon.valueTextStrict [Char.ofNat 0x80] = none := by decide
example : Gpa.Canon.valueText ['c', 'a', 'f', Char.ofNat 0xC3, Char.ofNat 0xA9] = ['c', 'a', 'f', 'é'] := by decide
example : Gpa.Canon.valueText [Char.ofNat 0x80, ' '] = [Char.ofNat 0xFFFD] := by decide

/-- **C13(d)** every request gets an outcome that is an answer (a local response, the provision
answer, or a relay): no path of the request handling model ends in a panic -/
theorem every_request_answered (mac : Str → List UInt8 → Str) (env : Env) (conn : Conn) (r : Req) :
    (handle mac env conn r).outcome ≠ .panic := handle_no_panic mac env conn r

/-! ### the key keeper's sleep arithmetic after a late notify -/

/-- obligation on the source: the remaining sleep is computed with `saturating_sub` -/
theorem rest_is_saturating : Gpa.Facts.keeperRestSaturating = 1 ∧ Gpa.Facts.keeperRestPlainSub = 0 := by decide

/-- the remaining sleep is total, never more than the interval, and equals the old subtraction wherever that did not underflow -/
theorem restOfSleep_agrees (sleep slept : Nat) :
    restOfSleep sleep slept ≤ sleep ∧ (slept ≤ sleep → restOfSleepOld sleep slept = some (restOfSleep sleep slept)) := by
  constructor
  · unfold restOfSleep; omega
  · intro h; simp [restOfSleepOld, restOfSleep, h]

/-- negative witness: a notify handled 10 ms after a 30 ms interval ran out made the old code panic (this ended the key keeper task) -/
theorem old_rest_panics_when_late : restOfSleepOld 30 40 = none := by decide

end Gpa.Props.C13
