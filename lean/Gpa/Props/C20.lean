/-
C20  Extension health has hysteresis: Error only after sustained failure.
Only property theorems, their non-vacuity examples and negative witnesses live here.
Specification constants are the ones in the property text (20, 120); the model is instantiated
with the constants regenerated from /repo (Gpa.Facts) — a changed constant breaks an obligation.
-/
import Gpa.Model.Health
import Gpa.Generated.Facts

namespace Gpa.Props.C20
open Gpa.Health

/-- specification constants from the property text -/
def specThreshold : Nat := 20
def specRepeat : Nat := 120

/-- the agent's initial health state with the constants found in the source -/
def init : StatusState := StatusState.new Gpa.Facts.healthErrorThreshold Gpa.Facts.healthMaxConsecutive

/-! obligations on generated facts -/
theorem facts_threshold : Gpa.Facts.healthErrorThreshold = specThreshold := by decide
theorem facts_saturation :
    specThreshold ≤ Gpa.Facts.healthMaxConsecutive ∧ Gpa.Facts.healthMaxConsecutive < 2^32 - 1 := by decide
theorem facts_repeat : Gpa.Facts.stateNoteMax = specRepeat := by decide

/-- length of the run of failures that ends the history `obs` (newest last), continuing a run of
`n` failures that preceded it -/
def trailAcc (n : Nat) (obs : List Bool) : Nat := obs.foldl (fun n o => if o then 0 else n + 1) n
def trail (obs : List Bool) : Nat := trailAcc 0 obs

/-- Invariant carried along any run: parameters never change, `fail` is the saturated count of
trailing failures, Error implies at least `specThreshold` trailing failures. -/
structure Inv (s : StatusState) (n : Nat) : Prop where
  thr : s.thr = specThreshold
  mx : specThreshold ≤ s.maxCount
  fail : s.fail = min n s.maxCount
  err : s.cur = .error → specThreshold ≤ n
  known : s.cur ≠ .other

theorem inv_init : Inv init 0 := by
  constructor <;> simp [init, StatusState.new, facts_threshold, facts_saturation.1]

theorem inv_step {s n} (h : Inv s n) (o : Bool) : Inv (s.update o) (if o then 0 else n + 1) := by
  obtain ⟨hthr, hmx, hfail, herr, hk⟩ := h
  simp only [specThreshold] at *
  cases o <;> cases hc : s.cur <;>
    constructor <;> simp_all [StatusState.update, nextCur, satInc, specThreshold] <;> grind

theorem inv_run_from {s n} (h : Inv s n) (obs : List Bool) : Inv (s.run obs) (trailAcc n obs) := by
  induction obs generalizing s n with
  | nil => simpa [StatusState.run, trailAcc] using h
  | cons o os ih =>
    simp only [StatusState.run, trailAcc, List.foldl_cons]
    exact ih (inv_step h o)

theorem inv_run (obs : List Bool) : Inv (init.run obs) (trail obs) := inv_run_from inv_init obs

/-- the failure run counted by `trailAcc` really is a suffix of the history -/
theorem trailAcc_suffix (obs : List Bool) (n : Nat) :
    ∃ pre j, obs = pre ++ List.replicate j false ∧
      (trailAcc n obs = j ∨ (pre = [] ∧ trailAcc n obs = n + j)) := by
  induction obs generalizing n with
  | nil => exact ⟨[], 0, by simp, Or.inr ⟨rfl, by simp [trailAcc]⟩⟩
  | cons o os ih =>
    obtain ⟨pre, j, hos, hv⟩ := ih (if o then 0 else n + 1)
    have hstep : trailAcc n (o :: os) = trailAcc (if o then 0 else n + 1) os := by
      simp [trailAcc]
    rcases hv with hv | ⟨hp, hv⟩
    · exact ⟨o :: pre, j, by simp [hos], Or.inl (by rw [hstep, hv])⟩
    · cases o with
      | true =>
        refine ⟨[true], j, by simp [hos, hp], Or.inl ?_⟩
        rw [hstep, hv]; simp
      | false =>
        refine ⟨[], j + 1, ?_, Or.inr ⟨rfl, ?_⟩⟩
        · simp [hos, hp, List.replicate_succ]
        · rw [hstep, hv]; simp; omega

/-- **C20(a)** Error is reported only when the most recent `20` (or more) observations all failed —
for every finite observation history, of any length (runs beyond the saturation point included). -/
theorem error_needs_20_failures (obs : List Bool) :
    (init.run obs).cur = .error → ∃ pre, obs = pre ++ List.replicate specThreshold false := by
  intro he
  have h : specThreshold ≤ trail obs := (inv_run obs).err he
  obtain ⟨pre, j, hobs, hv⟩ := trailAcc_suffix obs 0
  have hj : trail obs = j := by
    rcases hv with hv | ⟨_, hv⟩
    · exact hv
    · simpa [trail] using hv
  rw [hj] at h
  refine ⟨pre ++ List.replicate (j - specThreshold) false, ?_⟩
  rw [hobs, List.append_assoc, List.append_cancel_left_eq]
  rw [List.replicate_append_replicate]
  congr 1; omega

theorem run_snoc (s : StatusState) (obs : List Bool) (o : Bool) :
    s.run (obs ++ [o]) = (s.run obs).update o := by
  simp [StatusState.run, List.foldl_append]

/-- **C20(b)** never Error directly after a success: neither in the report that follows a successful
observation, nor in the report that follows a `Success` report. -/
theorem never_error_after_success (obs : List Bool) :
    (init.run (obs ++ [true])).cur ≠ .error := by
  intro he
  have h := (inv_run (obs ++ [true])).err he
  simp [trail, trailAcc, List.foldl_append, specThreshold] at h

theorem never_error_right_after_success_report (obs : List Bool) (o : Bool) :
    (init.run obs).cur = .success → (init.run (obs ++ [o])).cur ≠ .error := by
  intro hs
  rw [run_snoc]
  cases o <;> simp [StatusState.update, nextCur, hs] <;> split <;> simp

/-- **C20(c)** one successful observation always moves the report away from Error — for *every*
state, reachable or not (so also after more than 10000 failures). -/
theorem success_leaves_error (s : StatusState) (hm : 1 ≤ s.maxCount) :
    (s.update true).cur ≠ .error := by
  cases hc : s.cur <;> simp [StatusState.update, nextCur, satInc, hc] <;> grind

/-- **C20(d)** two consecutive successes always yield Success — for every state. -/
theorem two_successes_success (s : StatusState) (hm : 1 ≤ s.maxCount) :
    ((s.update true).update true).cur = .success := by
  cases hc : s.cur <;> simp [StatusState.update, nextCur, satInc, hc] <;> grind

/-- reachable states satisfy the side condition of (c) and (d) -/
theorem reachable_maxCount (obs : List Bool) : 1 ≤ (init.run obs).maxCount := by
  have := (inv_run obs).mx; simp only [specThreshold] at this; omega

/-- **C20(e)** saturation is harmless: a run of `n ≥ 20` failures from the start — in particular
`n > 10000`, beyond the counters' saturation point — is reported as Error; (c) and (d) then give
Transitioning after one success and Success after two, for any `n`. -/
theorem long_failure_run (n : Nat) (hn : specThreshold ≤ n) :
    (init.run (List.replicate n false)).cur = .error := by
  have main : ∀ n, ((init.run (List.replicate n false)).cur = .transitioning ∨
        (init.run (List.replicate n false)).cur = .error) ∧
      (specThreshold ≤ n → (init.run (List.replicate n false)).cur = .error) := by
    intro n
    induction n with
    | zero => simp [StatusState.run, init, StatusState.new, specThreshold]
    | succ n ih =>
      have hinv := inv_run (List.replicate n false)
      have htr : trail (List.replicate n false) = n := by
        clear ih hinv
        have : ∀ k, trailAcc k (List.replicate n false) = k + n := by
          induction n with
          | zero => simp [trailAcc]
          | succ n ih => intro k; simp [trailAcc, List.replicate_succ] at *; rw [ih]; omega
        simpa [trail] using this 0
      rw [htr] at hinv
      obtain ⟨hthr, hmx, hfail, herr, hk⟩ := hinv
      rw [List.replicate_succ', run_snoc]
      generalize init.run (List.replicate n false) = s at *
      simp only [specThreshold] at *
      rcases ih.1 with hc | hc <;>
        simp_all [StatusState.update, nextCur, satInc] <;> grind
  exact (main n).2 hn

/-! ### state notifications -/

/-- run a list of `(key, value)` notifications with the generated repeat bound, collecting the
emit decisions -/
def notes (m : ServiceState) : List (String × String) → List Bool
  | [] => []
  | (k, v) :: rest =>
      let r := ServiceState.note m k v Gpa.Facts.stateNoteMax
      r.2 :: notes r.1 rest

theorem get_set_same (m : ServiceState) (k : String) (v : String × Nat) :
    ServiceState.get (ServiceState.set m k v) k = some v := by
  induction m with
  | nil => simp [ServiceState.set, ServiceState.get]
  | cons hd tl ih =>
    simp only [ServiceState.set]
    split
    · simp [ServiceState.get]
    · rename_i hne
      simp [ServiceState.get, hne, ih]

theorem get_set_other (m : ServiceState) (k k' : String) (v : String × Nat) (h : k' ≠ k) :
    ServiceState.get (ServiceState.set m k v) k' = ServiceState.get m k' := by
  induction m with
  | nil => simp [ServiceState.set, ServiceState.get, Ne.symm h]
  | cons hd tl ih =>
    simp only [ServiceState.set]
    split
    · rename_i heq
      simp [ServiceState.get, heq, Ne.symm h]
    · simp only [ServiceState.get]
      split <;> simp_all

/-- **C20(f)** a notification is emitted whenever the key is new or its value changed. -/
theorem emit_on_change (m : ServiceState) (k v : String) :
    (ServiceState.get m k = none ∨ ∃ v' c, ServiceState.get m k = some (v', c) ∧ v' ≠ v) →
      (ServiceState.note m k v Gpa.Facts.stateNoteMax).2 = true := by
  intro h
  rcases h with h | ⟨v', c, h, hne⟩
  · simp [ServiceState.note, h]
  · simp [ServiceState.note, h, hne]

/-- State form of the rate limit: if the entry is `(v, c)` with `c < 120`, an identical
notification is suppressed and the counter becomes `c+1`; at `c ≥ 120` it is emitted and reset. -/
theorem note_same_value (m : ServiceState) (k v : String) (c : Nat)
    (h : ServiceState.get m k = some (v, c)) :
    let r := ServiceState.note m k v Gpa.Facts.stateNoteMax
    (c < specRepeat → r.2 = false ∧ ServiceState.get r.1 k = some (v, c + 1)) ∧
    (specRepeat ≤ c → r.2 = true ∧ ServiceState.get r.1 k = some (v, 1)) := by
  have hf : Gpa.Facts.stateNoteMax = 120 := rfl
  simp only [specRepeat]
  constructor
  · intro hc
    have : ¬ (120 ≤ c) := by omega
    simp [ServiceState.note, h, hf, this, get_set_same]
  · intro hc
    simp [ServiceState.note, h, hf, hc, get_set_same]

theorem note_emit_resets (m : ServiceState) (k v : String) :
    (ServiceState.note m k v Gpa.Facts.stateNoteMax).2 = true →
      ServiceState.get (ServiceState.note m k v Gpa.Facts.stateNoteMax).1 k = some (v, 1) := by
  simp only [ServiceState.note]
  split <;> (try split) <;> simp [get_set_same]

theorem note_other_key (m : ServiceState) (k k' v : String) (h : k' ≠ k) :
    ServiceState.get (ServiceState.note m k v Gpa.Facts.stateNoteMax).1 k' = ServiceState.get m k' := by
  simp only [ServiceState.note]
  split <;> (try split) <;> simp [get_set_other _ _ _ _ h]

/-- **C20(g)** at most once per 120 repetitions: when the entry for `k` is `(v, c)` (c = 1 right
after an emission, by `note_emit_resets`), then in any continuation `rest` whose notifications for `k`
all carry `v` and number at most `120 - c` (other keys interleaved arbitrarily), every notification
for `k` is suppressed. -/
theorem at_most_once_per_120 (m : ServiceState) (k v : String) (c : Nat)
    (h : ServiceState.get m k = some (v, c)) (rest : List (String × String))
    (hrest : ∀ p ∈ rest, p.1 = k → p.2 = v)
    (hcount : c + (rest.filter (·.1 = k)).length ≤ specRepeat) :
    ∀ i (hi : i < rest.length), rest[i].1 = k → (notes m rest)[i]? = some false := by
  induction rest generalizing m c with
  | nil => intro i hi; simp at hi
  | cons p rest ih =>
    intro i hi hk
    obtain ⟨pk, pv⟩ := p
    by_cases hpk : pk = k
    · subst hpk
      have hv : pv = v := hrest (pk, pv) (by simp) rfl
      subst hv
      have hlen : c + ((rest.filter (·.1 = pk)).length + 1) ≤ specRepeat := by
        simpa [List.filter] using hcount
      have hc : c < specRepeat := by omega
      obtain ⟨h1, h2⟩ := (note_same_value m pk pv c h).1 hc
      cases i with
      | zero => simp [notes, h1]
      | succ i =>
        simp only [notes, List.getElem?_cons_succ]
        exact ih _ (c+1) h2 (fun p hp => hrest p (by simp [hp])) (by omega) i (by simpa using hi) (by simpa using hk)
    · cases i with
      | zero => simp at hk; exact absurd hk hpk
      | succ i =>
        simp only [notes, List.getElem?_cons_succ]
        have hget : ServiceState.get (ServiceState.note m pk pv Gpa.Facts.stateNoteMax).1 k = some (v, c) := by
          rw [note_other_key _ _ _ _ (Ne.symm hpk)]; exact h
        have hcount' : c + (rest.filter (·.1 = k)).length ≤ specRepeat := by
          simpa [List.filter, hpk] using hcount
        exact ih _ c hget (fun p hp => hrest p (by simp [hp])) hcount' i (by simpa using hi) (by simpa using hk)

/-! ### non-vacuity -/
example : (init.run (List.replicate 20 false)).cur = .error := by decide
example : (init.run (List.replicate 19 false)).cur = .transitioning := by decide
example : (init.run (List.replicate 20 false ++ [true])).cur = .transitioning := by decide
example : (init.run (List.replicate 20 false ++ [true, true])).cur = .success := by decide
example : notes [] [("a","x"),("a","x"),("a","y"),("b","x")] = [true,false,true,true] := by decide
example : 1 ≤ init.maxCount := by decide

/-! ### the notification streams of the monitor loop -/

/-- obligation on the source: the two notification streams (status file read, file version) use different keys, there
are no further streams, and the rate-limit table is created once per monitor loop (so `at_most_once_per_120` and
`note_other_key` speak about the loop as it is wired) -/
theorem state_streams_separate :
    Gpa.Facts.stateKeyReadStatusFile ≠ Gpa.Facts.stateKeyFileVersion ∧ Gpa.Facts.stateKeyConstants = 2 ∧
    Gpa.Facts.serviceStateCreations = 1 := by decide

end Gpa.Props.C20
