/-
C15  Request bodies above the size limit are refused and never relayed.
-/
import Gpa.Lemmas.Pipeline
namespace Gpa.Props.C15
open Gpa.Pipeline Gpa.Rbac Gpa.Text Gpa.Url Gpa.Headers Gpa.Canon

variable (mac : Str → List UInt8 → Str)

/-- the limits in the property text -/
def specLow : Nat := 100 * 1024
def specLarge : Nat := 100 * 1024 * 1024

/-- **obligation on generated facts**: the two limits found in the source are the specified ones -/
theorem limits_are_spec :
    Gpa.Facts.requestBodyLowLimit = specLow ∧ Gpa.Facts.requestBodyLargeLimit = specLarge := by decide

/-- the limit that applies to a request, in the property's words -/
def specLimit (r : Req) : Nat := if shouldSkipSig r.method r.uri then specLarge else specLow

theorem limitFor_eq_spec (r : Req) : limitFor r = specLimit r := by
  unfold limitFor specLimit
  rw [limits_are_spec.1, limits_are_spec.2]

def isForward : Outcome → Bool
  | .forward _ => true
  | _ => false

/-- the client-visible status of an outcome, if it is a local answer -/
def localStatus : Outcome → Option Nat
  | .respond s => some s
  | _ => none

/-- **C15(a)** a declared length above the limit is refused with 413 before anything else happens -/
theorem oversize_declared_refused (env : Env) (conn : Conn) (r : Req) (n : Nat)
    (hdecl : r.declared = some n) (h : n > specLimit r) :
    (handle mac env conn r).outcome = .respond 413 := by
  unfold handle
  rw [if_pos (by rw [hdecl, limitFor_eq_spec]; exact h)]

/-- **C15(b)** a body above the limit — declared or only discovered while reading (chunked) — is
never relayed: the outcome is a local 4xx answer (or the request was refused earlier / answered
locally), for every environment, connection and request -/
theorem oversize_never_relayed (env : Env) (conn : Conn) (r : Req) (h : r.body.length > specLimit r) :
    isForward (handle mac env conn r).outcome = false := by
  cases hf : (handle mac env conn r).outcome with
  | forward u =>
    obtain ⟨_, _, caller, _, _, _, _, _, _, _, _, hfwd⟩ := handle_forward mac env conn r u hf
    obtain ⟨_, _, _, hle, _⟩ := forwardStage_forward mac env caller r u hfwd
    rw [limitFor_eq_spec] at hle
    omega
  | _ => rfl

/-- … and when the request reaches the forwarding stage the answer is 400 -/
theorem oversize_undeclared_400 (env : Env) (caller : Caller) (r : Req) (h : r.body.length > specLimit r) :
    forwardStage mac env caller r = .respond 400 := by
  unfold forwardStage
  simp only
  rw [if_pos (by rw [limitFor_eq_spec]; exact h)]

/-- **C15(c)** a body of exactly the limit or less is accepted and relayed intact -/
theorem at_limit_relayed_intact (env : Env) (caller : Caller) (r : Req) (h : r.body.length ≤ specLimit r) :
    ∃ u, forwardStage mac env caller r = .forward u ∧ u.body = r.body := by
  unfold forwardStage
  simp only
  rw [if_neg (by rw [limitFor_eq_spec]; omega)]
  by_cases hsk : shouldSkipSig r.method r.uri = true
  · rw [if_pos hsk]; exact ⟨_, rfl, rfl⟩
  · rw [if_neg hsk]
    unfold signStage
    cases hk : env.key with
    | none => exact ⟨_, rfl, rfl⟩
    | some gk =>
      obtain ⟨g, k⟩ := gk
      simp only
      by_cases hx : isHexKey k = true
      · rw [if_pos hx]; exact ⟨_, rfl, rfl⟩
      · rw [if_neg hx]; exact ⟨_, rfl, rfl⟩

/-- **C15(d)** the large limit applies exactly to the two exempt method/URL pairs, compared
case-insensitively on the URL -/
theorem limit_class_iff_exempt (r : Req) :
    specLimit r = specLarge ↔
      ((r.method = "PUT".toList ∧ lower r.uri.toStr = "/vmagentlog".toList) ∨
       (r.method = "POST".toList ∧ lower r.uri.toStr = "/machine/?comp=telemetrydata".toList)) := by
  have hne : specLow ≠ specLarge := by decide
  have hiff : shouldSkipSig r.method r.uri = true ↔
      ((r.method = "PUT".toList ∧ lower r.uri.toStr = "/vmagentlog".toList) ∨
       (r.method = "POST".toList ∧ lower r.uri.toStr = "/machine/?comp=telemetrydata".toList)) := by
    unfold shouldSkipSig
    have hu : Gpa.Facts.skipSigPutUrl.toList = "/vmagentlog".toList ∧
        Gpa.Facts.skipSigPostUrl.toList = "/machine/?comp=telemetrydata".toList := by decide
    rw [hu.1, hu.2]
    simp only [Bool.or_eq_true, Bool.and_eq_true, decide_eq_true_eq]
  unfold specLimit
  constructor
  · intro h
    by_cases hc : shouldSkipSig r.method r.uri = true
    · exact hiff.mp hc
    · rw [if_neg hc] at h; exact absurd h hne
  · intro h
    rw [if_pos (hiff.mpr h)]

/-! non-vacuity -/
/-- replace the body that an outcome relays -/
def withBody (b : List UInt8) : Outcome → Outcome
  | .forward u => .forward { u with body := b }
  | o => o

/-- **C15(e)** for the upload class (the requests that are not signed: `PUT /vmAgentLog`, `POST /machine/?comp=telemetrydata`) the
body is opaque: the verdict depends on it through its length alone, and what is relayed is the body as given. This is what
lets the check judge uploads of many MiB by length and byte-equality without running the list-based model on them. -/
theorem upload_body_opaque (env : Env) (conn : Conn) (r : Req) (b : List UInt8)
    (hx : shouldSkipSig r.method r.uri = true) (hl : b.length = r.body.length) :
    (handle mac env conn { r with body := b }).outcome = withBody b (handle mac env conn r).outcome ∧
    (handle mac env conn { r with body := b }).failedAuth = (handle mac env conn r).failedAuth := by
  have hlim : limitFor { r with body := b } = limitFor r := rfl
  unfold handle
  try dsimp only
  rw [hlim]
  split
  · exact ⟨rfl, rfl⟩
  split
  · exact ⟨rfl, rfl⟩
  split
  · exact ⟨rfl, rfl⟩
  unfold connStage
  try dsimp only
  cases conn.dest with
  | none => exact ⟨rfl, rfl⟩
  | some d =>
    obtain ⟨ip, port⟩ := d
    try dsimp only
    cases conn.caller with
    | none => exact ⟨rfl, rfl⟩
    | some caller =>
      try dsimp only
      unfold authStage
      try dsimp only
      cases rulesFor (endpointOf ip port) env with
      | err => exact ⟨rfl, rfl⟩
      | ok rules =>
        try dsimp only
        split
        · exact ⟨rfl, rfl⟩
        · refine ⟨?_, rfl⟩
          unfold forwardStage
          try dsimp only
          rw [hlim, hl]
          split
          · rfl
          all_goals first | rfl | (rw [if_pos hx, if_pos hx]; rfl) | (exact absurd hx ‹_›)

/-- the body an accepted upload relays is the body received, byte for byte -/
theorem upload_relays_body_as_given (env : Env) (conn : Conn) (r : Req) (u : UpReq)
    (hx : shouldSkipSig r.method r.uri = true) (h : (handle mac env conn r).outcome = .forward u) :
    u.body = r.body ∧ u.signed = none := by
  unfold handle at h
  split at h
  · cases h
  split at h
  · cases h
  split at h
  · cases h
  unfold connStage at h
  cases hd : conn.dest with
  | none => rw [hd] at h; cases h
  | some d =>
    obtain ⟨ip, port⟩ := d
    rw [hd] at h
    dsimp only at h
    cases hc : conn.caller with
    | none => rw [hc] at h; cases h
    | some caller =>
      rw [hc] at h
      dsimp only at h
      unfold authStage at h
      cases hr : rulesFor (endpointOf ip port) env with
      | err => rw [hr] at h; cases h
      | ok rules =>
        rw [hr] at h
        dsimp only at h
        split at h
        · cases h
        · dsimp only at h
          unfold forwardStage at h
          dsimp only at h
          split at h
          · cases h
          · try rw [if_pos hx] at h
            unfold mkForward at h
            cases h
            exact ⟨rfl, rfl⟩

example : specLimit { method := "PUT".toList, uri := ⟨"/VMAgentLog".toList, none⟩, headers := [], body := [], declared := none } = specLarge := by decide
example : specLimit { method := "GET".toList, uri := ⟨"/vmagentlog".toList, none⟩, headers := [], body := [], declared := none } = specLow := by decide

end Gpa.Props.C15
