/-
C18  Telemetry is delivered at most once, well-formed, in bounded batches.
-/
import Gpa.Model.Telemetry
namespace Gpa.Props.C18
open Gpa.Telemetry Gpa.Text

/-- the cap in the property text -/
def specCap : Nat := 64 * 1024
theorem facts_cap : maxMessageSize = specCap := by decide

/-! ### escaping -/

theorem replaceChar_eq (c : Char) (r : Str) (s : Str) :
    replaceChar c r s = s.flatMap fun x => if x = c then r else [x] := rfl

theorem xmlEscape_single (c : Char) : xmlEscape [c] = escChar c := by
  by_cases h1 : c = '&'
  · subst h1; decide
  by_cases h2 : c = '\''
  · subst h2; decide
  by_cases h3 : c = '"'
  · subst h3; decide
  by_cases h4 : c = '<'
  · subst h4; decide
  by_cases h5 : c = '>'
  · subst h5; decide
  simp [xmlEscape, replaceChar, escChar, h1, h2, h3, h4, h5]

/-- the five sequential replacements are the character-wise escape -/
theorem xmlEscape_eq_flatMap (s : Str) : xmlEscape s = s.flatMap escChar := by
  induction s with
  | nil => rfl
  | cons c cs ih =>
    have hstep : xmlEscape (c :: cs) = xmlEscape [c] ++ xmlEscape cs := by
      simp [xmlEscape, replaceChar, List.flatMap_append]
    rw [hstep, ih, List.flatMap_cons, xmlEscape_single]

def isMarkup (c : Char) : Bool := c = '<' || c = '>' || c = '"' || c = '\''

/-- **C18(a)** the escaped text contains none of `< > " '` — for every text -/
theorem escape_safe (s : Str) : ∀ c ∈ xmlEscape s, isMarkup c = false := by
  rw [xmlEscape_eq_flatMap]
  intro c hc
  rw [List.mem_flatMap] at hc
  obtain ⟨x, _, hx⟩ := hc
  by_cases h1 : x = '&'
  · subst h1; revert c; decide
  by_cases h2 : x = '\''
  · subst h2; revert c; decide
  by_cases h3 : x = '"'
  · subst h3; revert c; decide
  by_cases h4 : x = '<'
  · subst h4; revert c; decide
  by_cases h5 : x = '>'
  · subst h5; revert c; decide
  have he : escChar x = [x] := by simp [escChar, h1, h2, h3, h4, h5]
  rw [he, List.mem_singleton] at hx
  subst hx
  simp [isMarkup, h2, h3, h4, h5]

theorem unescape_plain (c : Char) (rest : Str) (h : c ≠ '&') : unescape (c :: rest) = c :: unescape rest := by
  rw [unescape]
  all_goals (intro r heq; cases heq; exact absurd rfl h)

/-- **C18(b)** the data is preserved: decoding the five references gives the text back -/
theorem unescape_escape (s : Str) : unescape (xmlEscape s) = s := by
  rw [xmlEscape_eq_flatMap]
  induction s with
  | nil => rfl
  | cons c cs ih =>
    rw [List.flatMap_cons]
    by_cases h1 : c = '&'
    · subst h1; show unescape ('&' :: 'a' :: 'm' :: 'p' :: ';' :: _) = _; rw [unescape]; simp only [List.append_eq, List.nil_append]; rw [ih]
    by_cases h2 : c = '\''
    · subst h2; show unescape ('&' :: 'a' :: 'p' :: 'o' :: 's' :: ';' :: _) = _; rw [unescape]; simp only [List.append_eq, List.nil_append]; rw [ih]
    by_cases h3 : c = '"'
    · subst h3; show unescape ('&' :: 'q' :: 'u' :: 'o' :: 't' :: ';' :: _) = _; rw [unescape]; simp only [List.append_eq, List.nil_append]; rw [ih]
    by_cases h4 : c = '<'
    · subst h4; show unescape ('&' :: 'l' :: 't' :: ';' :: _) = _; rw [unescape]; simp only [List.append_eq, List.nil_append]; rw [ih]
    by_cases h5 : c = '>'
    · subst h5; show unescape ('&' :: 'g' :: 't' :: ';' :: _) = _; rw [unescape]; simp only [List.append_eq, List.nil_append]; rw [ih]
    have he : escChar c = [c] := by simp [escChar, h1, h2, h3, h4, h5]
    rw [he]
    show unescape (c :: _) = _
    rw [unescape_plain c _ h1]; simp only [List.append_eq, List.nil_append]; rw [ih]

/-! ### batching -/

theorem fill_partition (c : Ctx) (cur p : List Event) : (fill c cur p).1 ++ (fill c cur p).2 = cur ++ p := by
  induction p generalizing cur with
  | nil => simp [fill]
  | cons e rest ih =>
    simp only [fill]
    split
    · rfl
    · rw [ih]; simp

theorem fill_size (c : Ctx) (cur p : List Event) (h : size c cur < maxMessageSize) :
    size c (fill c cur p).1 < maxMessageSize := by
  induction p generalizing cur with
  | nil => simpa [fill] using h
  | cons e rest ih =>
    simp only [fill]
    split
    · exact h
    · rename_i hlt
      exact ih _ (by omega)

theorem fill_nonempty (c : Ctx) (cur p : List Event) (h : cur ≠ []) : (fill c cur p).1 ≠ [] := by
  induction p generalizing cur with
  | nil => simpa [fill] using h
  | cons e rest ih =>
    simp only [fill]
    split
    · exact h
    · exact ih _ (by simp)

/-- **C18(c)** every uploaded batch is a document smaller than 64 KiB and holds at least one event -/
theorem batch_lt_64KiB (c : Ctx) (p : List Event) :
    ∀ b ∈ (sendEvents c p).batches, size c b < specCap ∧ b ≠ [] := by
  rw [← facts_cap]
  fun_induction sendEvents c p with
  | case1 => intro b hb; cases hb
  | case2 e rest hbig r ih => intro b hb; exact ih b hb
  | case3 e rest hsmall _ r ih =>
    intro b hb
    rcases List.mem_cons.mp hb with h | h
    · rw [h]; exact ⟨fill_size c [e] rest (by omega), fill_nonempty c [e] rest (by simp)⟩
    · exact ih b h

/-- **C18(d)** each event of the store ends up in exactly one place: one batch, or the dropped list
(the batches and the dropped events partition the input) -/
theorem each_event_in_at_most_one_batch (c : Ctx) (p : List Event) :
    ((sendEvents c p).batches.flatten ++ (sendEvents c p).dropped).Perm p := by
  fun_induction sendEvents c p with
  | case1 => simp
  | case2 e rest hbig r ih =>
    simp only
    exact (List.perm_middle.trans (List.Perm.cons e ih))
  | case3 e rest hsmall _ r ih =>
    simp only [List.flatten_cons, List.append_assoc]
    have hp := fill_partition c [e] rest
    have : ((fill c [e] rest).1 ++ (r.batches.flatten ++ r.dropped)).Perm ((fill c [e] rest).1 ++ (fill c [e] rest).2) :=
      List.Perm.append_left _ ih
    rw [hp] at this
    simpa using this

/-- **C18(e)** an event is dropped only when it alone does not fit in any batch, and dropping it
does not block the events after it -/
theorem dropped_only_oversize (c : Ctx) (p : List Event) :
    ∀ e ∈ (sendEvents c p).dropped, size c [e] ≥ specCap := by
  rw [← facts_cap]
  fun_induction sendEvents c p with
  | case1 => intro e he; cases he
  | case2 e rest hbig r ih =>
    intro x hx
    rcases List.mem_cons.mp hx with h | h
    · rw [h]; exact hbig
    · exact ih x h
  | case3 e rest hsmall _ r ih => intro x hx; exact ih x hx

theorem oversize_dropped_not_blocking (c : Ctx) (e : Event) (rest : List Event) (h : size c [e] ≥ maxMessageSize) :
    (sendEvents c (e :: rest)).batches = (sendEvents c rest).batches ∧
    (sendEvents c (e :: rest)).dropped = e :: (sendEvents c rest).dropped := by
  conv => lhs; lhs; unfold sendEvents
  conv => rhs; lhs; unfold sendEvents
  simp only [h, ↓reduceIte, and_self]

/-- **C18(f)** at most one successful upload per batch, at most five attempts -/
theorem upload_bounded (n : Nat) (plan : List Bool) : (upload n plan).1 ≤ n := by
  induction n generalizing plan with
  | zero => simp [upload]
  | succ n ih =>
    cases plan with
    | nil => simp [upload]
    | cons ok rest =>
      simp only [upload]
      split
      · omega
      · have := ih rest; simp only; omega

theorem upload_stops_at_first_success (n : Nat) (plan : List Bool) (h : (upload n plan).2 = true) :
    plan.take (upload n plan).1 = List.replicate ((upload n plan).1 - 1) false ++ [true] := by
  induction n generalizing plan with
  | zero => simp [upload] at h
  | succ n ih =>
    cases plan with
    | nil => simp [upload] at h
    | cons ok rest =>
      simp only [upload] at h ⊢
      cases ok with
      | true => simp
      | false =>
        simp only [Bool.false_eq_true, ↓reduceIte] at h ⊢
        have := ih rest h
        have hpos : 1 ≤ (upload n rest).1 := by
          cases n with
          | zero => simp [upload] at h
          | succ m =>
            cases rest with
            | nil => simp [upload]
            | cons o r => simp only [upload]; split <;> omega
        rw [List.take_succ_cons, this]
        have : (upload n rest).1 + 1 - 1 = ((upload n rest).1 - 1) + 1 := by omega
        rw [this, List.replicate_succ]
        simp

/-- **C18(g)** processing removes every file it consumed and touches no other file -/
theorem files_removed (dir files : List String) :
    (∀ f ∈ files, f ∉ processFiles dir files) ∧ (∀ f ∈ dir, f ∉ files → f ∈ processFiles dir files) := by
  constructor
  · intro f hf hmem
    simp [processFiles, List.mem_filter] at hmem
    exact hmem.2 hf
  · intro f hf hnot
    simp [processFiles, List.mem_filter, hf, hnot]

/-- processing always terminates: `sendEvents` is a total function (well-founded on the number of
pending events), and it consumes at least one event per round -/
theorem terminates_progress (c : Ctx) (e : Event) (rest : List Event) :
    (fill c [e] rest).2.length < (e :: rest).length := by
  have := fill_rest_le c [e] rest
  simp only [List.length_cons]; omega

/-! non-vacuity -/
example : xmlEscape ['a', '<', 'b', '>', '&', '\'', '"', ']', ']', '>'] =
    ['a'] ++ eLt ++ ['b'] ++ eGt ++ eAmp ++ eApos ++ eQuot ++ [']', ']'] ++ eGt := by decide
example : unescape (eAmp ++ ['l', 't', ';']) = eLt := by decide

end Gpa.Props.C18
