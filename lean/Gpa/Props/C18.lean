/-
C18  Telemetry is delivered at most once, well-formed, in bounded batches.
-/
import Gpa.Model.TelemetryXml
namespace Gpa.Props.C18
open Gpa.Telemetry Gpa.Text

/-- the cap in the property text -/
def specCap : Nat := 64 * 1024
theorem facts_cap : maxMessageSize = specCap := by decide

/-! ### escaping -/

theorem replaceChar_eq (c : Char) (r : Str) (s : Str) :
    replaceChar c r s = s.flatMap fun x => if x = c then r else [x] := rfl

theorem xmlEscape_single (c : Char) : xmlEscape [c] = escChar c := by
  by_cases h1 : c = '&'
  · subst h1; decide
  by_cases h2 : c = '\''
  · subst h2; decide
  by_cases h3 : c = '"'
  · subst h3; decide
  by_cases h4 : c = '<'
  · subst h4; decide
  by_cases h5 : c = '>'
  · subst h5; decide
  simp [xmlEscape, replaceChar, escChar, h1, h2, h3, h4, h5]

/-- the five sequential replacements are the character-wise escape -/
theorem xmlEscape_eq_flatMap (s : Str) : xmlEscape s = s.flatMap escChar := by
  induction s with
  | nil => rfl
  | cons c cs ih =>
    have hstep : xmlEscape (c :: cs) = xmlEscape [c] ++ xmlEscape cs := by
      simp [xmlEscape, replaceChar, List.flatMap_append]
    rw [hstep, ih, List.flatMap_cons, xmlEscape_single]

def isMarkup (c : Char) : Bool := c = '<' || c = '>' || c = '"' || c = '\''

/-- **C18(a)** the escaped text contains none of `< > " '` — for every text -/
theorem escape_safe (s : Str) : ∀ c ∈ xmlEscape s, isMarkup c = false := by
  rw [xmlEscape_eq_flatMap]
  intro c hc
  rw [List.mem_flatMap] at hc
  obtain ⟨x, _, hx⟩ := hc
  by_cases h1 : x = '&'
  · subst h1; revert c; decide
  by_cases h2 : x = '\''
  · subst h2; revert c; decide
  by_cases h3 : x = '"'
  · subst h3; revert c; decide
  by_cases h4 : x = '<'
  · subst h4; revert c; decide
  by_cases h5 : x = '>'
  · subst h5; revert c; decide
  have he : escChar x = [x] := by simp [escChar, h1, h2, h3, h4, h5]
  rw [he, List.mem_singleton] at hx
  subst hx
  simp [isMarkup, h2, h3, h4, h5]

theorem unescape_plain (c : Char) (rest : Str) (h : c ≠ '&') : unescape (c :: rest) = c :: unescape rest := by
  rw [unescape]
  all_goals (intro r heq; cases heq; exact absurd rfl h)

/-- **C18(b)** the data is preserved: decoding the five references gives the text back -/
theorem unescape_escape (s : Str) : unescape (xmlEscape s) = s := by
  rw [xmlEscape_eq_flatMap]
  induction s with
  | nil => rfl
  | cons c cs ih =>
    rw [List.flatMap_cons]
    by_cases h1 : c = '&'
    · subst h1; show unescape ('&' :: 'a' :: 'm' :: 'p' :: ';' :: _) = _; rw [unescape]; simp only [List.append_eq, List.nil_append]; rw [ih]
    by_cases h2 : c = '\''
    · subst h2; show unescape ('&' :: 'a' :: 'p' :: 'o' :: 's' :: ';' :: _) = _; rw [unescape]; simp only [List.append_eq, List.nil_append]; rw [ih]
    by_cases h3 : c = '"'
    · subst h3; show unescape ('&' :: 'q' :: 'u' :: 'o' :: 't' :: ';' :: _) = _; rw [unescape]; simp only [List.append_eq, List.nil_append]; rw [ih]
    by_cases h4 : c = '<'
    · subst h4; show unescape ('&' :: 'l' :: 't' :: ';' :: _) = _; rw [unescape]; simp only [List.append_eq, List.nil_append]; rw [ih]
    by_cases h5 : c = '>'
    · subst h5; show unescape ('&' :: 'g' :: 't' :: ';' :: _) = _; rw [unescape]; simp only [List.append_eq, List.nil_append]; rw [ih]
    have he : escChar c = [c] := by simp [escChar, h1, h2, h3, h4, h5]
    rw [he]
    show unescape (c :: _) = _
    rw [unescape_plain c _ h1]; simp only [List.append_eq, List.nil_append]; rw [ih]

/-! ### batching -/

theorem fill_partition (c : Ctx) (cur p : List Event) : (fill c cur p).1 ++ (fill c cur p).2 = cur ++ p := by
  induction p generalizing cur with
  | nil => simp [fill]
  | cons e rest ih =>
    simp only [fill]
    split
    · rfl
    · rw [ih]; simp

theorem fill_size (c : Ctx) (cur p : List Event) (h : size c cur < maxMessageSize) :
    size c (fill c cur p).1 < maxMessageSize := by
  induction p generalizing cur with
  | nil => simpa [fill] using h
  | cons e rest ih =>
    simp only [fill]
    split
    · exact h
    · rename_i hlt
      exact ih _ (by omega)

theorem fill_nonempty (c : Ctx) (cur p : List Event) (h : cur ≠ []) : (fill c cur p).1 ≠ [] := by
  induction p generalizing cur with
  | nil => simpa [fill] using h
  | cons e rest ih =>
    simp only [fill]
    split
    · exact h
    · exact ih _ (by simp)

/-- **C18(c)** every uploaded batch is a document smaller than 64 KiB and holds at least one event -/
theorem batch_lt_64KiB (c : Ctx) (p : List Event) :
    ∀ b ∈ (sendEvents c p).batches, size c b < specCap ∧ b ≠ [] := by
  rw [← facts_cap]
  fun_induction sendEvents c p with
  | case1 => intro b hb; cases hb
  | case2 e rest hbig r ih => intro b hb; exact ih b hb
  | case3 e rest hsmall _ r ih =>
    intro b hb
    rcases List.mem_cons.mp hb with h | h
    · rw [h]; exact ⟨fill_size c [e] rest (by omega), fill_nonempty c [e] rest (by simp)⟩
    · exact ih b h

/-- **C18(d)** each event of the store ends up in exactly one place: one batch, or the dropped list
(the batches and the dropped events partition the input) -/
theorem each_event_in_at_most_one_batch (c : Ctx) (p : List Event) :
    ((sendEvents c p).batches.flatten ++ (sendEvents c p).dropped).Perm p := by
  fun_induction sendEvents c p with
  | case1 => simp
  | case2 e rest hbig r ih =>
    simp only
    exact (List.perm_middle.trans (List.Perm.cons e ih))
  | case3 e rest hsmall _ r ih =>
    simp only [List.flatten_cons, List.append_assoc]
    have hp := fill_partition c [e] rest
    have : ((fill c [e] rest).1 ++ (r.batches.flatten ++ r.dropped)).Perm ((fill c [e] rest).1 ++ (fill c [e] rest).2) :=
      List.Perm.append_left _ ih
    rw [hp] at this
    simpa using this

/-- **C18(e)** an event is dropped only when it alone does not fit in any batch, and dropping it
does not block the events after it -/
theorem dropped_only_oversize (c : Ctx) (p : List Event) :
    ∀ e ∈ (sendEvents c p).dropped, size c [e] ≥ specCap := by
  rw [← facts_cap]
  fun_induction sendEvents c p with
  | case1 => intro e he; cases he
  | case2 e rest hbig r ih =>
    intro x hx
    rcases List.mem_cons.mp hx with h | h
    · rw [h]; exact hbig
    · exact ih x h
  | case3 e rest hsmall _ r ih => intro x hx; exact ih x hx

theorem oversize_dropped_not_blocking (c : Ctx) (e : Event) (rest : List Event) (h : size c [e] ≥ maxMessageSize) :
    (sendEvents c (e :: rest)).batches = (sendEvents c rest).batches ∧
    (sendEvents c (e :: rest)).dropped = e :: (sendEvents c rest).dropped := by
  conv => lhs; lhs; unfold sendEvents
  conv => rhs; lhs; unfold sendEvents
  simp only [h, ↓reduceIte, and_self]

/-- **C18(f)** at most one successful upload per batch, at most five attempts -/
theorem upload_bounded (n : Nat) (plan : List Bool) : (upload n plan).1 ≤ n := by
  induction n generalizing plan with
  | zero => simp [upload]
  | succ n ih =>
    cases plan with
    | nil => simp [upload]
    | cons ok rest =>
      simp only [upload]
      split
      · omega
      · have := ih rest; simp only; omega

theorem upload_stops_at_first_success (n : Nat) (plan : List Bool) (h : (upload n plan).2 = true) :
    plan.take (upload n plan).1 = List.replicate ((upload n plan).1 - 1) false ++ [true] := by
  induction n generalizing plan with
  | zero => simp [upload] at h
  | succ n ih =>
    cases plan with
    | nil => simp [upload] at h
    | cons ok rest =>
      simp only [upload] at h ⊢
      cases ok with
      | true => simp
      | false =>
        simp only [Bool.false_eq_true, ↓reduceIte] at h ⊢
        have := ih rest h
        have hpos : 1 ≤ (upload n rest).1 := by
          cases n with
          | zero => simp [upload] at h
          | succ m =>
            cases rest with
            | nil => simp [upload]
            | cons o r => simp only [upload]; split <;> omega
        rw [List.take_succ_cons, this]
        have : (upload n rest).1 + 1 - 1 = ((upload n rest).1 - 1) + 1 := by omega
        rw [this, List.replicate_succ]
        simp

/-- **C18(g)** processing removes every file it consumed and touches no other file -/
theorem files_removed (dir files : List String) :
    (∀ f ∈ files, f ∉ processFiles dir files) ∧ (∀ f ∈ dir, f ∉ files → f ∈ processFiles dir files) := by
  constructor
  · intro f hf hmem
    simp [processFiles, List.mem_filter] at hmem
    exact hmem.2 hf
  · intro f hf hnot
    simp [processFiles, List.mem_filter, hf, hnot]

/-- processing always terminates: `sendEvents` is a total function (well-founded on the number of
pending events), and it consumes at least one event per round -/
theorem terminates_progress (c : Ctx) (e : Event) (rest : List Event) :
    (fill c [e] rest).2.length < (e :: rest).length := by
  have := fill_rest_le c [e] rest
  simp only [List.length_cons]; omega

/-! ### the document structure does not depend on the events' text -/

theorem stripPre_append (p rest : Str) : stripPre p (p ++ rest) = some rest := by
  induction p with
  | nil => cases rest <;> rfl
  | cons c cs ih => simp [stripPre, ih]

theorem takeUntil_append (q : Char) (a rest : Str) (h : ∀ c ∈ a, c ≠ q) : takeUntil q (a ++ q :: rest) = some (a, rest) := by
  induction a with
  | nil => simp [takeUntil]
  | cons c cs ih =>
    have hc : c ≠ q := h c (List.mem_cons_self ..)
    simp only [List.cons_append, takeUntil, if_neg hc]
    rw [ih (fun x hx => h x (List.mem_cons_of_mem _ hx))]

/-- an escaped text contains no quote -/
theorem escape_no_quote (v : Str) : ∀ c ∈ xmlEscape v, c ≠ '"' := by
  intro c hc hq
  have := escape_safe v c hc
  subst hq
  simp [isMarkup] at this

theorem digit_ne_quote : ∀ d, d < 10 → digitChar d ≠ '"' := by decide

theorem natStr_digits (n : Nat) : ∀ c ∈ natStr n, c ≠ '"' := by
  induction n using Nat.strongRecOn with
  | _ n ih =>
    intro c hc
    rw [natStr] at hc
    split at hc
    · rename_i h
      simp only [List.mem_singleton] at hc
      subst hc
      exact digit_ne_quote n h
    · rcases List.mem_append.mp hc with h1 | h1
      · exact ih (n / 10) (by omega) c h1
      · simp only [List.mem_singleton] at h1
        subst h1
        exact digit_ne_quote _ (Nat.mod_lt _ (by omega))

/-- reading one element back: name, value and type exactly as written, provided none contains a quote -/
theorem readParam_paramOf (name value ty rest : Str) (hn : ∀ c ∈ name, c ≠ '"') (hv : ∀ c ∈ value, c ≠ '"')
    (ht : ∀ c ∈ ty, c ≠ '"') :
    readParam (paramOf name value ty ++ rest) = some ({ name := name, value := value, ty := ty }, rest) := by
  unfold readParam paramOf
  simp only [List.append_assoc, List.singleton_append, List.cons_append, List.nil_append]
  rw [stripPre_append]
  simp only []
  rw [takeUntil_append '"' name _ hn]
  simp only []
  rw [stripPre_append]
  simp only []
  rw [takeUntil_append '"' value _ hv]
  simp only []
  rw [stripPre_append]
  simp only []
  rw [takeUntil_append '"' ty _ ht]
  simp only []
  rw [stripPre_append]

theorem paramStr_eq (name : String) (v : Str) : paramStr name v = paramOf name.toList (xmlEscape v) tyStr := by
  unfold paramStr paramOf
  simp only [String.toList_append, List.append_assoc]
  rfl

theorem paramNum_eq (name : String) (n : Nat) : paramNum name n = paramOf name.toList (natStr n) tyNum := by
  unfold paramNum paramOf
  simp only [String.toList_append, List.append_assoc]
  rfl

def attrOfTriple (t : Str × Str × Str) : Attr := { name := t.1, value := t.2.1, ty := t.2.2 }

def noQuote (s : Str) : Prop := ∀ c ∈ s, c ≠ '"'

theorem noQuote_of_all (s : Str) (h : s.all (fun ch => ch ≠ '"') = true) : noQuote s := by
  intro c hc
  have := List.all_eq_true.mp h c hc
  simpa using this

theorem readParams_list (l : List (Str × Str × Str)) (h : ∀ t ∈ l, noQuote t.1 ∧ noQuote t.2.1 ∧ noQuote t.2.2) :
    readParams l.length (l.map fun t => paramOf t.1 t.2.1 t.2.2).flatten = some (l.map attrOfTriple) := by
  induction l with
  | nil => rfl
  | cons t ts ih =>
    have ht := h t (List.mem_cons_self ..)
    simp only [List.map_cons, List.flatten_cons, List.length_cons, readParams]
    rw [readParam_paramOf _ _ _ _ ht.1 ht.2.1 ht.2.2]
    simp only []
    rw [ih (fun x hx => h x (List.mem_cons_of_mem _ hx))]
    rfl

/-- the 23 parameters of an event as (name, written value, type): every text field is written escaped,
every number in decimal -/
def triples (c : Ctx) (e : Event) : List (Str × Str × Str) :=
  [ ("OpcodeName".toList, xmlEscape e.timeStamp, tyStr),
    ("KeywordName".toList, xmlEscape c.keywordName, tyStr),
    ("TaskName".toList, xmlEscape e.taskName, tyStr),
    ("TenantName".toList, xmlEscape c.tenantName, tyStr),
    ("RoleName".toList, xmlEscape c.roleName, tyStr),
    ("RoleInstanceName".toList, xmlEscape c.roleInstanceName, tyStr),
    ("ContainerId".toList, xmlEscape c.containerId, tyStr),
    ("ResourceGroupName".toList, xmlEscape c.resourceGroupName, tyStr),
    ("SubscriptionId".toList, xmlEscape c.subscriptionId, tyStr),
    ("VMId".toList, xmlEscape c.vmId, tyStr),
    ("EventPid".toList, natStr (parseU64 e.pid), tyNum),
    ("EventTid".toList, natStr (parseU64 e.tid), tyNum),
    ("ImageOrigin".toList, natStr c.imageOrigin, tyNum),
    ("ExecutionMode".toList, xmlEscape "ProxyAgent".toList, tyStr),
    ("OSVersion".toList, xmlEscape c.osVersion, tyStr),
    ("GAVersion".toList, xmlEscape e.version, tyStr),
    ("RAM".toList, natStr c.ram, tyNum),
    ("Processors".toList, natStr c.processors, tyNum),
    ("EventName".toList, xmlEscape "MicrosoftAzureGuestProxyAgent".toList, tyStr),
    ("CapabilityUsed".toList, xmlEscape e.level, tyStr),
    ("Context1".toList, xmlEscape e.message, tyStr),
    ("Context2".toList, xmlEscape e.timeStamp, tyStr),
    ("Context3".toList, xmlEscape e.operationId, tyStr) ]

/-- `to_xml_event` writes exactly these, in this order -/
theorem params_eq (c : Ctx) (e : Event) : params c e = (triples c e).map fun t => paramOf t.1 t.2.1 t.2.2 := by
  simp only [params, triples, List.map_cons, List.map_nil, paramStr_eq, paramNum_eq]

theorem triple_noQuote (c : Ctx) (e : Event) : ∀ t ∈ triples c e, noQuote t.1 ∧ noQuote t.2.1 ∧ noQuote t.2.2 := by
  intro t ht
  simp only [triples, List.mem_cons, List.mem_nil_iff, or_false] at ht
  rcases ht with h | h | h | h | h | h | h | h | h | h | h | h | h | h | h | h | h | h | h | h | h | h | h <;> subst h <;> dsimp only <;>
    refine ⟨noQuote_of_all _ (by decide), ?_, noQuote_of_all _ (by decide)⟩ <;>
    first | exact escape_no_quote _ | exact natStr_digits _

/-- **C18(h)** the character data of an event reads back as exactly 23 parameters with the fixed names and
types and the written values (`triples`), whatever text the event carries: the text cannot end an
attribute, add a parameter or change a name -/
theorem event_reads_back (c : Ctx) (e : Event) :
    readParams 23 (params c e).flatten = some ((triples c e).map attrOfTriple) := by
  rw [params_eq]
  exact readParams_list (triples c e) (triple_noQuote c e)

/-- **C18(i)** and the text is carried as data: decoding a written text value gives the field back
(`unescape_escape`), e.g. the message -/
theorem message_is_data (c : Ctx) (e : Event) :
    ("Context1".toList, e.message) ∈ (triples c e).map fun t => (t.1, unescape t.2.1) := by
  refine List.mem_map.mpr ⟨("Context1".toList, xmlEscape e.message, tyStr), ?_, ?_⟩
  · simp only [triples, List.mem_cons, true_or, or_true]
  · simp only [unescape_escape]

/-! ### the outer document: CDATA sections end where the writer ended them -/

/-- every `>` in the text directly follows a `/` (`prev` = the character before the text) -/
def gtOk : Char → Str → Bool
  | _, [] => true
  | prev, c :: cs => (c != '>' || prev == '/') && gtOk c cs

/-- no `]]>` anywhere -/
def noEnd : Str → Bool
  | c1 :: c2 :: c3 :: rest => !(c1 == ']' && c2 == ']' && c3 == '>') && noEnd (c2 :: c3 :: rest)
  | _ => true

def noGt (s : Str) : Prop := ∀ c ∈ s, c ≠ '>'

theorem gtOk_seg (p : Char) (a rest : Str) (h : noGt a) : gtOk p (a ++ ' ' :: '/' :: '>' :: rest) = gtOk '>' rest := by
  induction a generalizing p with
  | nil => simp [gtOk]
  | cons c cs ih =>
    have hc : c ≠ '>' := h c (List.mem_cons_self ..)
    simp only [List.cons_append, gtOk]
    rw [ih c (fun x hx => h x (List.mem_cons_of_mem _ hx))]
    simp [hc]

theorem noEnd_of_gtOk (p : Char) (s : Str) (h : gtOk p s = true) : noEnd s = true := by
  induction s generalizing p with
  | nil => rfl
  | cons c1 t ih =>
    cases t with
    | nil => rfl
    | cons c2 t2 =>
      cases t2 with
      | nil => rfl
      | cons c3 rest =>
        simp only [gtOk, Bool.and_eq_true, Bool.or_eq_true, bne_iff_ne, ne_eq, beq_iff_eq] at h
        simp only [noEnd, Bool.and_eq_true, Bool.not_eq_true', Bool.and_eq_false_iff, beq_eq_false_iff_ne, ne_eq]
        refine ⟨?_, ih c1 (by simp only [gtOk, Bool.and_eq_true, Bool.or_eq_true, bne_iff_ne, ne_eq, beq_iff_eq]; exact ⟨h.2.1, h.2.2.1, h.2.2.2⟩)⟩
        by_cases h3 : c3 = '>'
        · rcases h.2.2.1 with h' | h'
          · exact absurd h3 h'
          · left; right; rw [h']; decide
        · right; exact h3

/-- a text without `]]>` followed by `]]>`: the reader stops exactly at the writer's terminator -/
theorem takeCdata_append (d rest : Str) (p : Char) (h : gtOk p d = true) :
    takeCdata (d ++ cdataEnd ++ rest) = some (d, rest) := by
  induction d generalizing p with
  | nil => simp [takeCdata, cdataEnd, stripPre]
  | cons c cs ih =>
    simp only [gtOk, Bool.and_eq_true] at h
    have hnone : stripPre cdataEnd (c :: cs ++ cdataEnd ++ rest) = none := by
      by_cases h1 : c = ']'
      · subst h1
        cases cs with
        | nil => simp [stripPre, cdataEnd]
        | cons c2 t =>
          by_cases h2 : c2 = ']'
          · subst h2
            cases t with
            | nil => simp [stripPre, cdataEnd]
            | cons c3 t3 =>
              have hh := h.2
              simp only [gtOk, Bool.and_eq_true, Bool.or_eq_true, bne_iff_ne, ne_eq, beq_iff_eq] at hh
              have h3 : c3 ≠ '>' := by
                rcases hh.2.1 with h' | h'
                · exact h'
                · exact absurd h' (by decide)
              simp [stripPre, cdataEnd, Ne.symm h3]
          · simp [stripPre, cdataEnd, Ne.symm h2]
      · simp [stripPre, cdataEnd, Ne.symm h1]
    have := ih c h.2
    simp only [List.cons_append, List.append_assoc] at hnone this ⊢
    rw [takeCdata, hnone]
    simp only []
    rw [this]


theorem natStr_isDigit (n : Nat) : ∀ c ∈ natStr n, c.isDigit = true := by
  induction n using Nat.strongRecOn with
  | _ n ih =>
    intro c hc
    rw [natStr] at hc
    have hd : ∀ d, d < 10 → (digitChar d).isDigit = true := by decide
    split at hc
    · rename_i h
      simp only [List.mem_singleton] at hc
      subst hc
      exact hd n h
    · rcases List.mem_append.mp hc with h1 | h1
      · exact ih (n / 10) (by omega) c h1
      · simp only [List.mem_singleton] at h1
        subst h1
        exact hd _ (Nat.mod_lt _ (by omega))

theorem natStr_noGt (n : Nat) : noGt (natStr n) := by
  intro c hc hq
  have := natStr_isDigit n c hc
  subst hq
  exact absurd this (by decide)

theorem escape_noGt (v : Str) : noGt (xmlEscape v) := by
  intro c hc hq
  have := escape_safe v c hc
  subst hq
  simp [isMarkup] at this

theorem noGt_of_all (s : Str) (h : s.all (fun ch => ch ≠ '>') = true) : noGt s := by
  intro c hc
  have := List.all_eq_true.mp h c hc
  simpa using this

theorem noGt_append {a b : Str} (ha : noGt a) (hb : noGt b) : noGt (a ++ b) := by
  intro c hc
  rcases List.mem_append.mp hc with h | h
  · exact ha c h
  · exact hb c h

theorem gtOk_params (p : Char) (l : List (Str × Str × Str)) (h : ∀ t ∈ l, noGt t.1 ∧ noGt t.2.1 ∧ noGt t.2.2) :
    gtOk p (l.map fun t => paramOf t.1 t.2.1 t.2.2).flatten = true := by
  induction l generalizing p with
  | nil => rfl
  | cons t ts ih =>
    have ht := h t (List.mem_cons_self ..)
    have hq : noGt ['"'] := noGt_of_all _ (by decide)
    have ha : noGt (pOpen ++ t.1 ++ ['"'] ++ pValue ++ t.2.1 ++ ['"'] ++ pType ++ t.2.2 ++ ['"']) :=
      noGt_append (noGt_append (noGt_append (noGt_append (noGt_append (noGt_append (noGt_append (noGt_append
        (noGt_of_all _ (by decide)) ht.1) hq) (noGt_of_all _ (by decide))) ht.2.1) hq) (noGt_of_all _ (by decide))) ht.2.2) hq
    simp only [List.map_cons, List.flatten_cons]
    have e1 : paramOf t.1 t.2.1 t.2.2 ++ (ts.map fun t => paramOf t.1 t.2.1 t.2.2).flatten =
        (pOpen ++ t.1 ++ ['"'] ++ pValue ++ t.2.1 ++ ['"'] ++ pType ++ t.2.2 ++ ['"']) ++
          ' ' :: '/' :: '>' :: (ts.map fun t => paramOf t.1 t.2.1 t.2.2).flatten := by
      simp only [paramOf, pClose, List.append_assoc, List.cons_append, List.nil_append]
    rw [e1, gtOk_seg p _ _ ha]
    exact ih '>' (fun x hx => h x (List.mem_cons_of_mem _ hx))

theorem triple_noGt (c : Ctx) (e : Event) : ∀ t ∈ triples c e, noGt t.1 ∧ noGt t.2.1 ∧ noGt t.2.2 := by
  intro t ht
  simp only [triples, List.mem_cons, List.mem_nil_iff, or_false] at ht
  rcases ht with h | h | h | h | h | h | h | h | h | h | h | h | h | h | h | h | h | h | h | h | h | h | h <;> subst h <;> dsimp only <;>
    refine ⟨noGt_of_all _ (by decide), ?_, noGt_of_all _ (by decide)⟩ <;>
    first | exact escape_noGt _ | exact natStr_noGt _

/-- **C18(j)** the character data of an event never contains `]]>`, whatever text the event carries -/
theorem no_cdata_end_in_event (c : Ctx) (e : Event) : noEnd (params c e).flatten = true := by
  rw [params_eq]
  exact noEnd_of_gtOk ' ' _ (gtOk_params ' ' (triples c e) (triple_noGt c e))

theorem eventClose_eq : eventClose = cdataEnd ++ eventTail := by decide

theorem readEvents_all (c : Ctx) (evs : List Event) (tail : Str) :
    readEvents evs.length (evs.flatMap (eventXml c) ++ tail) = some (evs.map fun e => (params c e).flatten, tail) := by
  induction evs with
  | nil => rfl
  | cons e rest ih =>
    simp only [List.flatMap_cons, List.length_cons, List.map_cons, readEvents, eventXml, eventClose_eq, List.append_assoc]
    rw [stripPre_append]
    simp only []
    have hg : gtOk ' ' (params c e).flatten = true := by
      rw [params_eq]; exact gtOk_params ' ' (triples c e) (triple_noGt c e)
    have := takeCdata_append (params c e).flatten (eventTail ++ (rest.flatMap (eventXml c) ++ tail)) ' ' hg
    simp only [List.append_assoc] at this
    rw [this]
    simp only []
    rw [stripPre_append]
    simp only []
    rw [ih]

/-- **C18(k)** a consumer reading the uploaded document finds exactly one character-data section per event,
holding that event's parameters and nothing else: no event text can close a section early, open a new
element or swallow the following events -/
theorem document_reads_back (c : Ctx) (evs : List Event) :
    readDoc evs.length (toXml c evs) = some (evs.map fun e => (params c e).flatten) := by
  unfold readDoc toXml
  simp only [List.append_assoc]
  rw [stripPre_append]
  simp only []
  rw [readEvents_all]
  simp

/-- … and each section reads back as that event's 23 parameters -/
theorem document_sections_read_back (c : Ctx) (evs : List Event) :
    (readDoc evs.length (toXml c evs)).map (fun ds => ds.map (readParams 23)) =
      some (evs.map fun e => some ((triples c e).map attrOfTriple)) := by
  rw [document_reads_back]
  simp only [Option.map_some, List.map_map]
  congr 1
  apply List.map_congr_left
  intro e _
  exact event_reads_back c e


/-! non-vacuity -/
example : xmlEscape ['a', '<', 'b', '>', '&', '\'', '"', ']', ']', '>'] =
    ['a'] ++ eLt ++ ['b'] ++ eGt ++ eAmp ++ eApos ++ eQuot ++ [']', ']'] ++ eGt := by decide
example : unescape (eAmp ++ ['l', 't', ';']) = eLt := by decide

end Gpa.Props.C18
