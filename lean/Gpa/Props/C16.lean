/-
C16  Provisioning status is truthful under any arrival order.
-/
import Gpa.Model.Provision
import Gpa.Model.TagInodes
import Gpa.Generated.Facts
namespace Gpa.Props.C16
open Gpa.Provision

/-- a finished tick is either "not finished" (0) or a positive stamp made by the deadline handler
or by a task that had just been told by the actor that all three flags were set at instant `obs` -/
def StampOk (allTimes : List Int) (fin : Int) (reason : Option Reason) (obs : Int) : Prop :=
  fin = 0 ∨ (0 < fin ∧ (reason = some .deadline ∨ (reason = some .allObserved ∧ obs ∈ allTimes ∧ obs ≤ fin)))

def TaskOk (allTimes : List Int) (clock : Int) (t : Task) : Prop :=
  match t.kind with
  | .ready _ => t.pc = 1 → t.r.all = true → (t.obs ∈ allTimes ∧ t.obs < clock)
  | .reset => t.pc = 1 → t.r.all = false
  | .timeup => True
  | .query q latched =>
      (1 ≤ t.pc → StampOk allTimes t.ft t.ftReason t.ftObs) ∧
      (t.pc ≤ 1 → t.answer = none) ∧
      (∀ ans, t.answer = some ans →
        ans.finished = reportFinished t.ft q latched ∧ ans.fin = t.ft ∧ ans.reason = t.ftReason ∧ ans.obsTime = t.ftObs)

structure Inv (g : Global) : Prop where
  clockPos : 0 < g.clock
  times : ∀ τ ∈ g.allTimes, τ < g.clock
  finLt : g.actor.fin < g.clock
  stamp : StampOk g.allTimes g.actor.fin g.actor.reason g.actor.obsTime
  tasks : ∀ t ∈ g.tasks, TaskOk g.allTimes g.clock t

theorem stampOk_mono {l l' : List Int} (h : ∀ x ∈ l, x ∈ l') {f r o} (hs : StampOk l f r o) : StampOk l' f r o := by
  rcases hs with h0 | ⟨hp, hd | ⟨ha, hm, hle⟩⟩
  · exact Or.inl h0
  · exact Or.inr ⟨hp, Or.inl hd⟩
  · exact Or.inr ⟨hp, Or.inr ⟨ha, h _ hm, hle⟩⟩

theorem taskOk_mono {l l' : List Int} {c c' : Int} (h : ∀ x ∈ l, x ∈ l') (hc : c ≤ c') {t : Task} (ht : TaskOk l c t) :
    TaskOk l' c' t := by
  unfold TaskOk at *
  cases hk : t.kind with
  | ready f => simp only [hk] at ht ⊢; intro h1 h2; obtain ⟨a, b⟩ := ht h1 h2; exact ⟨h _ a, by omega⟩
  | reset => simp only [hk] at ht ⊢; exact ht
  | timeup => trivial
  | query q latched =>
    simp only [hk] at ht ⊢
    exact ⟨fun hp => stampOk_mono h (ht.1 hp), ht.2.1, ht.2.2⟩

theorem inv_init : Inv Global.init := by
  refine ⟨by decide, ?_, by decide, Or.inl rfl, ?_⟩ <;> intro x hx <;> cases hx

theorem all_andNot_keyLatch (f : Flags) : (f.andNot fKeyLatch).all = false := by
  simp [Flags.andNot, Flags.all, fKeyLatch]

/-- what one message does, given the invariant of the actor and of the task that sends it -/
theorem act_ok (a : Actor) (now : Int) (t : Task) (l : List Int) (hnow : 0 < now) (hfin : a.fin < now)
    (hstamp : StampOk l a.fin a.reason a.obsTime) (htok : TaskOk l now t) :
    (act a now t).1.fin < now + 1 ∧
    StampOk (if (act a now t).2.2 then now :: l else l) (act a now t).1.fin (act a now t).1.reason (act a now t).1.obsTime ∧
    (∀ t', (act a now t).2.1 = some t' → TaskOk (if (act a now t).2.2 then now :: l else l) (now + 1) t') := by
  have hsub : ∀ (b : Bool) x, x ∈ l → x ∈ (if b then now :: l else l) := by
    intro b x hx; split
    · exact List.mem_cons_of_mem _ hx
    · exact hx
  unfold TaskOk at htok
  cases hk : t.kind with
  | ready f =>
    simp only [hk] at htok
    rcases hpc : t.pc with _ | _ | n
    · simp only [act, hk, hpc]
      refine ⟨by omega, stampOk_mono (hsub _) hstamp, ?_⟩
      intro t' ht'
      simp only [Option.some.injEq] at ht'
      subst ht'
      simp only [TaskOk, hk]
      intro _ hall
      simp only [hall, ↓reduceIte]
      exact ⟨List.mem_cons_self, by omega⟩
    · simp only [act, hk, hpc]
      by_cases hall : t.r.all = true
      · obtain ⟨hm, hlt⟩ := htok hpc hall
        simp only [hall, ↓reduceIte, Bool.false_eq_true]
        exact ⟨by omega, Or.inr ⟨hnow, Or.inr ⟨rfl, hm, by omega⟩⟩, by intro t' h; cases h⟩
      · simp only [hall, Bool.false_eq_true, ↓reduceIte]
        exact ⟨by omega, hstamp, by intro t' h; cases h⟩
    · simp only [act, hk, hpc, Bool.false_eq_true, ↓reduceIte]
      exact ⟨by omega, hstamp, by intro t' h; cases h⟩
  | reset =>
    simp only [hk] at htok
    rcases hpc : t.pc with _ | _ | n
    · simp only [act, hk, hpc, Bool.false_eq_true, ↓reduceIte]
      refine ⟨by omega, hstamp, ?_⟩
      intro t' ht'
      simp only [Option.some.injEq] at ht'
      subst ht'
      simp only [TaskOk, hk]
      intro _
      exact all_andNot_keyLatch _
    · have hall : t.r.all = false := htok hpc
      simp only [act, hk, hpc, hall, Bool.false_eq_true, ↓reduceIte]
      exact ⟨by omega, Or.inl rfl, by intro t' h; cases h⟩
    · simp only [act, hk, hpc, Bool.false_eq_true, ↓reduceIte]
      exact ⟨by omega, hstamp, by intro t' h; cases h⟩
  | timeup =>
    rcases hpc : t.pc with _ | _ | n
    · simp only [act, hk, hpc, Bool.false_eq_true, ↓reduceIte]
      refine ⟨by omega, hstamp, ?_⟩
      intro t' ht'
      simp only [Option.some.injEq] at ht'
      subst ht'
      simp [TaskOk, hk]
    · simp only [act, hk, hpc]
      by_cases hall : t.r.all = true
      · simp only [hall, Bool.not_true, Bool.false_eq_true, ↓reduceIte]
        exact ⟨by omega, hstamp, by intro t' h; cases h⟩
      · simp only [hall, Bool.not_false, ↓reduceIte, Bool.false_eq_true]
        exact ⟨by omega, Or.inr ⟨hnow, Or.inl rfl⟩, by intro t' h; cases h⟩
    · simp only [act, hk, hpc, Bool.false_eq_true, ↓reduceIte]
      exact ⟨by omega, hstamp, by intro t' h; cases h⟩
  | query q latched =>
    simp only [hk] at htok
    rcases hpc : t.pc with _ | _ | n
    · simp only [act, hk, hpc, Bool.false_eq_true, ↓reduceIte]
      refine ⟨by omega, hstamp, ?_⟩
      intro t' ht'
      simp only [Option.some.injEq] at ht'
      subst ht'
      simp only [TaskOk, hk]
      have hnone : t.answer = none := htok.2.1 (by omega)
      refine ⟨fun _ => hstamp, fun _ => hnone, ?_⟩
      intro ans hans
      rw [hnone] at hans; cases hans
    · simp only [act, hk, hpc, Bool.false_eq_true, ↓reduceIte]
      refine ⟨by omega, hstamp, ?_⟩
      intro t' ht'
      simp only [Option.some.injEq] at ht'
      subst ht'
      simp only [TaskOk, hk]
      refine ⟨fun _ => htok.1 (by omega), fun h => by omega, ?_⟩
      intro ans hans
      simp only [Option.some.injEq] at hans
      subst hans
      exact ⟨rfl, rfl, rfl, rfl⟩
    · simp only [act, hk, hpc, Bool.false_eq_true, ↓reduceIte]
      exact ⟨by omega, hstamp, by intro t' h; cases h⟩

/-- every step preserves the invariant -/
theorem inv_step {g g' : Global} (hi : Inv g) (hs : Step g g') : Inv g' := by
  obtain ⟨hcp, htimes, hfin, hstamp, htasks⟩ := hi
  cases hs with
  | spawn k =>
    refine ⟨hcp, htimes, hfin, hstamp, ?_⟩
    intro t ht
    rcases List.mem_append.mp ht with h | h
    · exact htasks t h
    · simp only [List.mem_singleton] at h
      subst h
      unfold TaskOk
      cases k <;> simp
  | run i t hget =>
    have htmem : t ∈ g.tasks := List.mem_of_getElem? hget
    obtain ⟨k1, k2, k3⟩ := act_ok g.actor g.clock t g.allTimes hcp hfin hstamp (htasks t htmem)
    have hsub : ∀ x ∈ g.allTimes, x ∈ (if (act g.actor g.clock t).2.2 then g.clock :: g.allTimes else g.allTimes) := by
      intro x hx; split
      · exact List.mem_cons_of_mem _ hx
      · exact hx
    refine ⟨?_, ?_, k1, k2, ?_⟩
    · show 0 < g.clock + 1; omega
    · intro τ hτ
      show τ < g.clock + 1
      have hτ' : τ ∈ (if (act g.actor g.clock t).2.2 then g.clock :: g.allTimes else g.allTimes) := hτ
      by_cases hb : (act g.actor g.clock t).2.2 = true
      · rw [if_pos hb] at hτ'
        rcases List.mem_cons.mp hτ' with e | e
        · omega
        · have := htimes τ e; omega
      · rw [if_neg hb] at hτ'
        have := htimes τ hτ'; omega
    · intro u hu
      have hothers : ∀ u ∈ g.tasks, TaskOk (if (act g.actor g.clock t).2.2 then g.clock :: g.allTimes else g.allTimes) (g.clock + 1) u :=
        fun u hu => taskOk_mono hsub (by omega) (htasks u hu)
      cases hres : (act g.actor g.clock t).2.1 with
      | none =>
        simp only [hres] at hu
        exact hothers u (List.mem_of_mem_eraseIdx hu)
      | some t' =>
        simp only [hres] at hu
        rcases List.mem_or_eq_of_mem_set hu with h | h
        · exact hothers u h
        · rw [h]; exact k3 t' hres

theorem inv_reach {g : Global} (h : Reach g) : Inv g := by
  induction h with
  | init => exact inv_init
  | step _ hs ih => exact inv_step ih hs

/-- **C16(a)** a query that names instant `q` and finds the channel not latched reports *finished*
only if a finished stamp `fin > 0` with `fin ≥ q` exists, made by the deadline handler, or by a
task to which the actor had just answered (at an instant `obs ≤ fin` recorded in the history) that
redirector, key latch and listener were all ready — under every interleaving of readiness reports,
resets, the deadline handler and concurrent queries, with arbitrary ticks. -/
theorem finished_sound {g : Global} (hr : Reach g) (t : Task) (ht : t ∈ g.tasks) (q : Int)
    (hk : t.kind = .query q false) (ans : Answer) (ha : t.answer = some ans) (hf : ans.finished = true) :
    0 < ans.fin ∧ q ≤ ans.fin ∧
      (ans.reason = some .deadline ∨ (ans.reason = some .allObserved ∧ ans.obsTime ∈ g.allTimes ∧ ans.obsTime ≤ ans.fin)) := by
  have hinv := (inv_reach hr).tasks t ht
  unfold TaskOk at hinv
  simp only [hk] at hinv
  obtain ⟨hfin, hfeq, hreq, hoeq⟩ := hinv.2.2 ans ha
  rw [hf] at hfin
  have hpos : 0 < t.ft ∧ q ≤ t.ft := by
    have h := hfin.symm
    simp only [reportFinished, Bool.or_false, Bool.and_eq_true, decide_eq_true_eq] at h
    exact ⟨h.1, h.2⟩
  have hpc : 1 ≤ t.pc := by
    rcases Nat.lt_or_ge t.pc 1 with h | h
    · have := hinv.2.1 (by omega); rw [this] at ha; cases ha
    · exact h
  rcases hinv.1 hpc with h0 | ⟨_, hd | ⟨hao, hm, hle⟩⟩
  · omega
  · exact ⟨by rw [hfeq]; exact hpos.1, by rw [hfeq]; exact hpos.2, Or.inl (by rw [hreq]; exact hd)⟩
  · exact ⟨by rw [hfeq]; exact hpos.1, by rw [hfeq]; exact hpos.2,
      Or.inr ⟨by rw [hreq]; exact hao, by rw [hoeq]; exact hm, by rw [hoeq, hfeq]; exact hle⟩⟩

/-- **C16(b)** the error text names exactly the subsystems whose flag is clear in the state the
query read, and is empty exactly when all three are set -/
theorem error_text_exact (f : Flags) :
    ((notReadyOf f).redirector = !f.redirector) ∧ ((notReadyOf f).keyLatch = !f.keyLatch) ∧
    ((notReadyOf f).listener = !f.listener) ∧ (notReadyOf f = Flags.none ↔ f.all = true) := by
  refine ⟨rfl, rfl, rfl, ?_⟩
  cases f with
  | mk a b c => cases a <;> cases b <;> cases c <;> simp [notReadyOf, Flags.none, Flags.all]

/-- **C16(c)** no lost update: the actor applies OR / AND-NOT one message at a time, so after any
sequence of reports and resets the flags are the fold of all of them in arrival order, and a
subsystem's flag is set iff its last report came after its last reset -/
inductive FlagMsg where
  | set (f : Flags) | clear (f : Flags)

def applyMsg (s : Flags) : FlagMsg → Flags
  | .set f => s.or f
  | .clear f => s.andNot f

theorem no_lost_update_redirector (s : Flags) (ms : List FlagMsg) (f : Flags) :
    (ms.foldl applyMsg (s.or f)).or f = ms.foldl applyMsg (s.or f) ∨ ∃ m ∈ ms, ∃ g, m = .clear g := by
  induction ms generalizing s with
  | nil => left; cases s; cases f; simp [Flags.or]
  | cons m ms ih =>
    cases m with
    | clear g => right; exact ⟨_, List.mem_cons_self, g, rfl⟩
    | set g =>
      simp only [List.foldl_cons, applyMsg]
      have e : (s.or f).or g = (s.or g).or f := by
        cases s; cases f; cases g; simp [Flags.or, Bool.or_comm, Bool.or_assoc, Bool.or_left_comm]
      rw [e]
      rcases ih (s.or g) with h | ⟨m, hm, g', hg⟩
      · exact Or.inl h
      · exact Or.inr ⟨m, List.mem_cons_of_mem _ hm, g', hg⟩

theorem updates_commute (s f g : Flags) : (s.or f).or g = (s.or g).or f := by
  cases s; cases f; cases g; simp [Flags.or, Bool.or_comm, Bool.or_assoc, Bool.or_left_comm]

/-- **C16(d)** the tag file is only ever replaced atomically: with one writer at a time (a writer
renames only after its own complete write), an observer of `status.tag` sees nothing or a completely
written message — whatever prefixes of the temp file a crash or a reader may catch -/
def writerOps (msg : List UInt8) : List (List TagOp) :=
  -- all crash points of one writer: any prefix of [write (partial steps…), complete write, rename]
  (List.range (msg.length + 1)).map (fun k => [TagOp.writeTmp msg k]) ++
  [[TagOp.writeTmp msg msg.length, TagOp.rename]]

theorem tag_atomic_single_writer (fs : TagFs) (msg : List UInt8) (ops : List TagOp) (h : ops ∈ writerOps msg) :
    (ops.foldl tagStep fs).tag = fs.tag ∨ (ops.foldl tagStep fs).tag = some msg := by
  simp only [writerOps, List.mem_append, List.mem_map, List.mem_range, List.mem_singleton] at h
  rcases h with ⟨k, _, hk⟩ | h
  · subst hk; left; rfl
  · subst h; right
    simp [tagStep, List.take_length]

/-- negative witness for the clause left partial: two writers sharing `status.tag.tmp` can publish a
torn file (W1 completes its write, W2 starts rewriting the temp file, W1 renames) -/
theorem two_writers_can_tear :
    ([TagOp.writeTmp [1, 2, 3] 3, TagOp.writeTmp [9, 9, 9, 9] 1, TagOp.rename].foldl tagStep ⟨none, none⟩).tag = some [9] := by
  decide

/-- **negative witness (F8)** the rule before the fix reported *finished* on a fresh agent (tick 0,
nothing ready, channel not latched) to a query without a positive tick; the fixed rule does not -/
theorem old_rule_unsound : reportFinishedOld 0 0 false = true ∧ reportFinishedOld 0 (-5) false = true := by decide
theorem new_rule_fresh_agent (q : Int) : reportFinished 0 q false = false := by simp [reportFinished]

/-! ### answers are consistent: while nothing is reset and no deadline passes, *finished* comes with an empty error text -/

/-- executions made of readiness reports and queries only -/
inductive ReachNR : Global → Prop where
  | init : ReachNR Global.init
  | spawnReady {g} (f : Flags) : ReachNR g → ReachNR (spawnTask g (.ready f))
  | spawnQuery {g} (q : Int) (l : Bool) : ReachNR g → ReachNR (spawnTask g (.query q l))
  | run {g} (i : Nat) : ReachNR g → ReachNR (runIdx g i)

theorem all_or (a b : Flags) (h : a.all = true) : (a.or b).all = true := by
  simp only [Flags.all, Flags.or, Bool.and_eq_true] at h ⊢
  obtain ⟨⟨h1, h2⟩, h3⟩ := h
  simp [h1, h2, h3]

/-- what a task knows is still true of the actor (flags only grow here) -/
def TaskJ (a : Actor) (t : Task) : Prop :=
  match t.kind with
  | .ready _ => t.pc = 1 → t.r.all = true → a.flags.all = true
  | .query _ l =>
      (1 ≤ t.pc → 0 < t.ft → a.flags.all = true) ∧ (t.pc ≤ 1 → t.answer = none) ∧
      (∀ ans, t.answer = some ans → ans.finished = true → l = false → ans.notReady = ⟨false, false, false⟩)
  | _ => False

structure InvJ (g : Global) : Prop where
  clockPos : 0 < g.clock
  fin : 0 < g.actor.fin → g.actor.flags.all = true
  tasks : ∀ t ∈ g.tasks, TaskJ g.actor t

theorem notReadyOf_all (f : Flags) (h : f.all = true) : notReadyOf f = ⟨false, false, false⟩ := by
  simp only [Flags.all, Bool.and_eq_true] at h
  obtain ⟨⟨h1, h2⟩, h3⟩ := h
  simp [notReadyOf, h1, h2, h3]

theorem act_J (a : Actor) (now : Int) (t : Task) (hnow : 0 < now) (hfin : 0 < a.fin → a.flags.all = true) (ht : TaskJ a t) :
    (a.flags.all = true → (act a now t).1.flags.all = true) ∧
    (0 < (act a now t).1.fin → (act a now t).1.flags.all = true) ∧
    (∀ t', (act a now t).2.1 = some t' → TaskJ (act a now t).1 t') := by
  unfold TaskJ at ht
  cases hk : t.kind with
  | ready f =>
    simp only [hk] at ht
    rcases hpc : t.pc with _ | _ | n
    · simp only [act, hk, hpc]
      refine ⟨fun h => all_or _ _ h, fun h => all_or _ _ (hfin h), ?_⟩
      intro t' ht'
      simp only [Option.some.injEq] at ht'
      subst ht'
      simp only [TaskJ, hk]
      intro _ h; exact h
    · simp only [act, hk, hpc]
      by_cases hall : t.r.all = true
      · simp only [hall, ↓reduceIte]
        exact ⟨fun h => h, fun _ => ht hpc hall, by intro t' h; cases h⟩
      · simp only [hall, Bool.false_eq_true, ↓reduceIte]
        exact ⟨fun h => h, hfin, by intro t' h; cases h⟩
    · simp only [act, hk, hpc]
      exact ⟨fun h => h, hfin, by intro t' h; cases h⟩
  | query q l =>
    simp only [hk] at ht
    rcases hpc : t.pc with _ | _ | n
    · simp only [act, hk, hpc]
      refine ⟨fun h => h, hfin, ?_⟩
      intro t' ht'
      simp only [Option.some.injEq] at ht'
      subst ht'
      simp only [TaskJ, hk]
      have hnone : t.answer = none := ht.2.1 (by omega)
      refine ⟨fun _ h => hfin h, fun _ => hnone, ?_⟩
      intro ans hans; rw [hnone] at hans; cases hans
    · simp only [act, hk, hpc]
      refine ⟨fun h => h, hfin, ?_⟩
      intro t' ht'
      simp only [Option.some.injEq] at ht'
      subst ht'
      simp only [TaskJ, hk]
      refine ⟨fun _ h => ht.1 (by omega) h, fun h => by omega, ?_⟩
      intro ans hans hfinished hl
      simp only [Option.some.injEq] at hans
      subst hans
      simp only [reportFinished, hl, Bool.or_false, Bool.and_eq_true, decide_eq_true_eq] at hfinished
      exact notReadyOf_all _ (ht.1 (by omega) hfinished.1)
    · simp only [act, hk, hpc]
      exact ⟨fun h => h, hfin, by intro t' h; cases h⟩
  | reset => simp only [hk] at ht
  | timeup => simp only [hk] at ht

theorem taskJ_mono {a a' : Actor} (h : a.flags.all = true → a'.flags.all = true) {t : Task} (ht : TaskJ a t) : TaskJ a' t := by
  unfold TaskJ at *
  cases hk : t.kind with
  | ready f => simp only [hk] at ht ⊢; exact fun h1 h2 => h (ht h1 h2)
  | query q l => simp only [hk] at ht ⊢; exact ⟨fun h1 h2 => h (ht.1 h1 h2), ht.2.1, ht.2.2⟩
  | reset => simp only [hk] at ht
  | timeup => simp only [hk] at ht

theorem invJ_reach {g : Global} (hr : ReachNR g) : InvJ g := by
  induction hr with
  | init => exact ⟨by decide, by intro h; simp [Global.init, Actor.init] at h, by intro t ht; cases ht⟩
  | spawnReady f _ ih =>
    refine ⟨ih.clockPos, ih.fin, ?_⟩
    intro t ht
    simp only [spawnTask, List.mem_append, List.mem_singleton] at ht
    rcases ht with h | h
    · exact ih.tasks t h
    · subst h; simp [TaskJ]
  | spawnQuery q l _ ih =>
    refine ⟨ih.clockPos, ih.fin, ?_⟩
    intro t ht
    simp only [spawnTask, List.mem_append, List.mem_singleton] at ht
    rcases ht with h | h
    · exact ih.tasks t h
    · subst h; simp [TaskJ]
  | @run g i _ ih =>
    unfold runIdx
    cases hti : g.tasks[i]? with
    | none => simpa [hti] using ih
    | some t =>
      simp only [hti]
      have htmem : t ∈ g.tasks := List.mem_of_getElem? hti
      obtain ⟨hmono, hfin', hnew⟩ := act_J g.actor g.clock t ih.clockPos ih.fin (ih.tasks t htmem)
      refine ⟨by have := ih.clockPos; simp only; omega, hfin', ?_⟩
      intro u hu
      simp only at hu
      cases hres : (act g.actor g.clock t).2.1 with
      | none =>
        rw [hres] at hu
        exact taskJ_mono hmono (ih.tasks u (List.mem_of_mem_eraseIdx hu))
      | some t' =>
        rw [hres] at hu
        rcases List.mem_or_eq_of_mem_set hu with h | h
        · exact taskJ_mono hmono (ih.tasks u h)
        · subst h; exact hnew _ hres

/-- **C16(e)** as long as nothing is reset and no deadline passes, an answer is consistent whatever the
interleaving of the reports with the query's own two reads: *finished* (for a channel that is not
latched) comes with an empty error text -/
theorem finished_has_empty_text {g : Global} (hr : ReachNR g) (t : Task) (ht : t ∈ g.tasks) (q : Int)
    (hk : t.kind = .query q false) (ans : Answer) (ha : t.answer = some ans) (hf : ans.finished = true) :
    ans.notReady = ⟨false, false, false⟩ := by
  have h := (invJ_reach hr).tasks t ht
  unfold TaskJ at h
  simp only [hk] at h
  exact h.2.2 ans ha hf trivial

/-- negative witness: a query that read the state BEFORE the finished tick (the two reads swapped) can answer
*finished* with a text that still names the key latch -/
def swappedQuery (flagsAtFirstRead : Flags) (finAtSecondRead : Int) (q : Int) : Bool × Flags :=
  (reportFinished finAtSecondRead q false, notReadyOf flagsAtFirstRead)
theorem swapped_reads_inconsistent :
    swappedQuery ⟨true, false, true⟩ 7 5 = (true, ⟨false, true, false⟩) := by decide

/-! non-vacuity: three readiness reports, the last one stamps, a query with an earlier tick is told finished -/
def run1 := runIdx
def spawn1 := spawnTask
def demo : Global :=
  let g := spawn1 (spawn1 (spawn1 Global.init (.ready fRedirector)) (.ready fKeyLatch)) (.ready fListener)
  let g := run1 (run1 (run1 g 0) 1) 2      -- the three updates
  let g := run1 (run1 (run1 g 0) 0) 0      -- first two have nothing to do, the third stamps
  let g := spawn1 g (.query 2 false)
  run1 (run1 g 0) 0
theorem runIdx_is_step (g : Global) (i : Nat) (t : Task) (h : g.tasks[i]? = some t) : Step g (runIdx g i) := by
  have := Step.run g i t h
  simpa [runIdx, h] using this

example : (demo.tasks.map fun t => t.answer.map (·.finished)) = [some true] := by decide
example : demo.actor.fin = 6 ∧ demo.allTimes = [3] := by decide

end Gpa.Props.C16

/-!
## "the status tag file on disk is only ever replaced atomically" — overlapping writers, at the level of inodes

Statements about `Gpa.TagInodes`: whole writers may overlap in any way (each collects its message with
awaits; another writer can run in between), their file operations cannot, because the source performs
them in one stretch without an await (fact `tagTmpThenAwait = 0`). What remains partial is unchanged:
two threads inside their stretches at the same time (`two_writers_can_tear` above).
-/
namespace Gpa.Props.C16.Inodes
open Gpa.TagInodes

/-- between two stretches -/
def Boundary (s : St) : Prop := s.tmp = none ∧ Safe s ∧ ∀ p ∈ s.frozen, p.1 < s.files.length

theorem boundary_init : Boundary St.init := by
  simp [Boundary, St.init, Safe]

theorem handleOf_cons_self (w i : Nat) (hs : List (Nat × Nat)) : handleOf ((w, i) :: hs) w = some i := by
  simp [handleOf, List.find?]

theorem overlay_nil (msg : List UInt8) : overlay msg [] = msg := by simp [overlay]

theorem getD_append_lt {α} (l x : List α) (i : Nat) (d : α) (h : i < l.length) : (l ++ x).getD i d = l.getD i d := by
  simp [List.getD, List.getElem?_append_left h]

theorem set_length_append {α} (l : List α) (a b : α) : (l ++ [a]).set l.length b = l ++ [b] := by
  induction l with
  | nil => rfl
  | cons h t ih => simp [ih]

/-- the states inside and after one stretch started at a boundary, spelled out -/
theorem stretch_states (s : St) (w : Nat) (msg : List UInt8) (h : Boundary s) :
    run s ((stretch w msg).take 1) = { s with files := s.files ++ [[]], tmp := some s.files.length, handles := (w, s.files.length) :: s.handles } ∧
    run s ((stretch w msg).take 2) = { s with files := s.files ++ [msg], tmp := some s.files.length, handles := (w, s.files.length) :: s.handles } ∧
    run s (stretch w msg) = { s with files := s.files ++ [msg], tmp := none, tag := some s.files.length,
                                     handles := (w, s.files.length) :: s.handles, frozen := (s.files.length, msg) :: s.frozen } := by
  obtain ⟨ht, _, _⟩ := h
  refine ⟨?_, ?_, ?_⟩
  · simp [run, stretch, step, ht]
  · simp [run, stretch, step, ht, handleOf_cons_self, overlay, List.getD]
  · simp [run, stretch, step, ht, handleOf_cons_self, overlay, List.getD]

theorem boundary_after_stretch (s : St) (w : Nat) (msg : List UInt8) (h : Boundary s) : Boundary (run s (stretch w msg)) := by
  have e := (stretch_states s w msg h).2.2
  obtain ⟨ht, hs, hl⟩ := h
  rw [e]
  refine ⟨rfl, ?_, ?_⟩
  · intro p hp
    simp only [List.mem_cons] at hp
    rcases hp with rfl | hp
    · simp [List.getD]
    · have := hl p hp
      simp only
      rw [getD_append_lt _ _ _ _ this]
      exact hs p hp
  · intro p hp
    simp only [List.mem_cons] at hp
    rcases hp with rfl | hp
    · simp
    · have := hl p hp
      simp only [List.length_append, List.length_cons, List.length_nil]
      omega

theorem safe_inside_stretch (s : St) (w : Nat) (msg : List UInt8) (h : Boundary s) (k : Nat) :
    Safe (run s ((stretch w msg).take k)) := by
  have hb := boundary_after_stretch s w msg h
  obtain ⟨e1, e2, _⟩ := stretch_states s w msg h
  obtain ⟨_, hs, hl⟩ := h
  match k with
  | 0 => simpa [run] using hs
  | 1 =>
    rw [e1]; intro p hp
    simp only
    rw [getD_append_lt _ _ _ _ (hl p hp)]; exact hs p hp
  | 2 =>
    rw [e2]; intro p hp
    simp only
    rw [getD_append_lt _ _ _ _ (hl p hp)]; exact hs p hp
  | k + 3 =>
    have : (stretch w msg).take (k + 3) = stretch w msg := by simp [stretch]
    rw [this]; exact hb.2.1

def opsOf (ws : List (Nat × List UInt8)) : List Op := ws.flatMap (fun p => stretch p.1 p.2)

theorem run_append (s : St) (a b : List Op) : run s (a ++ b) = run (run s a) b := by simp [run, List.foldl_append]

theorem boundary_after_all (ws : List (Nat × List UInt8)) (s : St) (h : Boundary s) : Boundary (run s (opsOf ws)) := by
  induction ws generalizing s with
  | nil => simpa [opsOf, run] using h
  | cons a t ih =>
    have : opsOf (a :: t) = stretch a.1 a.2 ++ opsOf t := by simp [opsOf]
    rw [this, run_append]
    exact ih _ (boundary_after_stretch s a.1 a.2 h)

/-- a prefix of a sequence of stretches = some whole stretches and the beginning of one more -/
theorem take_opsOf (ws : List (Nat × List UInt8)) (k : Nat) :
    ∃ ws1 w msg j, (opsOf ws).take k = opsOf ws1 ++ (stretch w msg).take j := by
  induction ws generalizing k with
  | nil => exact ⟨[], 0, [], 0, by simp [opsOf]⟩
  | cons a t ih =>
    have e : opsOf (a :: t) = stretch a.1 a.2 ++ opsOf t := by simp [opsOf]
    by_cases hk : k ≤ 3
    · refine ⟨[], a.1, a.2, k, ?_⟩
      rw [e, List.take_append]
      have : k - (stretch a.1 a.2).length = 0 := by simp [stretch]; omega
      simp [this, opsOf]
    · obtain ⟨ws1, w, msg, j, ih⟩ := ih (k - 3)
      refine ⟨a :: ws1, w, msg, j, ?_⟩
      rw [e, List.take_append]
      have l3 : (stretch a.1 a.2).length = 3 := by simp [stretch]
      have : (stretch a.1 a.2).take k = stretch a.1 a.2 := by
        apply List.take_of_length_le; omega
      rw [this, l3, ih]
      simp [opsOf]

/-- **C16 (tag file, overlapping writers)** whatever number of writers run, in whatever order their
stretches come, and wherever the execution is stopped — also in the middle of a stretch —: every file
that `status.tag` has ever named still holds exactly what it held when it was published. A reader never
finds one file with two contents. -/
theorem published_file_keeps_its_content (ws : List (Nat × List UInt8)) (k : Nat) :
    Safe (run St.init ((opsOf ws).take k)) := by
  obtain ⟨ws1, w, msg, j, e⟩ := take_opsOf ws k
  rw [e, run_append]
  exact safe_inside_stretch _ w msg (boundary_after_all ws1 _ boundary_init) j

/-- and what it names is always one writer's complete message -/
theorem tag_is_a_complete_message (ws : List (Nat × List UInt8)) (s : St) (h : Boundary s) :
    (run s (opsOf ws)).tagContent = s.tagContent ∨ ∃ p ∈ ws, (run s (opsOf ws)).tagContent = some p.2 := by
  induction ws generalizing s with
  | nil => left; simp [opsOf, run]
  | cons a t ih =>
    have e : opsOf (a :: t) = stretch a.1 a.2 ++ opsOf t := by simp [opsOf]
    rw [e, run_append]
    have hb := boundary_after_stretch s a.1 a.2 h
    rcases ih _ hb with h1 | ⟨p, hp, h1⟩
    · right
      refine ⟨a, List.mem_cons_self, ?_⟩
      rw [h1, (stretch_states s a.1 a.2 h).2.2]
      simp [St.tagContent, List.getD]
    · exact Or.inr ⟨p, List.mem_cons_of_mem _ hp, h1⟩

/-! ### the other order: the temp file opened before the awaited collection -/

/-- the deadline handler (writer 1, three lines) opens the temp file and waits for its message; the last
readiness report (writer 2, empty message) opens it too — the same inode —, writes nothing and renames;
then writer 1 writes: the published file changes under its readers -/
theorem open_before_collect_changes_a_published_file :
    ¬ Safe (run St.init [.openTmp 1, .openTmp 2, .write 2 [], .rename, .write 1 [101, 13, 10]]) := by
  decide

/-- and with two non-empty messages the published text is neither of them -/
theorem open_before_collect_can_tear :
    (run St.init [.openTmp 1, .openTmp 2, .write 1 [101, 13, 10, 107, 13, 10], .rename, .write 2 [107, 13, 10]]).tagContent
      = some [107, 13, 10, 107, 13, 10] := by
  decide

/-- the same two writers in the order of the source, overlapped as far as the source lets them (writer 2
runs while writer 1 collects), are safe: an instance of the theorem, kept as a non-vacuity check -/
example : Safe (run St.init (opsOf [(2, []), (1, [101, 13, 10])])) ∧
    (run St.init (opsOf [(2, []), (1, [101, 13, 10])])).tagContent = some [101, 13, 10] := by
  decide

/-- the tie to the source: inside `write_provision_state` nothing is awaited once the temp file's name has
been used, and the name is used and renamed there (generated facts) -/
theorem code_file_operations_are_one_stretch :
    Gpa.Facts.tagTmpThenAwait = 0 ∧ Gpa.Facts.tagTmpThenRename = 1 := by decide

end Gpa.Props.C16.Inodes
