/-
C02  RBAC decision equals the declared rule semantics, deterministically.
Only property theorems, non-vacuity examples and negative witnesses. Helper lemmas: Gpa/Lemmas/{Map,Rbac}.lean.
-/
import Gpa.Lemmas.Rbac
import Gpa.Lemmas.Case
namespace Gpa.Props.C02
open Gpa.Rbac Gpa.Text Gpa.Url

/-- **C02 main theorem**: for every rule document whose privilege, role and identity names are
pairwise distinct (dangling names, missing sections, any mode/default strings, any case allowed),
every URL and every caller, the code's decision is the property's sentence evaluated on the document. -/
theorem isAllowed_eq_spec (it : Item) (u : Uri) (cl : Claims) (hd : distinctNames it = true) :
    isAllowed (compute it) u cl = specAllowed it u cl := by
  have hg := granted_eq_spec it hd
  have hmode : (compute it).mode = parseMode it.mode := by rw [compute_eq]
  have hdef : (compute it).defaultAllowed = decide (lower it.defaultAccess = "allow".toList) := by rw [compute_eq]
  have hpriv : (compute it).privileges = (sections it).1.map fun p => (p.name, p) := by
    rw [compute_eq]
    simp only [distinctNames] at hd
    generalize sections it = s at *
    obtain ⟨ps, rs, ids, ras⟩ := s
    simp only [Bool.and_eq_true, decide_eq_true_eq] at hd
    exact Map.ofList_nodup _ (by rw [keyed_fst]; exact hd.1.1)
  simp only [isAllowed, specAllowed, hmode, hdef, hpriv]
  generalize hs : sections it = s at *
  obtain ⟨ps, rs, ids, ras⟩ := s
  simp only
  by_cases hm : parseMode it.mode = .disabled
  · simp [hm]
  · simp only [hm, ↓reduceIte, List.any_filter, List.any_map, Function.comp_def]
    have h1 : (ps.any fun p => privMatch p u && granted (compute it) p.name cl) =
        (ps.any fun p => privMatch p u && specGranted it p cl) := by
      rw [Bool.eq_iff_iff]
      simp only [List.any_eq_true, Bool.and_eq_true]
      constructor
      · rintro ⟨p, hp, h1, h2⟩; exact ⟨p, hp, h1, by rw [← hg p hp]; exact h2⟩
      · rintro ⟨p, hp, h1, h2⟩; exact ⟨p, hp, h1, by rw [hg p hp]; exact h2⟩
    have h2 : (!(List.filter (fun kv : Str × Privilege => privMatch kv.2 u) (ps.map fun p => (p.name, p))).isEmpty) =
        ps.any fun p => privMatch p u := by
      rw [Bool.eq_iff_iff]
      simp [List.filter_eq_nil_iff]
    rw [h1, h2]

/-- disabled rule sets allow everything (no hypothesis on names) -/
theorem disabled_allows (it : Item) (u : Uri) (c : Claims) (h : parseMode it.mode = .disabled) :
    specAllowed it u c = true ∧ isAllowed (compute it) u c = true := by
  have hm : (compute it).mode = .disabled := by rw [compute_eq]; exact h
  simp [specAllowed, isAllowed, h, hm]

/-- nothing matches the URL ⇒ the decision is the default access (no hypothesis on names) -/
theorem default_when_nothing_matches (it : Item) (u : Uri) (c : Claims)
    (hm : parseMode it.mode ≠ .disabled)
    (hno : ∀ kv ∈ (compute it).privileges, privMatch kv.2 u = false) :
    isAllowed (compute it) u c = (compute it).defaultAllowed := by
  have hf : (compute it).privileges.filter (fun kv => privMatch kv.2 u) = [] := by
    rw [List.filter_eq_nil_iff]; intro kv hkv; simp [hno kv hkv]
  have hmode : (compute it).mode ≠ .disabled := by rw [compute_eq]; exact hm
  simp [isAllowed, hmode, hf]

/-- some privilege matches the URL but none that matches is granted to the caller ⇒ deny,
whatever the default access -/
theorem deny_when_matched_but_ungranted (it : Item) (u : Uri) (c : Claims)
    (hm : parseMode it.mode ≠ .disabled)
    (hsome : ∃ kv ∈ (compute it).privileges, privMatch kv.2 u = true)
    (hnone : ∀ kv ∈ (compute it).privileges, privMatch kv.2 u = true → granted (compute it) kv.2.name c = false) :
    isAllowed (compute it) u c = false := by
  have hmode : (compute it).mode ≠ .disabled := by rw [compute_eq]; exact hm
  obtain ⟨kv, hkv, hmatch⟩ := hsome
  have h1 : ((compute it).privileges.filter (fun kv => privMatch kv.2 u)).any
      (fun kv => granted (compute it) kv.2.name c) = false := by
    rw [List.any_eq_false]
    intro x hx
    rw [List.mem_filter] at hx
    simp [hnone x hx.1 hx.2]
  have h2 : ((compute it).privileges.filter (fun kv => privMatch kv.2 u)).isEmpty = false := by
    rw [Bool.eq_false_iff]; intro he
    rw [List.isEmpty_iff] at he
    have : kv ∈ (compute it).privileges.filter (fun kv => privMatch kv.2 u) := List.mem_filter.mpr ⟨hkv, hmatch⟩
    rw [he] at this; cases this
  simp [isAllowed, hmode, h1, h2]

/-! ### order independence -/

theorem any_perm {α} {l l' : List α} (h : l.Perm l') (p : α → Bool) : l.any p = l'.any p := by
  rw [Bool.eq_iff_iff]; simp only [List.any_eq_true]
  constructor
  · rintro ⟨x, hx, hp⟩; exact ⟨x, h.mem_iff.mp hx, hp⟩
  · rintro ⟨x, hx, hp⟩; exact ⟨x, h.mem_iff.mpr hx, hp⟩

/-- the declared semantics does not depend on the order in which privileges, roles, identities
or role assignments are listed -/
theorem spec_perm (it it' : Item) (u : Uri) (c : Claims)
    (hmode : it'.mode = it.mode) (hdef : it'.defaultAccess = it.defaultAccess)
    (hp : (sections it).1.Perm (sections it').1) (hr : (sections it).2.1.Perm (sections it').2.1)
    (hi : (sections it).2.2.1.Perm (sections it').2.2.1) (ha : (sections it).2.2.2.Perm (sections it').2.2.2) :
    specAllowed it' u c = specAllowed it u c := by
  have hg : ∀ p, specGranted it' p c = specGranted it p c := by
    intro p
    simp only [specGranted]
    generalize sections it = s at *
    generalize sections it' = s' at *
    obtain ⟨ps, rs, ids, ras⟩ := s
    obtain ⟨ps', rs', ids', ras'⟩ := s'
    simp only at hp hr hi ha ⊢
    rw [any_perm ha.symm]
    congr 1; funext a
    rw [any_perm hr.symm]
    congr 1; funext r
    congr 1
    congr 1; funext n
    rw [any_perm hi.symm]
  simp only [specAllowed, hmode, hdef]
  generalize sections it = s at *
  generalize sections it' = s' at *
  obtain ⟨ps, rs, ids, ras⟩ := s
  obtain ⟨ps', rs', ids', ras'⟩ := s'
  simp only at hp ⊢
  simp only [hg]
  rw [any_perm hp.symm, any_perm hp.symm (fun p => privMatch p u)]

theorem nodup_perm {α} [DecidableEq α] {l l' : List α} (h : l.Perm l') : l.Nodup → l'.Nodup :=
  fun hn => h.nodup_iff.mp hn

/-- **order independence of the code's decision** for documents with distinct names: permuting
privileges, roles, identities and role assignments leaves the decision unchanged. -/
theorem isAllowed_perm (it it' : Item) (u : Uri) (c : Claims) (hd : distinctNames it = true)
    (hmode : it'.mode = it.mode) (hdef : it'.defaultAccess = it.defaultAccess)
    (hp : (sections it).1.Perm (sections it').1) (hr : (sections it).2.1.Perm (sections it').2.1)
    (hi : (sections it).2.2.1.Perm (sections it').2.2.1) (ha : (sections it).2.2.2.Perm (sections it').2.2.2) :
    isAllowed (compute it') u c = isAllowed (compute it) u c := by
  have hd' : distinctNames it' = true := by
    simp only [distinctNames] at hd ⊢
    generalize sections it = s at *
    generalize sections it' = s' at *
    obtain ⟨ps, rs, ids, ras⟩ := s
    obtain ⟨ps', rs', ids', ras'⟩ := s'
    simp only [Bool.and_eq_true, decide_eq_true_eq] at hd ⊢
    exact ⟨⟨nodup_perm (hp.map _) hd.1.1, nodup_perm (hr.map _) hd.1.2⟩, nodup_perm (hi.map _) hd.2⟩
  rw [isAllowed_eq_spec it' u c hd', isAllowed_eq_spec it u c hd, spec_perm it it' u c hmode hdef hp hr hi ha]

/-- hash-iteration order: the decision depends on the computed privilege map only as a multiset -/
theorem isAllowed_iteration_order (c c' : Computed) (u : Uri) (cl : Claims)
    (h : c.privileges.Perm c'.privileges) (hm : c'.mode = c.mode) (hdf : c'.defaultAllowed = c.defaultAllowed)
    (ha : c'.assignments = c.assignments) (hi : c'.identities = c.identities) :
    isAllowed c' u cl = isAllowed c u cl := by
  have hg : ∀ pn, granted c' pn cl = granted c pn cl := by intro pn; simp [granted, ha, hi]
  have hf := h.filter (fun kv => privMatch kv.2 u)
  simp only [isAllowed, hm, hdf, hg]
  rw [any_perm hf.symm]
  have : (c'.privileges.filter fun kv => privMatch kv.2 u).isEmpty = (c.privileges.filter fun kv => privMatch kv.2 u).isEmpty := by
    rw [Bool.eq_iff_iff, List.isEmpty_iff, List.isEmpty_iff]
    constructor
    · intro e; rw [e] at hf; exact hf.eq_nil
    · intro e; rw [e] at hf; exact hf.symm.eq_nil
  rw [this]

/-! ### letter case -/

/-- the rule's path enters the match only through its lower-cased form … -/
theorem privMatch_rule_path_case (p : Privilege) (path' : Str) (u : Uri) (h : lower path' = lower p.path) :
    privMatch { p with path := path' } u = privMatch p u := by
  simp [privMatch, h]

/-- in particular a rule written in any letter case decides like the same rule written in lower case -/
theorem privMatch_rule_path_lowered (p : Privilege) (u : Uri) :
    privMatch { p with path := lower p.path } u = privMatch p u :=
  privMatch_rule_path_case p (lower p.path) u (lower_idem _)

/-- … and so does the request's path -/
theorem privMatch_request_path_case (p : Privilege) (u : Uri) (path' : Str) (h : lower path' = lower u.path) :
    privMatch p { u with path := path' } = privMatch p u := by
  simp [privMatch, h, queryPairs]

theorem privMatch_request_path_lowered (p : Privilege) (u : Uri) :
    privMatch p { u with path := lower u.path } = privMatch p u :=
  privMatch_request_path_case p u (lower u.path) (lower_idem _)

/-- rule query keys and values enter only through their lower-cased forms -/
theorem privMatch_rule_query_case (p : Privilege) (qs : List (Str × Str)) (fk fv : Str → Str) (u : Uri)
    (hq : p.query = some qs) (hk : ∀ s, lower (fk s) = lower s) (hv : ∀ s, lower (fv s) = lower s) :
    privMatch { p with query := some (qs.map fun kv => (fk kv.1, fv kv.2)) } u = privMatch p u := by
  simp [privMatch, hq, List.all_map, Function.comp_def, hk, hv]

/-! ### non-vacuity and witnesses -/

def exItem (rulePath : String) : Item :=
  { defaultAccess := "allow".toList, mode := "enforce".toList,
    rules := some { privileges := some [{ name := "p1".toList, path := rulePath.toList, query := none }],
                    roles := some [{ name := "r1".toList, privileges := ["p1".toList] }],
                    identities := some [{ name := "i1".toList, userName := some "bob".toList, groupName := none, exePath := none, processName := none }],
                    roleAssignments := some [{ role := "r1".toList, identities := ["i1".toList] }] } }
def alice : Claims := { userName := "alice".toList, groups := [], processName := "curl".toList, exePath := "/usr/bin/curl".toList }
def bob : Claims := { alice with userName := "bob".toList }
def exUri : Uri := { path := "/metadata/instance".toList, query := none }

example : distinctNames (exItem "/Metadata") = true := by decide
example : isAllowed (compute (exItem "/Metadata")) exUri alice = false := by decide
example : isAllowed (compute (exItem "/Metadata")) exUri bob = true := by decide
example : isAllowed (compute (exItem "/other")) exUri alice = true := by decide

/-- negative witness (F2): without the distinct-names hypothesis the decision depends on the
order of the privilege list — two privileges share the name `p1`. -/
def dupRules (ps : List Privilege) : Rules :=
  { privileges := some ps,
    roles := some [{ name := "r1".toList, privileges := ["p1".toList] }],
    identities := some [{ name := "i1".toList, userName := some "bob".toList, groupName := none, exePath := none, processName := none }],
    roleAssignments := some [{ role := "r1".toList, identities := ["i1".toList] }] }
def dupItem (ps : List Privilege) : Item :=
  { defaultAccess := "allow".toList, mode := "enforce".toList, rules := some (dupRules ps) }
def pa : Privilege := { name := "p1".toList, path := "/secret".toList, query := none }
def pb : Privilege := { name := "p1".toList, path := "/other".toList, query := none }
theorem duplicate_names_order_dependent :
    isAllowed (compute (dupItem [pa, pb])) { path := "/secret".toList, query := none } alice ≠
    isAllowed (compute (dupItem [pb, pa])) { path := "/secret".toList, query := none } alice := by decide

end Gpa.Props.C02
