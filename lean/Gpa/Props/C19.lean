/-
C19  Disk usage by logs, events and rule dumps stays within configured bounds.
-/
import Gpa.Model.Logs
namespace Gpa.Props.C19
open Gpa.Logs

theorem removeLoop_eq_drop (fileCount count : Nat) (files : List Nat) (h : count ≤ fileCount) :
    removeLoop fileCount count files = files.drop (fileCount - count + 1) := by
  induction files generalizing count with
  | nil => simp [removeLoop]
  | cons f rest ih =>
    simp only [removeLoop]
    by_cases hc : count + 1 > fileCount
    · have : fileCount - count + 1 = 1 := by omega
      simp [hc, this]
    · rw [if_neg hc, ih (count + 1) (by omega)]
      have : fileCount - count + 1 = (fileCount - (count + 1) + 1) + 1 := by omega
      rw [this, List.drop_succ_cons]

/-- pruning removes a *prefix* (the oldest files) and leaves fewer than `maxCount` files -/
theorem prune_spec (maxCount : Nat) (files : List Nat) (hm : 1 ≤ maxCount) :
    (∃ k, prune maxCount files = files.drop k) ∧ (prune maxCount files).length < maxCount ∨
    (prune maxCount files = files ∧ files.length < maxCount) := by
  unfold prune
  by_cases h : files.length ≥ maxCount
  · left
    rw [if_pos h, removeLoop_eq_drop _ _ _ h]
    exact ⟨⟨_, rfl⟩, by rw [List.length_drop]; omega⟩
  · right
    rw [if_neg h]; exact ⟨rfl, by omega⟩

theorem prune_length_lt (maxCount : Nat) (files : List Nat) (hm : 1 ≤ maxCount) :
    (prune maxCount files).length < maxCount := by
  rcases prune_spec maxCount files hm with ⟨_, h⟩ | ⟨h1, h2⟩
  · exact h
  · rw [h1]; exact h2

/-- **C19(d)** the oldest files go first: what is kept is a suffix of the (oldest-first) list -/
theorem oldest_removed_first (maxCount : Nat) (files : List Nat) (hm : 1 ≤ maxCount) :
    ∃ k, prune maxCount files = files.drop k := by
  rcases prune_spec maxCount files hm with ⟨h, _⟩ | ⟨h1, _⟩
  · exact h
  · exact ⟨0, by simpa using h1⟩

/-- invariant of a rolling log's directory: fewer archives than the configured count (so that,
with the current file, at most `maxCount` files exist). It holds for the empty directory and —
being preserved by every write — for whatever an earlier run with the same settings left. -/
def Inv (cfg : Settings) (s : Rolling) : Prop := s.archives.length < cfg.maxCount

theorem inv_empty (cfg : Settings) (hm : 1 ≤ cfg.maxCount) : Inv cfg { cur := none, archives := [] } := by
  simp [Inv]; omega

theorem rollIfNeeded_inv (cfg : Settings) (s : Rolling) (hm : 1 ≤ cfg.maxCount) (h : Inv cfg s) :
    Inv cfg (rollIfNeeded cfg s) := by
  unfold rollIfNeeded Inv at *
  simp only
  split
  · exact prune_length_lt _ _ hm
  · exact h

theorem rollIfNeeded_size (cfg : Settings) (s : Rolling) (hs : 1 ≤ cfg.maxSize) :
    (rollIfNeeded cfg s).cur.getD 0 < cfg.maxSize := by
  unfold rollIfNeeded
  simp only
  split
  · simp; omega
  · simp; omega

theorem write_inv (cfg : Settings) (s : Rolling) (bytes : Nat) (hm : 1 ≤ cfg.maxCount) (h : Inv cfg s) :
    Inv cfg (write cfg s bytes) := by
  have := rollIfNeeded_inv cfg s hm h
  simpa [write, Inv] using this

/-- **C19(a)** after any sequence of writes of any sizes, starting from an empty directory or from
the files an earlier run with the same settings left, the number of files kept for the log never
exceeds its configured count -/
theorem files_le_count (cfg : Settings) (s : Rolling) (ws : List Nat) (hm : 1 ≤ cfg.maxCount) (h : Inv cfg s) :
    Inv cfg (ws.foldl (write cfg) s) ∧ fileCount (ws.foldl (write cfg) s) ≤ cfg.maxCount := by
  have hinv : Inv cfg (ws.foldl (write cfg) s) := by
    induction ws generalizing s with
    | nil => exact h
    | cons w ws ih => exact ih _ (write_inv cfg s w hm h)
  refine ⟨hinv, ?_⟩
  unfold fileCount Inv at *
  split <;> omega

/-- **C19(b)** no log file grows beyond its size limit by more than one write: right after a write
of `bytes` bytes the current file is smaller than `maxSize + bytes`, and archived files keep the size
they had when they were rolled -/
theorem size_lt_max_plus_last_write (cfg : Settings) (s : Rolling) (bytes : Nat) (hs : 1 ≤ cfg.maxSize) :
    (write cfg s bytes).cur.getD 0 < cfg.maxSize + bytes := by
  have := rollIfNeeded_size cfg s hs
  simp only [write, Option.getD_some]
  omega

/-- every archived file was, when archived, a current file — so it too is below `maxSize + (its last write)`;
stated as: a roll moves exactly the current size into the archive list -/
theorem archive_is_old_current (cfg : Settings) (s : Rolling) (h : s.cur.getD 0 ≥ cfg.maxSize) (hm : 1 ≤ cfg.maxCount) :
    ∃ k, (rollIfNeeded cfg s).archives = (s.archives ++ [s.cur.getD 0]).drop k := by
  unfold rollIfNeeded
  simp only [h, ge_iff_le, ↓reduceIte]
  exact oldest_removed_first _ _ hm

/-- **C19(c)** the event directory never holds more files than its cap: flushes add a file only
below the cap (new events are dropped otherwise), the reader only removes files -/
inductive EvOp where
  | flush | readerRemoves (k : Nat)

def evStep (cap : Nat) (n : Nat) : EvOp → Nat
  | .flush => flushEvents cap n
  | .readerRemoves k => n - k

theorem events_le_cap (cap : Nat) (n : Nat) (ops : List EvOp) (h : n ≤ cap) : ops.foldl (evStep cap) n ≤ cap := by
  induction ops generalizing n with
  | nil => exact h
  | cons op ops ih =>
    apply ih
    cases op with
    | flush => simp only [evStep, flushEvents]; split <;> omega
    | readerRemoves k => simp only [evStep]; omega

/-- **C19(e)** at most the configured number of rule dumps is kept, the oldest being removed first -/
theorem dumps_le_max (maxCount : Nat) (dumps : List Nat) (ids : List Nat) (hm : 1 ≤ maxCount) :
    (ids.foldl (writeDump maxCount) dumps).length ≤ maxCount ∨ ids = [] := by
  cases ids with
  | nil => right; rfl
  | cons i rest =>
    left
    have step : ∀ d j, (writeDump maxCount d j).length ≤ maxCount := by
      intro d j
      have := prune_length_lt maxCount d hm
      simp only [writeDump, List.length_append, List.length_singleton]; omega
    have : ∀ (l : List Nat) (d : List Nat), d.length ≤ maxCount → (l.foldl (writeDump maxCount) d).length ≤ maxCount := by
      intro l
      induction l with
      | nil => intro d hd; exact hd
      | cons j l ih => intro d _; exact ih _ (step d j)
    exact this rest _ (step dumps i)

/-- **C19(e), at every moment** a directory within its limit stays within it through every intermediate listing of a
`write_all` (what a concurrent reader, or a crash between two of its file operations, finds); one that starts above the
limit (the setting was lowered) never grows -/
theorem dump_peak_le_max (maxCount : Nat) (dumps : List Nat) (newId : Nat) (hm : 1 ≤ maxCount) :
    ∀ l ∈ dumpTrace maxCount dumps newId, l.length ≤ max dumps.length maxCount := by
  intro l hl
  simp only [dumpTrace, List.mem_append, List.mem_map, List.mem_range, List.mem_singleton] at hl
  rcases hl with ⟨j, _, rfl⟩ | rfl
  · simp only [List.length_drop]; omega
  · have := prune_length_lt maxCount dumps hm
    simp only [List.length_append, List.length_singleton]; omega

/-- the last listing of the trace is what `writeDump` leaves -/
theorem dumpTrace_ends_in_writeDump (maxCount : Nat) (dumps : List Nat) (newId : Nat) :
    (dumpTrace maxCount dumps newId).getLast? = some (writeDump maxCount dumps newId) := by
  simp [dumpTrace, writeDump]

/-- negative witness: writing the new dump first and pruning afterwards passes through one dump too many -/
theorem write_then_prune_exceeds : ([1, 2] ++ [3] : List Nat).length > 2 ∧
    ∀ l ∈ dumpTrace 2 [1, 2] 3, l.length ≤ 2 := by decide

theorem dump_removes_oldest (maxCount : Nat) (dumps : List Nat) (newId : Nat) (hm : 1 ≤ maxCount) :
    ∃ k, writeDump maxCount dumps newId = dumps.drop k ++ [newId] := by
  obtain ⟨k, hk⟩ := oldest_removed_first maxCount dumps hm
  exact ⟨k, by rw [writeDump, hk]⟩

/-! non-vacuity: a directory at the limit rolls and stays at the limit -/
example : fileCount (write ⟨10, 3⟩ ⟨some 12, [10, 11]⟩ 5) = 3 := by decide
example : (write ⟨10, 3⟩ ⟨some 12, [10, 11]⟩ 5) = ⟨some 5, [11, 12]⟩ := by decide
example : writeDump 3 [1, 2, 3] 4 = [2, 3, 4] := by decide

end Gpa.Props.C19
