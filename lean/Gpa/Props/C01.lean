/-
C01  Complete mediation: only attributed, authorized requests reach a metadata host.
Theorems about `Gpa.Pipeline.handle`, universally quantified over the MAC function, environment
(rules per endpoint in any mode/default, or unavailable; key or none), connection context, and the
request (method, URL, headers, body, declared length).
-/
import Gpa.Lemmas.Pipeline
import Gpa.Props.C02
namespace Gpa.Props.C01
open Gpa.Pipeline Gpa.Rbac Gpa.Text Gpa.Url Gpa.Canon

variable (mac : Str → List UInt8 → Str)

def isForward : Outcome → Bool
  | .forward _ => true
  | _ => false

/-- **C01(a)** a request is relayed only if its connection carries a destination and a caller
(i.e. the kernel hook attributed it), the path has no `..`, the rules could be read, and the
authorizer selected by the original destination did not say Forbidden. -/
theorem forward_only_if_attributed_and_authorized (env : Env) (conn : Conn) (r : Req) (u : UpReq)
    (h : (handle mac env conn r).outcome = .forward u) :
    ∃ ip port caller rules,
      conn.dest = some (ip, port) ∧ conn.caller = some caller ∧
      containsSub r.uri.path ['.', '.'] = false ∧
      rulesFor (endpointOf ip port) env = .ok rules ∧
      authorize (endpointOf ip port) caller r.uri rules ≠ .forbidden := by
  obtain ⟨ip, port, caller, rules, hd, hc, ht, _, _, hr, hf, _⟩ := handle_forward mac env conn r u h
  exact ⟨ip, port, caller, rules, hd, hc, ht, hr, hf⟩

/-- **C01(b)** a connection made directly to the listener (no attribution record) is never
relayed, whatever the request and whatever the policy. -/
theorem direct_connection_never_forwarded (env : Env) (r : Req) :
    isForward (handle mac env Conn.unattributed r).outcome = false := by
  cases hf : (handle mac env Conn.unattributed r).outcome with
  | forward u =>
    obtain ⟨ip, port, _, _, hd, _⟩ := forward_only_if_attributed_and_authorized mac env _ r u hf
    simp [Conn.unattributed] at hd
  | _ => rfl

/-- the status of each refusal, in source order; `Outcome.respond` carries no upstream request,
so nothing is sent upstream in any of them -/
theorem refusal_traversal (env : Env) (conn : Conn) (r : Req)
    (hl : ¬ (r.declared.getD 0) > limitFor r) (h : containsSub r.uri.path ['.', '.'] = true) :
    (handle mac env conn r).outcome = .respond 404 := by
  unfold handle; rw [if_neg hl, if_pos h]

theorem refusal_no_destination (env : Env) (conn : Conn) (r : Req)
    (hl : ¬ (r.declared.getD 0) > limitFor r) (ht : containsSub r.uri.path ['.', '.'] = false)
    (hp : r.uri.toStr ≠ provisionUrl) (h : conn.dest = none) :
    (handle mac env conn r).outcome = .respond 421 := by
  rw [handle_eq_connStage mac env conn r hl ht hp]; unfold connStage; rw [h]

theorem refusal_no_claims (env : Env) (conn : Conn) (r : Req) (d : Str × Nat)
    (hl : ¬ (r.declared.getD 0) > limitFor r) (ht : containsSub r.uri.path ['.', '.'] = false)
    (hp : r.uri.toStr ≠ provisionUrl) (hd : conn.dest = some d) (h : conn.caller = none) :
    (handle mac env conn r).outcome = .respond 421 := by
  obtain ⟨ip, port⟩ := d
  rw [handle_eq_connStage mac env conn r hl ht hp]; unfold connStage; rw [hd, h]

theorem refusal_rules_unavailable (env : Env) (conn : Conn) (r : Req) (ip : Str) (port : Nat) (c : Caller)
    (hl : ¬ (r.declared.getD 0) > limitFor r) (ht : containsSub r.uri.path ['.', '.'] = false)
    (hp : r.uri.toStr ≠ provisionUrl) (hd : conn.dest = some (ip, port)) (hc : conn.caller = some c)
    (h : rulesFor (endpointOf ip port) env = .err) :
    (handle mac env conn r).outcome = .respond 500 := by
  rw [handle_eq_connStage mac env conn r hl ht hp, connStage_attributed mac env conn r ip port c hd hc,
    authStage_err mac env r ip port c h]

theorem refusal_forbidden (env : Env) (conn : Conn) (r : Req) (ip : Str) (port : Nat) (c : Caller) (rules)
    (hl : ¬ (r.declared.getD 0) > limitFor r) (ht : containsSub r.uri.path ['.', '.'] = false)
    (hp : r.uri.toStr ≠ provisionUrl) (hd : conn.dest = some (ip, port)) (hc : conn.caller = some c)
    (hr : rulesFor (endpointOf ip port) env = .ok rules)
    (h : authorize (endpointOf ip port) c r.uri rules = .forbidden) :
    (handle mac env conn r).outcome = .respond 403 := by
  rw [handle_eq_connStage mac env conn r hl ht hp, connStage_attributed mac env conn r ip port c hd hc,
    authStage_forbidden mac env r ip port c rules hr h]

/-- rule decision vs. the declared semantics -/
theorem rulesDecision_not_forbidden (rules : Option Item) (u : Uri) (c : Claims)
    (hd : ∀ it, rules = some it → distinctNames it = true)
    (h : rulesDecision rules u c ≠ .forbidden) : rulesPermit rules u c = true := by
  cases rules with
  | none => simp [rulesPermit]
  | some it =>
    have hspec := Gpa.Props.C02.isAllowed_eq_spec it u c (hd it rfl)
    have hmode : (compute it).mode = parseMode it.mode := by rw [compute_eq]
    simp only [rulesDecision] at h
    simp only [rulesPermit, Bool.or_eq_true, decide_eq_true_eq]
    by_cases ha : isAllowed (compute it) u c = true
    · left; rw [← hspec]; exact ha
    · simp only [ha, Bool.false_eq_true, ↓reduceIte] at h
      by_cases hm : (compute it).mode = .audit
      · right; rw [← hmode]; exact hm
      · simp [hm] at h

/-- **C01(c)** in the property's own words: whenever a request is relayed, the connection was
attributed, the path has no `..`, and the access policy in force (declared rule semantics of C02;
root-only endpoints; never the proxy itself) authorizes that caller for that URL — for every rule
set with distinct names in any mode and with any default access. -/
theorem forward_implies_policy_authorizes (env : Env) (conn : Conn) (r : Req) (u : UpReq)
    (hd : ∀ ep it, rulesFor ep env = .ok (some it) → distinctNames it = true)
    (h : (handle mac env conn r).outcome = .forward u) :
    specMayRelay env conn r = true := by
  obtain ⟨ip, port, caller, rules, hdest, hcaller, htrav, hrules, hauth⟩ :=
    forward_only_if_attributed_and_authorized mac env conn r u h
  have hdr : ∀ it, rules = some it → distinctNames it = true := by
    intro it hit; subst hit; exact hd _ it hrules
  simp only [specMayRelay, hdest, hcaller, htrav, Bool.not_false, Bool.true_and]
  cases hep : endpointOf ip port <;> simp only [hep] at hrules hauth <;> simp only [hrules]
  · -- wireServer
    simp only [authorize] at hauth
    by_cases he : caller.elevated = true
    · simp only [he, Bool.not_true, Bool.false_eq_true, ↓reduceIte] at hauth
      simp [he, rulesDecision_not_forbidden rules r.uri caller.claims hdr hauth]
    · simp [he] at hauth
  · -- gaPlugin
    simp only [authorize] at hauth
    by_cases he : caller.elevated = true
    · simp only [he, Bool.not_true, Bool.false_eq_true, ↓reduceIte] at hauth
      simp [he, rulesDecision_not_forbidden rules r.uri caller.claims hdr hauth]
    · simp [he] at hauth
  · -- imds
    simp only [authorize] at hauth
    exact rulesDecision_not_forbidden rules r.uri caller.claims hdr hauth
  · -- proxySelf
    simp [authorize] at hauth

/-! ### non-vacuity -/
def noRulesEnv : Env := { ws := .ok none, imds := .ok none, hostga := .ok none, key := none, now := [] }
def rootCaller : Caller := { claims := Gpa.Props.C02.alice, elevated := true }
def imdsConn : Conn := { caller := some rootCaller, dest := some ("169.254.169.254".toList, 80) }
def getReq : Req := { method := "GET".toList, uri := { path := "/metadata/instance".toList, query := none },
                      headers := [], body := [], declared := none }
example : isForward (handle (fun _ _ => []) noRulesEnv imdsConn getReq).outcome = true := by decide
example : (handle (fun _ _ => []) noRulesEnv Conn.unattributed getReq).outcome = .respond 421 := by
  apply refusal_no_destination <;> decide
example : (handle (fun _ _ => []) noRulesEnv imdsConn { getReq with uri := { path := "/a/../b".toList, query := none } }).outcome
    = .respond 404 := by
  apply refusal_traversal <;> decide

end Gpa.Props.C01
