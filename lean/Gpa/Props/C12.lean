/-
C12  The latched key value never leaves the key store.
-/
import Gpa.Model.Secrets
namespace Gpa.Props.C12
open Gpa.Secrets

/-- obligation on the source: both error texts withhold their input -/
theorem code_withholds : codeVariant = { withholdHexKey := true, withholdBody := true } := by decide

/-- obligation on the source: the key document has no text form (`Debug`/`Display`) a format string could use -/
theorem key_has_no_text_form : Gpa.Facts.keyStructDerivesDebug = 0 ∧ Gpa.Facts.keyStructImplsDisplay = 0 := by decide

/-- obligation on the source: the key directory is made root-only, mode 0700 -/
theorem key_dir_mode : Gpa.Facts.keyDirMode = 0o700 := by decide

def fixed : Variant := { withholdHexKey := true, withholdBody := true }

/-! ### texts -/

theorem leaks_append (a b : Text) : leaks (a ++ b) = (leaks a || leaks b) := by
  simp [leaks, List.any_append]

/-- truncation (event messages, status messages) can only remove pieces -/
theorem leaks_take (t : Text) (n : Nat) (h : leaks t = false) : leaks (t.take n) = false := by
  unfold leaks at *
  rw [List.any_eq_false] at *
  intro x hx
  exact h x (List.mem_of_mem_take hx)

/-- all emissions outside the key file are free of key material -/
def Clean (es : List Emit) : Prop := ∀ e ∈ es, e.sink ≠ .keyFile → leaks e.text = false

theorem Clean.nil : Clean [] := by intro e he; cases he
theorem Clean.append {a b : List Emit} (ha : Clean a) (hb : Clean b) : Clean (a ++ b) := by
  intro e he
  rcases List.mem_append.mp he with h | h
  · exact ha e h
  · exact hb e h
theorem Clean.cons {e : Emit} {es : List Emit} (he : e.sink ≠ .keyFile → leaks e.text = false) (hs : Clean es) :
    Clean (e :: es) := by
  intro x hx
  rcases List.mem_cons.mp hx with h | h
  · subst h; exact he
  · exact hs x h

theorem clean_logAgent (lvl : Level) (tid : String) (t : Text) (h : leaks t = false) : Clean (logAgent lvl tid t) := by
  unfold logAgent
  split
  · exact Clean.cons (fun _ => h) Clean.nil
  · exact Clean.cons (fun _ => h) (Clean.cons (fun _ => h) Clean.nil)

theorem clean_writeEvent (tid : String) (t : Text) (h : leaks t = false) : Clean (writeEvent tid t) :=
  Clean.cons (fun _ => h) (Clean.cons (fun _ => h) Clean.nil)

theorem clean_startupEvent (tid : String) (t : Text) (h : leaks t = false) : Clean (startupEvent tid t) :=
  Clean.append (clean_writeEvent tid t h) (Clean.cons (fun _ => h) Clean.nil)

/-- the state invariant: the stored status message holds no key material -/
def Inv (st : St) : Prop := leaks st.statusMsg = false

theorem setStatus_spec (st : St) (tid : String) (t : Text) (b : Bool) (hi : Inv st) (ht : leaks t = false) :
    Inv (setStatus st tid t b).1 ∧ Clean (setStatus st tid t b).2 ∧
    (setStatus st tid t b).1.cur = st.cur ∧ (setStatus st tid t b).1.files = st.files ∧
    (setStatus st tid t b).1.started = st.started := by
  unfold setStatus
  split
  · refine ⟨hi, ?_, rfl, rfl, rfl⟩
    split
    · exact clean_logAgent _ _ _ ht
    · exact Clean.nil
  · exact ⟨ht, Clean.cons (fun _ => ht) (clean_writeEvent _ _ ht), rfl, rfl, rfl⟩

theorem hexErr_clean (k : KeyVal) : leaks (hexErrText fixed k) = false := by
  simp [hexErrText, fixed, leaks, isSecret]

theorem acquireErr_clean (a : AcquireIn) : leaks (acquireErrText fixed a) = false := by
  cases a <;> simp [acquireErrText, fixed, leaks, isSecret]

theorem latch_spec (st : St) (k : KeyVal) (tid : String) (t : Text) (hi : Inv st) (ht : leaks t = false) :
    Inv (latch st k tid t).1 ∧ Clean (latch st k tid t).2 := by
  unfold latch
  have h := setStatus_spec { st with cur := some k } tid t false hi ht
  exact ⟨h.1, Clean.append (clean_startupEvent _ _ ht) h.2.1⟩

theorem finishPoll_spec (st : St) (state : String) (hi : Inv st) :
    Inv (finishPoll st state).1 ∧ Clean (finishPoll st state).2 := by
  unfold finishPoll
  split
  · exact ⟨hi, Clean.nil⟩
  · split
    · have ht : leaks [Piece.lit "Customer has not enforce the secure channel state."] = false := by decide
      have h := setStatus_spec { st with chan := state } "not-enforced" _ false hi ht
      exact ⟨h.1, Clean.append (clean_startupEvent _ _ ht) h.2.1⟩
    · exact ⟨hi, Clean.nil⟩

theorem lit_clean (s : String) : leaks [Piece.lit s] = false := by simp [leaks, isSecret]

theorem fetchFailed_clean (g : Option Nat) : Clean (fetchFailed g) := by
  cases g with
  | none => exact Clean.nil
  | some g => exact clean_writeEvent _ _ (by simp [leaks, isSecret])

theorem attestStage_spec (st : St) (k : KeyVal) (a : AttestIn) (hi : Inv st) :
    Inv (attestStage fixed st k a).1 ∧ Clean (attestStage fixed st k a).2.2 := by
  have hreq : (⟨.hostReq, "attest", [.guid k.id, .mac k.id]⟩ : Emit).sink ≠ .keyFile →
      leaks (⟨.hostReq, "attest", [.guid k.id, .mac k.id]⟩ : Emit).text = false := fun _ => by simp [leaks, isSecret]
  unfold attestStage
  split
  · refine ⟨hi, clean_logAgent _ _ _ ?_⟩
    rw [leaks_append, hexErr_clean]; simp [leaks, isSecret]
  · split
    · have h := latch_spec st k "attested" [.lit "Successfully attest the key and ready to use."] hi (lit_clean _)
      exact ⟨h.1, Clean.cons hreq h.2⟩
    · exact ⟨hi, Clean.cons hreq (clean_logAgent _ _ _ (lit_clean _))⟩
    · exact ⟨hi, Clean.cons hreq (clean_logAgent _ _ _ (by simp [leaks, isSecret]))⟩

theorem storeEmits_clean (k : KeyVal) : Clean (storeEmits k) :=
  Clean.cons (fun h => absurd rfl h) (clean_logAgent _ _ _ (by simp [leaks, isSecret]))

theorem acquireStage_spec (st : St) (acq : AcquireIn) (so : Bool) (att : AttestIn) (hi : Inv st) :
    Inv (acquireStage fixed st acq so att).1 ∧ Clean (acquireStage fixed st acq so att).2.2.1 := by
  have hfail : ∀ other : AcquireIn,
      Inv (setStatus st "acquire-failed" ([Piece.lit "Failed to acquire key details: "] ++ acquireErrText fixed other) true).1 ∧
      Clean (setStatus st "acquire-failed" ([Piece.lit "Failed to acquire key details: "] ++ acquireErrText fixed other) true).2 := by
    intro other
    have ht : leaks ([Piece.lit "Failed to acquire key details: "] ++ acquireErrText fixed other) = false := by
      rw [leaks_append, acquireErr_clean]; simp [leaks, isSecret]
    have h := setStatus_spec st "acquire-failed" _ true hi ht
    exact ⟨h.1, h.2.1⟩
  cases acq with
  | key k =>
    simp only [acquireStage]
    split
    · have h := setStatus_spec st "store-failed" _ true hi (by simp [leaks, isSecret] : leaks [Piece.lit "Failed to save key details to file: Key(StoreLocalKey(json_write_to_file '", .guid k.id, .lit ".key' failed ..))"] = false)
      exact ⟨h.1, h.2.1⟩
    · have hi1 : Inv { st with files := k :: st.files.filter fun f => f.id ≠ k.id } := hi
      have h := attestStage_spec _ k att hi1
      exact ⟨h.1, Clean.append (storeEmits_clean k) h.2⟩
  | sendFail => exact hfail .sendFail
  | http c => exact hfail (.http c)
  | malformed b => exact hfail (.malformed b)

theorem keyStage_spec (st : St) (guid : Option Nat) (i : PollIn) (hi : Inv st) :
    Inv (keyStage fixed st guid i).1 ∧ Clean (keyStage fixed st guid i).2.2.1 := by
  unfold keyStage
  split
  · exact latch_spec st _ _ _ hi (lit_clean _)
  · have h := acquireStage_spec st i.acquire i.storeOk i.attest hi
    exact ⟨h.1, Clean.append (fetchFailed_clean guid) h.2⟩

theorem poll_spec (st : St) (i : PollIn) (hi : Inv st) (hc : i.status.clean = true) :
    Inv (poll fixed st i).1 ∧ Clean (poll fixed st i).2.1 := by
  unfold poll
  split
  · rename_i err hs
    have ht : leaks ([Piece.lit "Failed to get key status - "] ++ err) = false := by
      rw [hs] at hc
      simp only [StatusIn.clean, Bool.not_eq_true'] at hc
      rw [leaks_append, hc]; simp [leaks, isSecret]
    have h := setStatus_spec st "status-failed" _ true hi ht
    exact ⟨h.1, h.2.1⟩
  · rename_i desc guid state rules hs
    rw [hs] at hc
    simp only [StatusIn.clean, Bool.and_eq_true, Bool.not_eq_true'] at hc
    have ht : leaks ([Piece.lit "Got key status successfully: "] ++ desc ++ [.lit "."]) = false := by
      rw [leaks_append, leaks_append, hc.1]; simp [leaks, isSecret]
    have h1 := setStatus_spec st "status-ok" _ true hi ht
    have hR : Clean (rulesEmit rules) := by
      cases rules with
      | none => exact Clean.nil
      | some r =>
        have : leaks r = false := by simpa using hc.2
        exact Clean.cons (fun _ => this) Clean.nil
    dsimp only
    split
    · have h2 := finishPoll_spec _ state h1.1
      exact ⟨h2.1, Clean.append (Clean.append h1.2.1 hR) h2.2⟩
    · have hk := keyStage_spec _ guid i h1.1
      split
      · have h3 := finishPoll_spec _ state hk.1
        exact ⟨h3.1, Clean.append (Clean.append (Clean.append h1.2.1 hR) hk.2) h3.2⟩
      · exact ⟨hk.1, Clean.append (Clean.append h1.2.1 hR) hk.2⟩

theorem sign_clean (st : St) : Clean (sign fixed st) := by
  unfold sign
  split
  · exact Clean.cons (fun _ => lit_clean _) Clean.nil
  · split
    · exact Clean.cons (fun _ => by simp [leaks, isSecret]) (Clean.cons (fun _ => by simp [leaks, isSecret]) Clean.nil)
    · refine Clean.cons (fun _ => ?_) Clean.nil
      rw [leaks_append, hexErr_clean]; simp [leaks, isSecret]

theorem step_spec (st : St) (op : Op) (hi : Inv st) (hc : op.clean = true) :
    Inv (step fixed st op).1 ∧ Clean (step fixed st op).2.1 := by
  cases op with
  | start =>
    simp only [step]
    split
    · exact ⟨hi, Clean.nil⟩
    · have h := setStatus_spec { st with started := true } "task-started" [.lit "poll secure channel status task started."] true hi (lit_clean _)
      refine ⟨h.1, Clean.append h.2.1 ?_⟩
      exact Clean.append (clean_logAgent _ _ _ (lit_clean _)) (clean_logAgent _ _ _ (lit_clean _))
  | poll i =>
    simp only [step]
    split
    · exact poll_spec st i hi hc
    · exact ⟨hi, Clean.nil⟩
  | request => exact ⟨hi, sign_clean st⟩
  | provisionQuery =>
    refine ⟨hi, Clean.cons (fun _ => ?_) (Clean.cons (fun _ => ?_) Clean.nil)⟩
    · show leaks ([Piece.lit "keyLatchStatus - "] ++ st.statusMsg) = false
      rw [leaks_append, hi]; simp [leaks, isSecret]
    · show leaks ([Piece.lit "Provision state: keyLatchStatus - "] ++ st.statusMsg) = false
      rw [leaks_append, hi]; simp [leaks, isSecret]
  | statusTick =>
    refine ⟨hi, Clean.cons (fun _ => ?_) Clean.nil⟩
    show leaks (st.statusMsg ++ _) = false
    rw [leaks_append, hi]
    cases st.cur <;> simp [leaks, isSecret]
  | timeup =>
    have ht : leaks ([Piece.lit "keyLatchStatus - "] ++ st.statusMsg) = false := by
      rw [leaks_append, hi]; simp [leaks, isSecret]
    exact ⟨hi, Clean.append (Clean.append (Clean.cons (fun _ => ht) Clean.nil) (clean_writeEvent _ _ ht)) (Clean.cons (fun _ => ht) Clean.nil)⟩
  | restart => exact ⟨by simp [step, Inv, St.init, leaks, isSecret], Clean.nil⟩

/-- **C12(a)** for every history of polls (any host answers, including error statuses, malformed key
bodies that contain the key, keys that are not hex), client requests, provisioning queries, status
ticks, the deadline and restarts: nothing written outside the key file contains the key value -/
theorem key_never_leaves_store (st : St) (ops : List Op) (hi : Inv st) (hc : ∀ op ∈ ops, op.clean = true) :
    Clean (run fixed st ops).1 := by
  induction ops generalizing st with
  | nil => exact Clean.nil
  | cons op rest ih =>
    have hs := step_spec st op hi (hc op (List.mem_cons_self ..))
    simp only [run]
    exact Clean.append hs.2 (ih _ hs.1 (fun o ho => hc o (List.mem_cons_of_mem _ ho)))

theorem init_inv : Inv St.init := by simp [Inv, St.init, leaks, isSecret]

/-- the same, from process start, for the variant the source is in -/
theorem key_never_leaves_store_code (ops : List Op) (hc : ∀ op ∈ ops, op.clean = true) :
    Clean (run codeVariant St.init ops).1 := by
  rw [code_withholds]; exact key_never_leaves_store St.init ops init_inv hc

/-- what a sink receives is at most a prefix of the modelled text (event and status truncation) -/
theorem truncated_sinks_clean (e : Emit) (n : Nat) (h : leaks e.text = false) : leaks (e.text.take n) = false :=
  leaks_take _ _ h

/-! ### the key file, and the order of file-system operations -/

/-- walk a file-system trace: `acl` = the key directory has been made mode 0700 -/
def restrictedBeforeFiles : Bool → List FsOp → Bool
  | _, [] => true
  | acl, .chmodKeyDir m :: r => if m = 0o700 then restrictedBeforeFiles true r else restrictedBeforeFiles acl r
  | acl, .createKeyFile _ :: r => acl && restrictedBeforeFiles acl r
  | acl, _ :: r => restrictedBeforeFiles acl r

theorem rbf_append (a : Bool) (l1 l2 : List FsOp) (h1 : restrictedBeforeFiles a l1 = true)
    (h2 : restrictedBeforeFiles true l2 = true) (hacl : a = true ∨ l2 = [] ∨ (.chmodKeyDir 0o700) ∈ l1) :
    restrictedBeforeFiles a (l1 ++ l2) = true := by
  induction l1 generalizing a with
  | nil =>
    rcases hacl with h | h | h
    · subst h; simpa using h2
    · subst h; simp [restrictedBeforeFiles]
    · cases h
  | cons op r ih =>
    cases op with
    | chmodKeyDir m =>
      simp only [List.cons_append, restrictedBeforeFiles] at h1 ⊢
      by_cases hm : m = 0o700
      · rw [if_pos hm] at h1 ⊢; exact ih true h1 (Or.inl rfl)
      · rw [if_neg hm] at h1 ⊢
        refine ih a h1 ?_
        rcases hacl with h | h | h
        · exact Or.inl h
        · exact Or.inr (Or.inl h)
        · rcases List.mem_cons.mp h with h | h
          · cases h; exact absurd rfl hm
          · exact Or.inr (Or.inr h)
    | createKeyFile k =>
      simp only [List.cons_append, restrictedBeforeFiles, Bool.and_eq_true] at h1 ⊢
      exact ⟨h1.1, ih a h1.2 (Or.inl h1.1)⟩
    | mkdirKeyDir =>
      simp only [List.cons_append, restrictedBeforeFiles] at h1 ⊢
      refine ih a h1 ?_
      rcases hacl with h | h | h
      · exact Or.inl h
      · exact Or.inr (Or.inl h)
      · rcases List.mem_cons.mp h with h | h
        · cases h
        · exact Or.inr (Or.inr h)
    | chownKeyDir =>
      simp only [List.cons_append, restrictedBeforeFiles] at h1 ⊢
      refine ih a h1 ?_
      rcases hacl with h | h | h
      · exact Or.inl h
      · exact Or.inr (Or.inl h)
      · rcases List.mem_cons.mp h with h | h
        · cases h
        · exact Or.inr (Or.inr h)

theorem acquireStage_fs (v : Variant) (st : St) (acq : AcquireIn) (so : Bool) (att : AttestIn) :
    restrictedBeforeFiles true (acquireStage v st acq so att).2.2.2 = true := by
  cases acq with
  | key k =>
    simp only [acquireStage]
    split
    · rfl
    · simp [restrictedBeforeFiles]
  | sendFail => rfl
  | http c => rfl
  | malformed b => rfl

theorem keyStage_fs (v : Variant) (st : St) (g : Option Nat) (i : PollIn) :
    restrictedBeforeFiles true (keyStage v st g i).2.2.2 = true := by
  unfold keyStage
  split
  · rfl
  · exact acquireStage_fs v st i.acquire i.storeOk i.attest

theorem poll_fs (v : Variant) (st : St) (i : PollIn) : restrictedBeforeFiles true (poll v st i).2.2 = true := by
  unfold poll
  split
  · rfl
  · dsimp only
    split
    · rfl
    · split
      · exact keyStage_fs ..
      · exact keyStage_fs ..

theorem setStatus_started (st : St) (tid : String) (t : Text) (b : Bool) : (setStatus st tid t b).1.started = st.started := by
  unfold setStatus; split <;> rfl

theorem finishPoll_started (st : St) (s : String) : (finishPoll st s).1.started = st.started := by
  unfold finishPoll
  split
  · rfl
  · split
    · simp only; rw [setStatus_started]
    · rfl

theorem latch_started (st : St) (k : KeyVal) (tid : String) (t : Text) : (latch st k tid t).1.started = st.started := by
  unfold latch; simp only; rw [setStatus_started]

theorem attestStage_started (v : Variant) (st : St) (k : KeyVal) (a : AttestIn) : (attestStage v st k a).1.started = st.started := by
  unfold attestStage
  split
  · rfl
  · split
    · simp only; rw [latch_started]
    · rfl
    · rfl

theorem acquireStage_started (v : Variant) (st : St) (acq : AcquireIn) (so : Bool) (att : AttestIn) :
    (acquireStage v st acq so att).1.started = st.started := by
  cases acq with
  | key k =>
    simp only [acquireStage]
    split
    · rw [setStatus_started]
    · rw [attestStage_started]
  | sendFail => simp only [acquireStage]; rw [setStatus_started]
  | http c => simp only [acquireStage]; rw [setStatus_started]
  | malformed b => simp only [acquireStage]; rw [setStatus_started]

theorem keyStage_started (v : Variant) (st : St) (g : Option Nat) (i : PollIn) : (keyStage v st g i).1.started = st.started := by
  unfold keyStage
  split
  · simp only; rw [latch_started]
  · simp only; rw [acquireStage_started]

theorem poll_started (v : Variant) (st : St) (i : PollIn) : (poll v st i).1.started = st.started := by
  unfold poll
  split
  · simp only; rw [setStatus_started]
  · dsimp only
    split
    · simp only; rw [finishPoll_started, setStatus_started]
    · split
      · simp only; rw [finishPoll_started, keyStage_started, setStatus_started]
      · simp only; rw [keyStage_started, setStatus_started]

/-- one step: if the directory is restricted whenever the task has started, the step's file-system
operations respect the order and the relation is kept -/
theorem step_fs (v : Variant) (st : St) (op : Op) (acl : Bool) (h : st.started = true → acl = true) (hm : Gpa.Facts.keyDirMode = 0o700) :
    restrictedBeforeFiles acl (step v st op).2.2 = true ∧
    ((step v st op).1.started = true →
      (acl = true ∨ (.chmodKeyDir 0o700) ∈ (step v st op).2.2)) := by
  cases op with
  | start =>
    simp only [step]
    split
    · rename_i hs; exact ⟨rfl, fun _ => Or.inl (h hs)⟩
    · refine ⟨?_, fun _ => Or.inr ?_⟩
      · simp [restrictedBeforeFiles]
      · rw [hm]; simp
  | poll i =>
    simp only [step]
    split
    · rename_i hs
      have ha := h hs
      subst ha
      exact ⟨poll_fs v st i, fun _ => Or.inl rfl⟩
    · rename_i hs
      exact ⟨rfl, fun h' => absurd h' hs⟩
  | request => exact ⟨rfl, fun h' => Or.inl (h h')⟩
  | provisionQuery => exact ⟨rfl, fun h' => Or.inl (h h')⟩
  | statusTick => exact ⟨rfl, fun h' => Or.inl (h h')⟩
  | timeup => exact ⟨rfl, fun h' => Or.inl (h h')⟩
  | restart => exact ⟨rfl, fun h' => by simp [step, St.init] at h'⟩

theorem run_fs (v : Variant) (st : St) (ops : List Op) (acl : Bool) (h : st.started = true → acl = true)
    (hm : Gpa.Facts.keyDirMode = 0o700) : restrictedBeforeFiles acl (run v st ops).2 = true := by
  induction ops generalizing st acl with
  | nil => rfl
  | cons op rest ih =>
    simp only [run]
    have hs := step_fs v st op acl h hm
    by_cases hst : (step v st op).1.started = true
    · rcases hs.2 hst with ha | hmem
      · exact rbf_append acl _ _ hs.1 (ih _ true (fun _ => rfl)) (Or.inl ha)
      · exact rbf_append acl _ _ hs.1 (ih _ true (fun _ => rfl)) (Or.inr (Or.inr hmem))
    · -- the task has not started: nothing after this step creates a key file before a later start
      have := ih (step v st op).1 acl (fun h' => absurd h' hst)
      -- use the weaker flag for the rest
      refine rbf_weaken acl _ _ hs.1 this
where
  rbf_weaken (a : Bool) (l1 l2 : List FsOp) (h1 : restrictedBeforeFiles a l1 = true) (h2 : restrictedBeforeFiles a l2 = true) :
      restrictedBeforeFiles a (l1 ++ l2) = true := by
    induction l1 generalizing a with
    | nil => simpa using h2
    | cons op r ih =>
      cases op with
      | chmodKeyDir m =>
        simp only [List.cons_append, restrictedBeforeFiles] at h1 ⊢
        by_cases hm : m = 0o700
        · rw [if_pos hm] at h1 ⊢; exact ih true h1 (rbf_mono a l2 h2)
        · rw [if_neg hm] at h1 ⊢; exact ih a h1 h2
      | createKeyFile k =>
        simp only [List.cons_append, restrictedBeforeFiles, Bool.and_eq_true] at h1 ⊢
        exact ⟨h1.1, ih a h1.2 h2⟩
      | mkdirKeyDir => simp only [List.cons_append, restrictedBeforeFiles] at h1 ⊢; exact ih a h1 h2
      | chownKeyDir => simp only [List.cons_append, restrictedBeforeFiles] at h1 ⊢; exact ih a h1 h2
  rbf_mono (a : Bool) (l : List FsOp) (h : restrictedBeforeFiles a l = true) : restrictedBeforeFiles true l = true := by
    induction l generalizing a with
    | nil => rfl
    | cons op r ih =>
      cases op with
      | chmodKeyDir m =>
        simp only [restrictedBeforeFiles] at h ⊢
        by_cases hm : m = 0o700
        · rw [if_pos hm] at h ⊢; exact h
        · rw [if_neg hm] at h ⊢; exact ih a h
      | createKeyFile k =>
        simp only [restrictedBeforeFiles, Bool.and_eq_true] at h ⊢
        exact ⟨trivial, ih a h.2⟩
      | mkdirKeyDir => simp only [restrictedBeforeFiles] at h ⊢; exact ih a h
      | chownKeyDir => simp only [restrictedBeforeFiles] at h ⊢; exact ih a h

/-- **C12(b)** in every history from process start, the key directory is made mode 0700 before the
first key file is created in it (and stays so across restarts) -/
theorem acl_before_first_key_file (v : Variant) (ops : List Op) :
    restrictedBeforeFiles false (run v St.init ops).2 = true :=
  run_fs v St.init ops false (fun h => by simp [St.init] at h) key_dir_mode

/-- what `restrictedBeforeFiles` means -/
theorem restricted_meaning (l pre post : List FsOp) (k : Nat) (h : restrictedBeforeFiles false l = true)
    (hl : l = pre ++ .createKeyFile k :: post) : (.chmodKeyDir 0o700) ∈ pre := by
  subst hl
  have gen : ∀ (a : Bool) (pre : List FsOp), restrictedBeforeFiles a (pre ++ .createKeyFile k :: post) = true →
      a = true ∨ (.chmodKeyDir 0o700) ∈ pre := by
    intro a pre
    induction pre generalizing a with
    | nil => intro h; simp only [List.nil_append, restrictedBeforeFiles, Bool.and_eq_true] at h; exact Or.inl h.1
    | cons op r ih =>
      intro h
      cases op with
      | chmodKeyDir m =>
        simp only [List.cons_append, restrictedBeforeFiles] at h
        by_cases hm : m = 0o700
        · subst hm; exact Or.inr (List.mem_cons_self ..)
        · rw [if_neg hm] at h
          rcases ih a h with h' | h'
          · exact Or.inl h'
          · exact Or.inr (List.mem_cons_of_mem _ h')
      | createKeyFile k' =>
        simp only [List.cons_append, restrictedBeforeFiles, Bool.and_eq_true] at h
        exact Or.inl h.1
      | mkdirKeyDir =>
        simp only [List.cons_append, restrictedBeforeFiles] at h
        rcases ih a h with h' | h'
        · exact Or.inl h'
        · exact Or.inr (List.mem_cons_of_mem _ h')
      | chownKeyDir =>
        simp only [List.cons_append, restrictedBeforeFiles] at h
        rcases ih a h with h' | h'
        · exact Or.inl h'
        · exact Or.inr (List.mem_cons_of_mem _ h')
  rcases gen false pre h with h' | h'
  · cases h'
  · exact h'

/-! ### the two echoing error texts are real leaks when not withheld (negative witnesses);
non-vacuity of the main theorem -/

def k1 : KeyVal := { id := 1, hexOk := true }
def kBad : KeyVal := { id := 2, hexOk := false }
def stOk : StatusIn := .ok [.lit "keyGuid: None, secureChannelState: wireserver"] none "wireserver" none

/-- a key response that does not parse but contains the key; then a local client asks /provision -/
def histBody : List Op :=
  [.start, .poll { status := stOk, acquire := .malformed [.lit "{\"key\": \"", .secret 1, .lit "\"}"], storeOk := true, attest := .ok },
   .provisionQuery, .statusTick]

/-- a key that is not hex is stored, attestation fails locally; later it is found locally and used for signing -/
def histHex : List Op :=
  [.start, .poll { status := stOk, acquire := .key kBad, storeOk := true, attest := .ok },
   .poll { status := .ok [.lit "keyGuid: g2"] (some 2) "wireserver" none, acquire := .sendFail, storeOk := true, attest := .ok },
   .request]

def leaksTo (es : List Emit) (s : Sink) : Bool := es.any fun e => e.sink = s && leaks e.text

example : leaksTo (run { withholdHexKey := true, withholdBody := false } St.init histBody).1 .clientResp = true := by decide
example : leaksTo (run { withholdHexKey := true, withholdBody := false } St.init histBody).1 .statusJson = true := by decide
example : leaksTo (run { withholdHexKey := true, withholdBody := false } St.init histBody).1 .event = true := by decide
example : leaksTo (run { withholdHexKey := false, withholdBody := true } St.init histHex).1 .agentLog = true := by decide
example : leaksTo (run { withholdHexKey := false, withholdBody := true } St.init histHex).1 .connLog = true := by decide
example : ([Sink.agentLog, .connLog, .console, .serial, .event, .statusMsg, .statusJson, .statusTag, .clientResp, .rulesDump,
    .upstreamAuth, .hostReq].all fun s => !leaksTo (run fixed St.init (histBody ++ histHex)).1 s) = true := by decide
-- the key does reach the key file, and a latched key signs
example : leaksTo (run fixed St.init histHex).1 .keyFile = true := by decide
example : (run fixed St.init [.start, .poll { status := stOk, acquire := .key k1, storeOk := true, attest := .ok }, .request]).1.any
    (fun e => e.sink = .upstreamAuth && e.text.contains (.mac 1)) = true := by decide
example : (run fixed St.init histHex).2 = [.mkdirKeyDir, .chownKeyDir, .chmodKeyDir 448, .createKeyFile 2] := by decide

end Gpa.Props.C12
