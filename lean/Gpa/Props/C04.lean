/-
C04  Relayed requests carry a valid HMAC over exactly what the host receives.
The MAC itself is a parameter (`mac key input`, HMAC-SHA256 in the code; cross-checked against
hashlib in the correspondence): the theorems are about *what is signed* and *what is sent*.
-/
import Gpa.Lemmas.Pipeline
import Gpa.Lemmas.Canon
import Gpa.Props.C05
namespace Gpa.Props.C04
open Gpa.Pipeline Gpa.Canon Gpa.Text Gpa.Url Gpa.Headers

variable (mac : Str → List UInt8 → Str)

/-- **C04(a)** both signing routes yield the same canonical string for the same request -/
theorem routes_agree (method : Str) (body : List UInt8) (hs : Headers) (u : Uri) :
    sigInputBuilder method (some body) hs u = sigInput method body hs u ∧
    sigInputBuilder method none hs u = sigInput method [] hs u := by
  simp [sigInputBuilder, sigInput]

/-- **C04(b)** what is signed is what is sent: when the proxy signs, the host — applying the same
canonicalisation to the method, URL, headers and body it *receives* — obtains exactly the string
the MAC was computed over (the authorization header itself being excluded by the rule), for every
request, header set (any order, case, blanks, repeats) and body. -/
theorem signed_is_sent (env : Env) (conn : Conn) (r : Req) (u : UpReq)
    (h : (handle mac env conn r).outcome = .forward u) (guid : Str) (si : List UInt8)
    (hs : u.signed = some (guid, si)) :
    sigInput u.method u.body u.headers u.uri = si := by
  obtain ⟨_, _, caller, _, _, _, _, _, _, _, _, hfwd⟩ := handle_forward mac env conn r u h
  obtain ⟨hm, hu, hb, _, hcase⟩ := forwardStage_forward mac env caller r u hfwd
  rcases hcase with ⟨_, hn, _⟩ | ⟨_, hn, _⟩ | ⟨guid', key, si', _, _, _, hsi, hh, hsg⟩
  · rw [hn] at hs; cases hs
  · rw [hn] at hs; cases hs
  · rw [hsg] at hs; cases hs
    rw [hm, hu, hb, hh, sigInput_insert_auth, hsi]

/-- **C04(c)** the authorization header of a signed request is `scheme keyId mac`, with the id of
the key the MAC was computed under (one header: `C05.client_authorization_never_forwarded_when_signed`) -/
theorem auth_value_format (env : Env) (conn : Conn) (r : Req) (u : UpReq)
    (h : (handle mac env conn r).outcome = .forward u) (guid : Str) (si : List UInt8)
    (hs : u.signed = some (guid, si)) :
    ∃ key, env.key = some (guid, key) ∧
      get? authHeader u.headers = some (authScheme ++ [' '] ++ guid ++ [' '] ++ mac key si) := by
  obtain ⟨key, hk, _, hg⟩ := Gpa.Props.C05.client_authorization_never_forwarded_when_signed mac env conn r u h guid si hs
  exact ⟨key, hk, hg⟩

theorem facts_scheme : Gpa.Facts.authorizationScheme = "Azure-HMAC-SHA256" := by decide

/-- **C04(d)** while a key with a well-formed hex value is latched, every relayed request is signed
except exactly the two documented exempt method/URL pairs -/
theorem signed_unless_exempt (env : Env) (conn : Conn) (r : Req) (u : UpReq) (guid key : Str)
    (h : (handle mac env conn r).outcome = .forward u) (hk : env.key = some (guid, key)) (hx : isHexKey key = true) :
    (u.signed = none ↔ shouldSkipSig r.method r.uri = true) := by
  obtain ⟨_, _, caller, _, _, _, _, _, _, _, _, hfwd⟩ := handle_forward mac env conn r u h
  obtain ⟨_, _, _, _, hcase⟩ := forwardStage_forward mac env caller r u hfwd
  rcases hcase with ⟨_, hn, hskip⟩ | ⟨_, hn, hnk⟩ | ⟨g, k, si, _, hns, _, _, _, hsg⟩
  · exact ⟨fun _ => hskip, fun _ => hn⟩
  · rcases hnk with e | ⟨g, k, e, hbad⟩
    · rw [hk] at e; cases e
    · rw [hk] at e; cases e; rw [hx] at hbad; cases hbad
  · constructor
    · intro e; rw [hsg] at e; cases e
    · intro e; rw [hns] at e; cases e

theorem skip_iff (method : Str) (u : Uri) :
    shouldSkipSig method u = true ↔
      ((method = "PUT".toList ∧ lower u.toStr = "/vmagentlog".toList) ∨
       (method = "POST".toList ∧ lower u.toStr = "/machine/?comp=telemetrydata".toList)) := by
  unfold shouldSkipSig
  simp only [Bool.or_eq_true, Bool.and_eq_true, decide_eq_true_eq]

/-- **C04(e)** layout/coverage: the signed string is
`method LF body LF canonical-headers path LF canonical-parameters`, so the method, every body byte
and the path are covered verbatim -/
theorem coverage_layout (method : Str) (body : List UInt8) (hs : Headers) (u : Uri) :
    sigInput method body hs u =
      utf8 method ++ [10] ++ body ++ [10] ++ utf8 (canonHeaders hs) ++ utf8 u.path ++ [10] ++ utf8 (canonParams u) := rfl

theorem mem_sortBy {α} (lt : α → α → Bool) (l : List α) (x : α) (h : x ∈ l) : x ∈ sortBy lt l := by
  induction l with
  | nil => cases h
  | cons y ys ih =>
    simp only [sortBy]
    rw [mem_insertBy]
    rcases List.mem_cons.mp h with e | e
    · exact Or.inl e
    · exact Or.inr (ih e)

/-- every header name whose last value is `v` contributes the line `name:text(v) LF` -/
theorem coverage_headers (hs : Headers) (n v : Str) (hm : (n, v) ∈ lastPerName hs) (hn : n ≠ authHeader) :
    ∃ pre post, canonHeaders hs = pre ++ (n ++ [':'] ++ valueText v ++ ['\n']) ++ post := by
  unfold canonHeaders
  simp only
  have hmem : (n, v) ∈ (sortBy (fun a b => strLt a.1 b.1) (lastPerName hs)).filter (fun kv => kv.1 ≠ authHeader) := by
    rw [List.mem_filter]
    exact ⟨mem_sortBy _ _ _ hm, by simpa using hn⟩
  obtain ⟨l1, l2, hl⟩ := List.append_of_mem hmem
  refine ⟨l1.flatMap (fun kv => kv.1 ++ [':'] ++ valueText kv.2 ++ ['\n']),
          l2.flatMap (fun kv => kv.1 ++ [':'] ++ valueText kv.2 ++ ['\n']), ?_⟩
  rw [hl]
  simp [List.flatMap_append, List.flatMap_cons]

/-! ### negative witnesses: what the canonical form does NOT cover (known finding F3) -/

def uriQ (q : String) : Uri := { path := "/m".toList, query := some q.toList }

/-- two parameters whose `key ++ value` concatenations coincide collapse to one … -/
theorem concat_collision_drops_a_parameter :
    canonParams (uriQ "a=bc&ab=c") = "ab=c".toList ∧ canonParams (uriQ "ab=c") = "ab=c".toList := by decide

/-- … and which one survives depends on their order -/
theorem concat_collision_order_dependent :
    canonParams (uriQ "a=bc&ab=c") ≠ canonParams (uriQ "ab=c&a=bc") := by decide

/-- a repeated header name is signed with its last value only -/
theorem repeated_header_last_value_only :
    canonHeaders (ofWire [("x-a".toList, "one".toList), ("x-a".toList, "two".toList)]) =
    canonHeaders (ofWire [("x-a".toList, "two".toList)]) := by decide

/-! non-vacuity -/
example : sigInput "GET".toList [] (ofWire [("Host".toList, "h".toList)]) (uriQ "b=2&a=1") =
    utf8 "GET\n\nhost:h\n/m\na=1&b=2".toList := by decide

end Gpa.Props.C04
