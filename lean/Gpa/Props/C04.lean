/-
C04  Relayed requests carry a valid HMAC over exactly what the host receives.
The MAC itself is a parameter (`mac key input`, HMAC-SHA256 in the code; cross-checked against
hashlib in the correspondence): the theorems are about *what is signed* and *what is sent*.
-/
import Gpa.Lemmas.Pipeline
import Gpa.Lemmas.Canon
import Gpa.Props.C05
namespace Gpa.Props.C04
open Gpa.Pipeline Gpa.Canon Gpa.Text Gpa.Url Gpa.Headers

variable (mac : Str → List UInt8 → Str)

/-- **C04(a)** both signing routes yield the same canonical string for the same request -/
theorem routes_agree (method : Str) (body : List UInt8) (hs : Headers) (u : Uri) :
    sigInputBuilder method (some body) hs u = sigInput method body hs u ∧
    sigInputBuilder method none hs u = sigInput method [] hs u := by
  simp [sigInputBuilder, sigInput]

/-- **C04(b)** what is signed is what is sent: when the proxy signs, the host — applying the same
canonicalisation to the method, URL, headers and body it *receives* — obtains exactly the string
the MAC was computed over (the authorization header itself being excluded by the rule), for every
request, header set (any order, case, blanks, repeats) and body. -/
theorem signed_is_sent (env : Env) (conn : Conn) (r : Req) (u : UpReq)
    (h : (handle mac env conn r).outcome = .forward u) (guid : Str) (si : List UInt8)
    (hs : u.signed = some (guid, si)) :
    sigInput u.method u.body u.headers u.uri = si := by
  obtain ⟨_, _, caller, _, _, _, _, _, _, _, _, hfwd⟩ := handle_forward mac env conn r u h
  obtain ⟨hm, hu, hb, _, hcase⟩ := forwardStage_forward mac env caller r u hfwd
  rcases hcase with ⟨_, hn, _⟩ | ⟨_, hn, _⟩ | ⟨guid', key, si', _, _, _, hsi, hh, hsg⟩
  · rw [hn] at hs; cases hs
  · rw [hn] at hs; cases hs
  · rw [hsg] at hs; cases hs
    rw [hm, hu, hb, hh, sigInput_insert_auth, hsi]

/-- **C04(c)** the authorization header of a signed request is `scheme keyId mac`, with the id of
the key the MAC was computed under (one header: `C05.client_authorization_never_forwarded_when_signed`) -/
theorem auth_value_format (env : Env) (conn : Conn) (r : Req) (u : UpReq)
    (h : (handle mac env conn r).outcome = .forward u) (guid : Str) (si : List UInt8)
    (hs : u.signed = some (guid, si)) :
    ∃ key, env.key = some (guid, key) ∧
      get? authHeader u.headers = some (authScheme ++ [' '] ++ guid ++ [' '] ++ mac key si) := by
  obtain ⟨key, hk, _, hg⟩ := Gpa.Props.C05.client_authorization_never_forwarded_when_signed mac env conn r u h guid si hs
  exact ⟨key, hk, hg⟩

theorem facts_scheme : Gpa.Facts.authorizationScheme = "Azure-HMAC-SHA256" := by decide

/-- **C04(d)** while a key with a well-formed hex value is latched, every relayed request is signed
except exactly the two documented exempt method/URL pairs -/
theorem signed_unless_exempt (env : Env) (conn : Conn) (r : Req) (u : UpReq) (guid key : Str)
    (h : (handle mac env conn r).outcome = .forward u) (hk : env.key = some (guid, key)) (hx : isHexKey key = true) :
    (u.signed = none ↔ shouldSkipSig r.method r.uri = true) := by
  obtain ⟨_, _, caller, _, _, _, _, _, _, _, _, hfwd⟩ := handle_forward mac env conn r u h
  obtain ⟨_, _, _, _, hcase⟩ := forwardStage_forward mac env caller r u hfwd
  rcases hcase with ⟨_, hn, hskip⟩ | ⟨_, hn, hnk⟩ | ⟨g, k, si, _, hns, _, _, _, hsg⟩
  · exact ⟨fun _ => hskip, fun _ => hn⟩
  · rcases hnk with e | ⟨g, k, e, hbad⟩
    · rw [hk] at e; cases e
    · rw [hk] at e; cases e; rw [hx] at hbad; cases hbad
  · constructor
    · intro e; rw [hsg] at e; cases e
    · intro e; rw [hns] at e; cases e

/-- **obligation on generated facts**: the two URL texts compared in `should_skip_sig` are the documented ones, and there are
exactly two method/URL clauses -/
theorem skip_urls_are_spec : Gpa.Facts.skipSigPutUrl.toList = "/vmagentlog".toList ∧
    Gpa.Facts.skipSigPostUrl.toList = "/machine/?comp=telemetrydata".toList ∧ Gpa.Facts.skipSigClauses = 2 := by decide

theorem skip_iff (method : Str) (u : Uri) :
    shouldSkipSig method u = true ↔
      ((method = "PUT".toList ∧ lower u.toStr = "/vmagentlog".toList) ∨
       (method = "POST".toList ∧ lower u.toStr = "/machine/?comp=telemetrydata".toList)) := by
  unfold shouldSkipSig
  rw [skip_urls_are_spec.1, skip_urls_are_spec.2.1]
  simp only [Bool.or_eq_true, Bool.and_eq_true, decide_eq_true_eq]

/-- **C04(e)** layout/coverage: the signed string is
`method LF body LF canonical-headers path LF canonical-parameters`, so the method, every body byte
and the path are covered verbatim -/
theorem coverage_layout (method : Str) (body : List UInt8) (hs : Headers) (u : Uri) :
    sigInput method body hs u =
      utf8 method ++ [10] ++ body ++ [10] ++ utf8 (canonHeaders hs) ++ utf8 u.path ++ [10] ++ utf8 (canonParams u) := rfl

theorem mem_sortBy {α} (lt : α → α → Bool) (l : List α) (x : α) (h : x ∈ l) : x ∈ sortBy lt l := by
  induction l with
  | nil => cases h
  | cons y ys ih =>
    simp only [sortBy]
    rw [mem_insertBy]
    rcases List.mem_cons.mp h with e | e
    · exact Or.inl e
    · exact Or.inr (ih e)

/-- every header name whose last value is `v` contributes the line `name:text(v) LF` -/
theorem coverage_headers (hs : Headers) (n v : Str) (hm : (n, v) ∈ lastPerName hs) (hn : n ≠ authHeader) :
    ∃ pre post, canonHeaders hs = pre ++ (n ++ [':'] ++ valueText v ++ ['\n']) ++ post := by
  unfold canonHeaders
  simp only
  have hmem : (n, v) ∈ (sortBy (fun a b => strLt a.1 b.1) (lastPerName hs)).filter (fun kv => kv.1 ≠ authHeader) := by
    rw [List.mem_filter]
    exact ⟨mem_sortBy _ _ _ hm, by simpa using hn⟩
  obtain ⟨l1, l2, hl⟩ := List.append_of_mem hmem
  refine ⟨l1.flatMap (fun kv => kv.1 ++ [':'] ++ valueText kv.2 ++ ['\n']),
          l2.flatMap (fun kv => kv.1 ++ [':'] ++ valueText kv.2 ++ ['\n']), ?_⟩
  rw [hl]
  simp [List.flatMap_append, List.flatMap_cons]

/-! ### negative witnesses: what the canonical form does NOT cover (known finding F3) -/

def uriQ (q : String) : Uri := { path := "/m".toList, query := some q.toList }

/-- two parameters whose `key ++ value` concatenations coincide collapse to one … -/
theorem concat_collision_drops_a_parameter :
    canonParams (uriQ "a=bc&ab=c") = "ab=c".toList ∧ canonParams (uriQ "ab=c") = "ab=c".toList := by decide

/-- … and which one survives depends on their order -/
theorem concat_collision_order_dependent :
    canonParams (uriQ "a=bc&ab=c") ≠ canonParams (uriQ "ab=c&a=bc") := by decide

/-- a repeated header name is signed with its last value only -/
theorem repeated_header_last_value_only :
    canonHeaders (ofWire [("x-a".toList, "one".toList), ("x-a".toList, "two".toList)]) =
    canonHeaders (ofWire [("x-a".toList, "two".toList)]) := by decide

/-! non-vacuity -/
example : sigInput "GET".toList [] (ofWire [("Host".toList, "h".toList)]) (uriQ "b=2&a=1") =
    utf8 "GET\n\nhost:h\n/m\na=1&b=2".toList := by decide

/-! ### the order of the `&`-separated pairs does not matter -/

theorem nodup_map_inj {α β} (f : α → β) (l : List α) (h : (l.map f).Nodup) :
    ∀ a ∈ l, ∀ b ∈ l, f a = f b → a = b := by
  induction l with
  | nil => intro a ha; cases ha
  | cons x xs ih =>
    simp only [List.map_cons, List.nodup_cons, List.mem_map, not_exists, not_and] at h
    intro a ha b hb hab
    rcases List.mem_cons.mp ha with ea | ea <;> rcases List.mem_cons.mp hb with eb | eb
    · rw [ea, eb]
    · subst ea; exact absurd hab.symm (h.1 b eb)
    · subst eb; exact absurd hab (h.1 a ea)
    · exact ih h.2 a ea b eb hab

theorem lastPerKey_nodup (l : List (Str × (Str × Str))) (h : (l.map (·.1)).Nodup) : lastPerKey l = l := by
  induction l with
  | nil => rfl
  | cons x xs ih =>
    obtain ⟨k, p⟩ := x
    simp only [List.map_cons, List.nodup_cons, List.mem_map, not_exists, not_and] at h
    have hany : xs.any (fun kv => kv.1 = k) = false := by
      rw [List.any_eq_false]
      intro kv hkv
      simpa using h.1 kv hkv
    simp only [lastPerKey, hany, Bool.false_eq_true, ↓reduceIte]
    rw [ih h.2]

/-- **C04(f)** two requests whose query strings hold the same pairs in a different order are signed with the
same canonical parameter string — for queries without the key+value collisions of finding F3 -/
theorem canonParams_perm (u u' : Uri) (hp : (queryPairs u').Perm (queryPairs u))
    (hd : ((queryPairs u).map fun kv => lower kv.1 ++ kv.2).Nodup) : canonParams u' = canonParams u := by
  have hpm : ((queryPairs u').map fun kv => (lower kv.1 ++ kv.2, (lower kv.1, kv.2))).Perm
      ((queryPairs u).map fun kv => (lower kv.1 ++ kv.2, (lower kv.1, kv.2))) := hp.map _
  have hk : (((queryPairs u).map fun kv => (lower kv.1 ++ kv.2, (lower kv.1, kv.2))).map (·.1)).Nodup := by
    simpa [List.map_map, Function.comp_def] using hd
  have hk' : (((queryPairs u').map fun kv => (lower kv.1 ++ kv.2, (lower kv.1, kv.2))).map (·.1)).Nodup :=
    (hpm.map (·.1)).symm.nodup_iff.mp hk
  unfold canonParams
  simp only []
  rw [lastPerKey_nodup _ hk, lastPerKey_nodup _ hk']
  rw [sortBy_perm _ keyOrder_weak _ _ hpm]
  intro a ha b hb h1 h2
  exact nodup_map_inj (·.1) _ hk' a ha b hb (strLt_total _ _ h1 h2)

/-- joining with `&` keeps every part as a contiguous piece of the result -/
theorem foldl_join_contains (p : Str) (ps : List Str) (x : Str) (hx : (∃ a b, p = a ++ x ++ b) ∨ x ∈ ps) :
    ∃ pre post, ps.foldl (fun acc q => acc ++ ['&'] ++ q) p = pre ++ x ++ post := by
  induction ps generalizing p with
  | nil =>
    rcases hx with ⟨a, b, h⟩ | h
    · exact ⟨a, b, by simpa using h⟩
    · cases h
  | cons q qs ih =>
    simp only [List.foldl_cons]
    apply ih
    rcases hx with ⟨a, b, h⟩ | h
    · exact Or.inl ⟨a, b ++ ['&'] ++ q, by rw [h]; simp [List.append_assoc]⟩
    · rcases List.mem_cons.mp h with h' | h'
      · exact Or.inl ⟨p ++ ['&'], [], by rw [h']; simp [List.append_assoc]⟩
      · exact Or.inr h'

/-- **C04(g)** coverage of the query: for a query without the key+value collisions of finding F3, every
pair occurs in the canonical parameter string, as `lower(key)=value` (or the bare lower-cased key when the
value is empty) — so no parameter of such a query is left out of what is signed -/
theorem coverage_query (u : Uri) (k v : Str) (hm : (k, v) ∈ queryPairs u)
    (hd : ((queryPairs u).map fun kv => lower kv.1 ++ kv.2).Nodup) :
    ∃ pre post, canonParams u = pre ++ (if v.isEmpty then lower k ++ v else lower k ++ ['='] ++ v) ++ post := by
  have hk : (((queryPairs u).map fun kv => (lower kv.1 ++ kv.2, (lower kv.1, kv.2))).map (·.1)).Nodup := by
    simpa [List.map_map, Function.comp_def] using hd
  unfold canonParams
  simp only []
  rw [lastPerKey_nodup _ hk]
  have hmem : (lower k ++ v, (lower k, v)) ∈ sortBy (fun a b => strLt a.1 b.1)
      ((queryPairs u).map fun kv => (lower kv.1 ++ kv.2, (lower kv.1, kv.2))) :=
    mem_sortBy _ _ _ (List.mem_map.mpr ⟨(k, v), hm, rfl⟩)
  have hpart : (if v.isEmpty then lower k ++ v else lower k ++ ['='] ++ v) ∈
      (sortBy (fun a b => strLt a.1 b.1) ((queryPairs u).map fun kv => (lower kv.1 ++ kv.2, (lower kv.1, kv.2)))).map
        (fun kv => if kv.2.2.isEmpty then kv.1 else kv.2.1 ++ ['='] ++ kv.2.2) :=
    List.mem_map.mpr ⟨_, hmem, rfl⟩
  generalize (sortBy (fun a b => strLt a.1 b.1) ((queryPairs u).map fun kv => (lower kv.1 ++ kv.2, (lower kv.1, kv.2)))).map
        (fun kv => if kv.2.2.isEmpty then kv.1 else kv.2.1 ++ ['='] ++ kv.2.2) = parts at hpart ⊢
  cases parts with
  | nil => cases hpart
  | cons p ps =>
    simp only []
    refine foldl_join_contains p ps _ ?_
    rcases List.mem_cons.mp hpart with h | h
    · exact Or.inl ⟨[], [], by rw [← h]; simp⟩
    · exact Or.inr h

example : canonParams { path := ['/', 'p'], query := some ['b', '=', '2', '&', 'A', '=', '1'] } =
    canonParams { path := ['/', 'p'], query := some ['a', '=', '1', '&', 'b', '=', '2'] } := by decide
example : (queryPairs { path := ['/', 'p'], query := some ['b', '=', '2', '&', 'A', '=', '1'] }).Perm
    (queryPairs { path := ['/', 'p'], query := some ['A', '=', '1', '&', 'b', '=', '2'] }) := by decide

end Gpa.Props.C04
