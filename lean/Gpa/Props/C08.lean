/-
C08  A key is never latched at the host unless the guest can recover it.
Transition system of single effects (Gpa.KeyKeeper.stepSys) with the process dying at any point.
-/
import Gpa.Model.KeyKeeper
namespace Gpa.Props.C08
open Gpa.KeyKeeper Gpa.Text

theorem lookupF_setF_self (l : List (Str × FileState)) (g : Str) (v : FileState) : lookupF (setF l g v) g = some v := by
  simp [setF, lookupF]

theorem lookupF_filter_ne (l : List (Str × FileState)) (g q : Str) (h : q ≠ g) :
    lookupF (l.filter fun kv => kv.1 ≠ g) q = lookupF l q := by
  induction l with
  | nil => rfl
  | cons a rest ih =>
    obtain ⟨k, v⟩ := a
    by_cases hk : k = g
    · subst hk
      have hq : ¬ k = q := fun e => h e.symm
      have e1 : List.filter (fun kv : Str × FileState => decide (kv.1 ≠ k)) ((k, v) :: rest) =
          List.filter (fun kv : Str × FileState => decide (kv.1 ≠ k)) rest := by
        rw [List.filter_cons]; simp
      rw [e1, ih]; simp [lookupF, hq]
    · have e1 : List.filter (fun kv : Str × FileState => decide (kv.1 ≠ g)) ((k, v) :: rest) =
          (k, v) :: List.filter (fun kv : Str × FileState => decide (kv.1 ≠ g)) rest := by
        rw [List.filter_cons]; simp [hk]
      rw [e1]; simp only [lookupF]
      split
      · rfl
      · exact ih

theorem lookupF_setF_other (l : List (Str × FileState)) (g q : Str) (v : FileState) (h : q ≠ g) :
    lookupF (setF l g v) q = lookupF l q := by
  have : ¬ g = q := fun e => h e.symm
  simp only [setF, lookupF, this, ↓reduceIte]
  exact lookupF_filter_ne l g q h

/-- keys the host has issued have one key per guid -/
def Functional (issued : List Key) : Prop := ∀ k ∈ issued, ∀ k' ∈ issued, k.guid = k'.guid → k = k'

def pcKey : Pc → Option Key
  | .idle => none
  | .acquired k | .tmpCreated k | .tmpWritten k _ | .renamed k | .checked k | .attestSent k => some k

structure Inv (s : Sys) : Prop where
  functional : Functional s.host.issued
  /-- the key in flight was issued by the host -/
  inFlight : ∀ k, pcKey s.pc = some k → k ∈ s.host.issued
  /-- a latched guid has its complete, correct file under the final name -/
  latched : ∀ g, s.host.latched = some g → ∃ k, fetchKey s.fs g = some k ∧ k.guid = g ∧ k ∈ s.host.issued
  /-- every complete file under a final name holds a key the host issued under that very guid -/
  finalOk : ∀ g k, lookupF s.fs.final g = some (.complete k) → k.guid = g ∧ k ∈ s.host.issued
  /-- no partial content under a final name -/
  noPartial : ∀ g n, lookupF s.fs.final g ≠ some (.partialWrite n)
  /-- from the rename on, the file is there; from the read-back on, it has been verified -/
  stored : ∀ k, (s.pc = .checked k ∨ s.pc = .attestSent k) → fetchKey s.fs k.guid = some k
  /-- what is published in memory is on disk -/
  memOk : ∀ k, s.mem = some k → fetchKey s.fs k.guid = some k

theorem inv_init : Inv Sys.init := by
  refine ⟨?_, ?_, ?_, ?_, ?_, ?_, ?_⟩ <;> simp [Sys.init, Functional, pcKey, lookupF, fetchKey]

theorem fetchKey_complete (fs : KeyDir) (g : Str) (k : Key) (h : lookupF fs.final g = some (.complete k)) :
    fetchKey fs g = some k := by simp [fetchKey, h]

theorem fetchKey_some (fs : KeyDir) (g : Str) (k : Key) (h : fetchKey fs g = some k) :
    lookupF fs.final g = some (.complete k) := by
  unfold fetchKey at h
  split at h
  · rename_i k' he; cases h; exact he
  · cases h

theorem lookup_after_rename (final : List (Str × FileState)) (k : Key) (g : Str) :
    lookupF (setF final k.guid (.complete k)) g = if g = k.guid then some (.complete k) else lookupF final g := by
  by_cases hg : g = k.guid
  · rw [hg, lookupF_setF_self]; simp
  · rw [lookupF_setF_other _ _ _ _ hg]; simp [hg]

/-- every effect — including process death at any point — preserves the invariant -/
theorem inv_step (s : Sys) (e : Ev) (h : Inv s) : Inv (stepSys s e) := by
  rcases s with ⟨host, fs, pc, mem⟩
  cases e <;> cases pc <;> simp only [stepSys] <;> (try exact h)
  case hostIssues.idle k =>
    obtain ⟨hf, hin, hl, hfo, hnp, hst, hm⟩ := h
    by_cases hall : host.issued.all (fun k' => k'.guid ≠ k.guid || k' == k) = true
    · rw [if_pos hall]
      have hall' : ∀ k' ∈ host.issued, k'.guid = k.guid → k' = k := by
        intro k' hk' hg
        have := List.all_eq_true.mp hall k' hk'
        simp only [Bool.or_eq_true, decide_eq_true_eq, beq_iff_eq] at this
        rcases this with h1 | h1
        · exact absurd hg h1
        · exact h1
      refine ⟨?_, ?_, ?_, ?_, hnp, ?_, hm⟩
      · intro a ha b hb hab
        rcases List.mem_cons.mp ha with ea | ea <;> rcases List.mem_cons.mp hb with eb | eb
        · rw [ea, eb]
        · rw [ea]; rw [ea] at hab; exact (hall' b eb hab.symm).symm
        · rw [eb]; rw [eb] at hab; exact hall' a ea hab
        · exact hf a ea b eb hab
      · intro k' hk'; simp only [pcKey, Option.some.injEq] at hk'; rw [← hk']; exact List.mem_cons_self
      · intro g hg; obtain ⟨k', h1, h2, h3⟩ := hl g hg; exact ⟨k', h1, h2, List.mem_cons_of_mem _ h3⟩
      · intro g k' hk'; obtain ⟨h1, h2⟩ := hfo g k' hk'; exact ⟨h1, List.mem_cons_of_mem _ h2⟩
      · intro k' hk'; rcases hk' with h1 | h1 <;> cases h1
    · rw [if_neg hall]; exact ⟨hf, hin, hl, hfo, hnp, hst, hm⟩
  case createTmp.acquired k =>
    obtain ⟨hf, hin, hl, hfo, hnp, hst, hm⟩ := h
    refine ⟨hf, ?_, hl, hfo, hnp, ?_, hm⟩
    · intro k' hk'; simp only [pcKey, Option.some.injEq] at hk'; rw [← hk']; exact hin k rfl
    · intro k' hk'; rcases hk' with h1 | h1 <;> cases h1
  case writeMore.tmpCreated n k =>
    obtain ⟨hf, hin, hl, hfo, hnp, hst, hm⟩ := h
    refine ⟨hf, ?_, hl, hfo, hnp, ?_, hm⟩
    · intro k' hk'; simp only [pcKey, Option.some.injEq] at hk'; rw [← hk']; exact hin k rfl
    · intro k' hk'; rcases hk' with h1 | h1 <;> cases h1
  case writeMore.tmpWritten n k m =>
    obtain ⟨hf, hin, hl, hfo, hnp, hst, hm⟩ := h
    refine ⟨hf, ?_, hl, hfo, hnp, ?_, hm⟩
    · intro k' hk'; simp only [pcKey, Option.some.injEq] at hk'; rw [← hk']; exact hin k rfl
    · intro k' hk'; rcases hk' with h1 | h1 <;> cases h1
  case rename.tmpWritten k m =>
    obtain ⟨hf, hin, hl, hfo, hnp, hst, hm⟩ := h
    by_cases hfull : m = docLen
    · rw [if_pos hfull]
      have hkin : k ∈ host.issued := hin k rfl
      have hnew := lookup_after_rename fs.final k
      refine ⟨hf, ?_, ?_, ?_, ?_, ?_, ?_⟩
      · intro k' hk'; simp only [pcKey, Option.some.injEq] at hk'; rw [← hk']; exact hkin
      · intro g hg
        obtain ⟨k', h1, h2, h3⟩ := hl g hg
        by_cases hgk : g = k.guid
        · refine ⟨k, ?_, hgk.symm, hkin⟩
          simp only [fetchKey, hnew, hgk, ↓reduceIte]
        · refine ⟨k', ?_, h2, h3⟩
          have := fetchKey_some _ _ _ h1
          simp only [fetchKey, hnew, hgk, ↓reduceIte, this]
      · intro g k' hk'
        simp only [hnew] at hk'
        by_cases hgk : g = k.guid
        · simp only [hgk, ↓reduceIte, Option.some.injEq, FileState.complete.injEq] at hk'
          rw [← hk', hgk]; exact ⟨rfl, hkin⟩
        · simp only [hgk, ↓reduceIte] at hk'; exact hfo g k' hk'
      · intro g n hgn
        simp only [hnew] at hgn
        by_cases hgk : g = k.guid
        · simp [hgk] at hgn
        · simp only [hgk, ↓reduceIte] at hgn; exact hnp g n hgn
      · intro k' hk'; rcases hk' with h1 | h1 <;> cases h1
      · intro k' hk'
        have h1 := fetchKey_some _ _ _ (hm k' hk')
        by_cases hgk : k'.guid = k.guid
        · have : k' = k := hf k' (hfo _ _ h1).2 k hkin hgk
          rw [this]; simp only [fetchKey, hnew, ↓reduceIte]
        · simp only [fetchKey, hnew, hgk, ↓reduceIte, h1]
    · rw [if_neg hfull]; exact ⟨hf, hin, hl, hfo, hnp, hst, hm⟩
  case readBack.renamed k =>
    obtain ⟨hf, hin, hl, hfo, hnp, hst, hm⟩ := h
    by_cases hchk : fetchKey fs k.guid = some k
    · rw [if_pos hchk]
      refine ⟨hf, ?_, hl, hfo, hnp, ?_, hm⟩
      · intro k' hk'; simp only [pcKey, Option.some.injEq] at hk'; rw [← hk']; exact hin k rfl
      · intro k' hk'
        rcases hk' with h1 | h1
        · simp only [Pc.checked.injEq] at h1; rw [← h1]; exact hchk
        · cases h1
    · rw [if_neg hchk]
      exact ⟨hf, (by intro k' hk'; cases hk'), hl, hfo, hnp, (by intro k' hk'; rcases hk' with h1 | h1 <;> cases h1), hm⟩
  case sendAttest.checked k =>
    obtain ⟨hf, hin, hl, hfo, hnp, hst, hm⟩ := h
    refine ⟨hf, ?_, hl, hfo, hnp, ?_, hm⟩
    · intro k' hk'; simp only [pcKey, Option.some.injEq] at hk'; rw [← hk']; exact hin k rfl
    · intro k' hk'
      rcases hk' with h1 | h1
      · cases h1
      · simp only [Pc.attestSent.injEq] at h1; rw [← h1]; exact hst k (Or.inl rfl)
  case hostLatches.attestSent k =>
    obtain ⟨hf, hin, hl, hfo, hnp, hst, hm⟩ := h
    refine ⟨hf, hin, ?_, hfo, hnp, hst, hm⟩
    intro g hg
    simp only [Option.some.injEq] at hg
    exact ⟨k, by rw [← hg]; exact hst k (Or.inr rfl), hg, hin k rfl⟩
  case publish.attestSent k =>
    obtain ⟨hf, hin, hl, hfo, hnp, hst, hm⟩ := h
    split
    · refine ⟨hf, (by intro k' hk'; cases hk'), hl, hfo, hnp, (by intro k' hk'; rcases hk' with h1 | h1 <;> cases h1), ?_⟩
      intro k' hk'
      simp only [Option.some.injEq] at hk'
      rw [← hk']; exact hst k (Or.inr rfl)
    · exact ⟨hf, (by intro k' hk'; cases hk'), hl, hfo, hnp, (by intro k' hk'; rcases hk' with h1 | h1 <;> cases h1), hm⟩
  all_goals (
    first
    | -- crash from any pc
      (obtain ⟨hf, hin, hl, hfo, hnp, hst, hm⟩ := h
       exact ⟨hf, (by intro k' hk'; cases hk'), hl, hfo, hnp, (by intro k' hk'; rcases hk' with h1 | h1 <;> cases h1),
         (by intro k' hk'; cases hk')⟩)
    | -- useLocal at idle
      (obtain ⟨hf, hin, hl, hfo, hnp, hst, hm⟩ := h
       cases hlat : host.latched with
       | none => exact ⟨hf, hin, hl, hfo, hnp, hst, hm⟩
       | some g =>
         simp only
         cases hfk : fetchKey fs g with
         | none => exact ⟨hf, hin, hl, hfo, hnp, hst, hm⟩
         | some k =>
           refine ⟨hf, hin, hl, hfo, hnp, hst, ?_⟩
           intro k' hk'
           simp only [Option.some.injEq] at hk'
           rw [← hk']
           have := (hfo g k (fetchKey_some _ _ _ hfk)).1
           rw [this]; exact hfk)
    | -- useLocal at any other pc: nothing happens
      (cases host.latched <;> exact h))

theorem inv_run (evs : List Ev) (s : Sys) (h : Inv s) : Inv (evs.foldl stepSys s) := by
  induction evs generalizing s with
  | nil => exact h
  | cons e es ih => exact ih _ (inv_step s e h)

/-- **C08(a)** for every sequence of effects and crashes from the initial state: whenever the host
regards a key as attested, that key is present, complete and readable under its final name in the key
store, with the guid and key value the host issued -/
theorem latched_implies_recoverable (evs : List Ev) (g : Str)
    (h : (evs.foldl stepSys Sys.init).host.latched = some g) :
    ∃ k, fetchKey (evs.foldl stepSys Sys.init).fs g = some k ∧ k.guid = g ∧ k ∈ (evs.foldl stepSys Sys.init).host.issued :=
  (inv_run evs _ inv_init).latched g h

/-- **C08(b)** the agent never attests a key it has not first stored and read back identically -/
theorem attest_only_after_verified_store (evs : List Ev) (k : Key)
    (h : (evs.foldl stepSys Sys.init).pc = .attestSent k) :
    fetchKey (evs.foldl stepSys Sys.init).fs k.guid = some k :=
  (inv_run evs _ inv_init).stored k (Or.inr h)

/-- **C08(c)** a crash never leaves a truncated file under a key's final name -/
theorem final_name_never_partial (evs : List Ev) (g : Str) (n : Nat) :
    lookupF (evs.foldl stepSys Sys.init).fs.final g ≠ some (.partialWrite n) :=
  (inv_run evs _ inv_init).noPartial g n

/-- **C08(d)** after a restart (memory lost) with a key latched at the host, the local key is found
and used — no new key is requested (the step neither issues a key nor touches the host) -/
theorem restart_uses_local_key (evs : List Ev) (g : Str)
    (h : (evs.foldl stepSys Sys.init).host.latched = some g) :
    let s := stepSys (evs.foldl stepSys Sys.init) .crash
    let s' := stepSys s .useLocal
    (∃ k, s'.mem = some k ∧ k.guid = g) ∧ s'.host.issued = s.host.issued ∧ s'.host.latched = some g := by
  obtain ⟨k, hk, hg, _⟩ := latched_implies_recoverable evs g h
  simp only [stepSys, h, hk]
  exact ⟨⟨k, by simp, hg⟩, by simp, by simp⟩

/-! non-vacuity: a full latch, then a crash, then recovery -/
def kx : Key := { guid := "g".toList, key := "ab".toList }
def latchRun : List Ev := [.hostIssues kx, .createTmp, .writeMore 40, .writeMore 60, .rename, .readBack, .sendAttest, .hostLatches, .crash]
example : (latchRun.foldl stepSys Sys.init).host.latched = some "g".toList := by decide
example : (stepSys (latchRun.foldl stepSys Sys.init) .useLocal).mem = some kx := by decide
/-- a crash in the middle of the temp-file write leaves nothing under the final name -/
example : ([Ev.hostIssues kx, .createTmp, .writeMore 40, .crash].foldl stepSys Sys.init).fs.final = [] := by decide

end Gpa.Props.C08
