/-
C06  Kernel hook redirects exactly the protected connects, records the true caller.
-/
import Gpa.Model.Ebpf
import Gpa.Model.Attach
import Gpa.Lemmas.EbpfLru
import Gpa.Generated.Facts
namespace Gpa.Props.C06
open Gpa.Ebpf

/-- **C06(a)** redirect iff: the connect's address is rewritten to the policy value exactly when the
destination is listed in the policy and the calling process is not the agent; otherwise untouched -/
theorem redirect_iff (s : State) (t : Thread) (ip port proto : Nat) :
    (connect4 s t ip port proto).2 =
      match lookup s.policy (destKey ip port proto) with
      | some pol => if s.skip.contains t.pid then (ip, port) else (pol.getD 0 0, pol.getD 4 0)
      | none => (ip, port) := by
  unfold connect4
  cases lookup s.policy (destKey ip port proto) with
  | none => rfl
  | some pol => simp only; split <;> rfl

theorem lookup_filter_ne {κ β} [DecidableEq κ] (m : List (κ × β)) (k q : κ) (h : q ≠ k) :
    lookup (m.filter fun kv => kv.1 ≠ k) q = lookup m q := by
  induction m with
  | nil => rfl
  | cons a rest ih =>
    obtain ⟨k', v⟩ := a
    by_cases hk : k' = k
    · subst hk
      have hq : ¬ k' = q := fun e => h e.symm
      have e1 : List.filter (fun kv : κ × β => decide (kv.1 ≠ k')) ((k', v) :: rest) =
          List.filter (fun kv : κ × β => decide (kv.1 ≠ k')) rest := by
        rw [List.filter_cons]; simp
      rw [e1, ih]
      simp [lookup, hq]
    · have e1 : List.filter (fun kv : κ × β => decide (kv.1 ≠ k)) ((k', v) :: rest) =
          (k', v) :: List.filter (fun kv : κ × β => decide (kv.1 ≠ k)) rest := by
        rw [List.filter_cons]; simp [hk]
      rw [e1]
      simp only [lookup]
      split
      · rfl
      · exact ih

theorem lookup_filter_self {κ β} [DecidableEq κ] (m : List (κ × β)) (k : κ) :
    lookup (m.filter fun kv => kv.1 ≠ k) k = none := by
  induction m with
  | nil => rfl
  | cons a rest ih =>
    obtain ⟨k', v⟩ := a
    rw [List.filter_cons]
    by_cases hk : k' = k
    · simp only [hk, ne_eq, not_true_eq_false, decide_false, Bool.false_eq_true, if_false]; exact ih
    · simp only [ne_eq, hk, not_false_eq_true, decide_true, if_true, lookup, if_false]; exact ih

theorem lookup_delete_self {κ β} [DecidableEq κ] (m : List (κ × β)) (k : κ) : lookup (delete m k) k = none :=
  lookup_filter_self m k

/-- connects to any other address, and all connects by the agent itself, go where they were going, and leave the policy, the
agent's process list, every record and every other thread's pending entry as they were (a connect to an unprotected address drops
what an earlier, failed connect of the same thread may have left pending: `unprotected_clears_own_entry`) -/
theorem untouched_otherwise (s : State) (t : Thread) (ip port proto : Nat)
    (h : lookup s.policy (destKey ip port proto) = none ∨ s.skip.contains t.pid = true) :
    (connect4 s t ip port proto).2 = (ip, port) ∧
    (connect4 s t ip port proto).1.policy = s.policy ∧ (connect4 s t ip port proto).1.skip = s.skip ∧
    (connect4 s t ip port proto).1.audit = s.audit ∧
    ∀ k, k ≠ t.pidTgid → lookup (connect4 s t ip port proto).1.localMap k = lookup s.localMap k := by
  unfold connect4
  cases hp : lookup s.policy (destKey ip port proto) with
  | none => exact ⟨rfl, rfl, rfl, rfl, fun k hk => lookup_filter_ne _ _ _ hk⟩
  | some pol =>
    rcases h with h | h
    · rw [hp] at h; cases h
    · simp only [if_pos h]; simp

/-- the agent's own connects change nothing at all when their destination is protected -/
theorem agent_connect_untouched (s : State) (t : Thread) (ip port proto : Nat) (pol : Dest)
    (hp : lookup s.policy (destKey ip port proto) = some pol) (h : s.skip.contains t.pid = true) :
    connect4 s t ip port proto = (s, ip, port) := by
  unfold connect4; rw [hp]; simp only [if_pos h]

/-- a connect to an unprotected address leaves nothing pending for its thread -/
theorem unprotected_clears_own_entry (s : State) (t : Thread) (ip port proto : Nat)
    (h : lookup s.policy (destKey ip port proto) = none) :
    lookup (connect4 s t ip port proto).1.localMap t.pidTgid = none := by
  unfold connect4; rw [h]; exact lookup_delete_self _ _

theorem agent_untouched_kprobe (s : State) (t : Thread) (family daddr dport lport : Nat)
    (h : s.skip.contains t.pid = true) : tcpConnect s t family daddr dport lport = s := by
  unfold tcpConnect; split <;> simp [h]

theorem lookup_update_self {κ β} [DecidableEq κ] (m : List (κ × β)) (k : κ) (v : β) : lookup (update m k v) k = some v := by
  simp [update, lookup]

theorem lookup_update_other {κ β} [DecidableEq κ] (m : List (κ × β)) (k q : κ) (v : β) (h : q ≠ k) :
    lookup (update m k v) q = lookup m q := by
  have : ¬ k = q := fun e => h e.symm
  simp only [update, lookup, this, ↓reduceIte]
  exact lookup_filter_ne m k q h

theorem lookup_delete_other {κ β} [DecidableEq κ] (m : List (κ × β)) (k q : κ) (h : q ≠ k) :
    lookup (delete m k) q = lookup m q := lookup_filter_ne m k q h

/-- what one hook invocation by thread `t'` does to the per-thread entry of another thread `t` -/
inductive HookOp where
  | c4 (t : Thread) (ip port proto : Nat)
  | tc (t : Thread) (family daddr dport lport : Nat)

def HookOp.thread : HookOp → Thread
  | .c4 t .. => t
  | .tc t .. => t

def stepOp (s : State) : HookOp → State
  | .c4 t ip port proto => (connect4 s t ip port proto).1
  | .tc t family daddr dport lport => tcpConnect s t family daddr dport lport

/-- hooks run by other threads never touch this thread's pending entry, nor the policy / skip maps -/
theorem other_thread_preserves (s : State) (op : HookOp) (key : Nat) (h : op.thread.pidTgid ≠ key) :
    lookup (stepOp s op).localMap key = lookup s.localMap key ∧
    (stepOp s op).policy = s.policy ∧ (stepOp s op).skip = s.skip := by
  have hk : key ≠ op.thread.pidTgid := fun e => h e.symm
  cases op with
  | c4 t ip port proto =>
    simp only [stepOp, connect4, HookOp.thread] at *
    cases lookup s.policy (destKey ip port proto) with
    | none => exact ⟨lookup_delete_other _ _ _ hk, rfl, rfl⟩
    | some pol =>
      simp only
      split
      · exact ⟨rfl, rfl, rfl⟩
      · exact ⟨lookup_update_other _ _ _ _ hk, rfl, rfl⟩
  | tc t family daddr dport lport =>
    simp only [stepOp, tcpConnect, HookOp.thread] at *
    split
    · exact ⟨rfl, rfl, rfl⟩
    split
    · exact ⟨rfl, rfl, rfl⟩
    split
    · exact ⟨lookup_delete_other _ _ _ hk, rfl, rfl⟩
    · split <;> exact ⟨rfl, rfl, rfl⟩

theorem others_preserve (s : State) (ops : List HookOp) (key : Nat) (h : ∀ op ∈ ops, op.thread.pidTgid ≠ key) :
    lookup (ops.foldl stepOp s).localMap key = lookup s.localMap key ∧
    (ops.foldl stepOp s).policy = s.policy ∧ (ops.foldl stepOp s).skip = s.skip := by
  induction ops generalizing s with
  | nil => exact ⟨rfl, rfl, rfl⟩
  | cons op ops ih =>
    simp only [List.foldl_cons]
    have h1 := other_thread_preserves s op key (h op List.mem_cons_self)
    have h2 := ih (stepOp s op) (fun o ho => h o (List.mem_cons_of_mem _ ho))
    exact ⟨h2.1.trans h1.1, h2.2.1.trans h1.2.1, h2.2.2.trans h1.2.2⟩

/-- **C06(b)** the record: for a redirected connect attempt of thread `t` (cgroup hook, then —
after any hook invocations of *other* threads, in any order — the kprobe on the same thread), the
audit map holds, under the connection's local source port, the caller's user id (low half of
uid_gid), process id (high half of pid_tgid), whether that user id is 0, and the ORIGINAL
destination address and port. -/
theorem audit_record (s : State) (t : Thread) (ip port : Nat) (pol : Dest) (between : List HookOp)
    (family daddr dport lport : Nat)
    (hpol : lookup s.policy (destKey ip port ipprotoTcp) = some pol) (hskip : s.skip.contains t.pid = false)
    (hothers : ∀ op ∈ between, op.thread.pidTgid ≠ t.pidTgid) (hfam : family = afInet) :
    let s1 := (connect4 s t ip port ipprotoTcp).1
    let s2 := between.foldl stepOp s1
    let s3 := tcpConnect s2 t family daddr dport lport
    lookup s3.audit (ipprotoTcp, lport) = some (mkAudit t ip port) ∧
    lookup s3.localMap t.pidTgid = none := by
  intro s1 s2 s3
  have h1 : lookup s1.localMap t.pidTgid = some (mkLocal t ip port ipprotoTcp) := by
    simp only [s1, connect4, hpol, hskip, Bool.false_eq_true, ↓reduceIte]
    exact lookup_update_self _ _ _
  have hs1 : s1.skip = s.skip := by
    simp only [s1, connect4, hpol, hskip, Bool.false_eq_true, ↓reduceIte]
  obtain ⟨h2, _, h2s⟩ := others_preserve s1 between t.pidTgid hothers
  have hskip2 : s2.skip.contains t.pid = false := by
    show (between.foldl stepOp s1).skip.contains t.pid = false
    rw [h2s, hs1]; exact hskip
  have hl2 : lookup s2.localMap t.pidTgid = some (mkLocal t ip port ipprotoTcp) := by
    show lookup (between.foldl stepOp s1).localMap t.pidTgid = _
    rw [h2, h1]
  have hne : ¬ family ≠ afInet := by simp [hfam]
  constructor
  · simp only [s3, tcpConnect, hne, ↓reduceIte, hskip2, Bool.false_eq_true, hl2]
    rw [show (mkLocal t ip port ipprotoTcp).protocol = ipprotoTcp from rfl, lookup_update_self]
    rfl
  · simp only [s3, tcpConnect, hne, ↓reduceIte, hskip2, Bool.false_eq_true, hl2]
    simp only [delete]
    induction s2.localMap with
    | nil => rfl
    | cons a rest ih =>
      by_cases ha : a.1 = t.pidTgid
      · have e1 : List.filter (fun kv : Nat × LocalEntry => decide (kv.1 ≠ t.pidTgid)) (a :: rest) =
            List.filter (fun kv : Nat × LocalEntry => decide (kv.1 ≠ t.pidTgid)) rest := by
          rw [List.filter_cons]; simp [ha]
        rw [e1]; exact ih
      · have e1 : List.filter (fun kv : Nat × LocalEntry => decide (kv.1 ≠ t.pidTgid)) (a :: rest) =
            a :: List.filter (fun kv : Nat × LocalEntry => decide (kv.1 ≠ t.pidTgid)) rest := by
          rw [List.filter_cons]; simp [ha]
        rw [e1]
        obtain ⟨k, v⟩ := a
        simp only [lookup]
        rw [if_neg ha]; exact ih

/-- the recorded identity is the true caller: user id = LOW half of uid_gid, process id = HIGH half
of pid_tgid, is_root iff that user id is 0 -/
theorem record_is_true_caller (t : Thread) (ip port : Nat) :
    (mkAudit t ip port).logonId = lo32 t.uidGid ∧ (mkAudit t ip port).processId = hi32 t.pidTgid ∧
    ((mkAudit t ip port).isRoot = 1 ↔ lo32 t.uidGid = 0) ∧
    (mkAudit t ip port).destIp = ip ∧ (mkAudit t ip port).destPort = port := by
  refine ⟨rfl, rfl, ?_, rfl, rfl⟩
  simp only [mkAudit, Thread.uid]
  by_cases h : lo32 t.uidGid = 0 <;> simp [h]

/-- a connect that was not redirected and does not go to a protected address produces no record -/
theorem no_record_otherwise (s : State) (t : Thread) (family daddr dport lport : Nat)
    (hl : lookup s.localMap t.pidTgid = none) (hp : lookup s.policy (destKey daddr dport ipprotoTcp) = none) :
    tcpConnect s t family daddr dport lport = s := by
  unfold tcpConnect
  split; · rfl
  split; · rfl
  rw [hl]; simp only; rw [hp]

/-- **C06(no record otherwise), whatever the thread did before**: a TCP connect to an address that is not protected produces no
record — also when an earlier connect of the same thread to a protected address failed between the two hooks and left its
hand-over entry behind (the state `s` is arbitrary), and whatever other threads do in between -/
theorem no_record_for_unprotected_connect (s : State) (t : Thread) (ip port lport family : Nat) (between : List HookOp)
    (hp : lookup s.policy (destKey ip port ipprotoTcp) = none)
    (hothers : ∀ op ∈ between, op.thread.pidTgid ≠ t.pidTgid) :
    let s1 := (connect4 s t ip port ipprotoTcp).1
    let s2 := between.foldl stepOp s1
    (connect4 s t ip port ipprotoTcp).2 = (ip, port) ∧ tcpConnect s2 t family ip port lport = s2 := by
  intro s1 s2
  have h1 : lookup s1.localMap t.pidTgid = none := unprotected_clears_own_entry s t ip port ipprotoTcp hp
  have hs1 : s1.policy = s.policy := (untouched_otherwise s t ip port ipprotoTcp (Or.inl hp)).2.1
  obtain ⟨h2, h2p, _⟩ := others_preserve s1 between t.pidTgid hothers
  refine ⟨(untouched_otherwise s t ip port ipprotoTcp (Or.inl hp)).1, ?_⟩
  apply no_record_otherwise
  · show lookup (between.foldl stepOp s1).localMap t.pidTgid = none
    rw [h2, h1]
  · show lookup (between.foldl stepOp s1).policy (destKey ip port ipprotoTcp) = none
    rw [h2p, hs1, hp]

/-! ### negative witness (F12): before the fix a failed protected connect poisoned the thread's next connect -/
theorem old_connect4_stale_entry_records_unprotected_connect :
    let pol := rustPolicyEntry (netIp 127 0 0 1) 3080
    let t : Thread := { pidTgid := 1000 * 2 ^ 32 + 1001, uidGid := 5 * 2 ^ 32 + 1000 }
    -- the thread's connect to IMDS passed connect4 and failed before tcp_connect: its entry is still pending
    let s : State := { policy := [(rustPolicyEntry (netIp 169 254 169 254) 80, pol)], skip := [777],
                       localMap := [(t.pidTgid, mkLocal t (netIp 169 254 169 254) (bswap16 80) 6)], audit := [] }
    -- it now connects to 10.0.0.4:443, which is nobody's business
    let sOld := (connect4Old s t (netIp 10 0 0 4) (bswap16 443) 6).1
    let sNew := (connect4 s t (netIp 10 0 0 4) (bswap16 443) 6).1
    lookup (tcpConnect sOld t afInet (netIp 10 0 0 4) (bswap16 443) 40123).audit (6, 40123) =
        some (mkAudit t (netIp 169 254 169 254) (bswap16 80)) ∧
    lookup (tcpConnect sNew t afInet (netIp 10 0 0 4) (bswap16 443) 40123).audit (6, 40123) = none := by decide

/-! ### layout and byte order agree between the kernel program and user space -/

theorem bswap16_involutive (p : Nat) (h : p < 65536) : bswap16 (bswap16 p) = p := by
  unfold bswap16
  have h1 : p / 256 < 256 := by omega
  have h2 : p % 256 < 256 := Nat.mod_lt _ (by decide)
  have h3 : p = p / 256 * 256 + p % 256 := by omega
  generalize p / 256 = q at *
  generalize p % 256 = r at *
  subst h3
  omega

/-- the policy key user space writes for (address, port) is the key the kernel program builds from
a connect to that address and port (`ctx->user_port` holds the port in network order) -/
theorem policy_key_agrees (ipv4 port : Nat) :
    rustPolicyEntry ipv4 port = destKey ipv4 (bswap16 port) ipprotoTcp := rfl

/-- the audit key user space looks up for a source port is the key the kprobe writes (`skc_num` is
in host order) -/
theorem audit_key_agrees (lport : Nat) : rustAuditKey lport = (ipprotoTcp, lport) := rfl

theorem netIp_bytes (a b c d : Nat) (ha : a < 256) (hb : b < 256) (hc : c < 256) (hd : d < 256) :
    netIp a b c d % 256 = a ∧ netIp a b c d / 256 % 256 = b ∧ netIp a b c d / 65536 % 256 = c ∧
    netIp a b c d / 16777216 % 256 = d := by
  unfold netIp
  refine ⟨by omega, by omega, by omega, by omega⟩

/-- decoding a record gives back the original destination a.b.c.d:port and the caller -/
theorem decode_roundtrip (uid pid a b c d port : Nat) (ha : a < 256) (hb : b < 256) (hc : c < 256) (hd : d < 256)
    (hp : port < 65536) :
    rustDecode { logonId := uid, processId := pid, isRoot := (if uid = 0 then 1 else 0), destIp := netIp a b c d, destPort := bswap16 port } =
      (uid, pid, (if uid = 0 then 1 else 0), [a, b, c, d], port) := by
  have hb16 : bswap16 port < 65536 := by unfold bswap16; omega
  obtain ⟨h0, h1, h2, h3⟩ := netIp_bytes a b c d ha hb hc hd
  simp only [rustDecode, Nat.mod_eq_of_lt hb16, bswap16_involutive port hp, h0, h1, h2, h3]

/-- `string_to_ip ∘ ip_to_string` is the identity on 32-bit addresses (segment level) -/
theorem ip_string_roundtrip (ip : Nat) (h : ip < 2 ^ 32) : segsToIp (ipToSegs ip) = ip := by
  unfold segsToIp ipToSegs; simp only; omega

/-- the well-known constants are the network-order forms of the documented addresses -/
theorem facts_addresses :
    Gpa.Facts.wireServerIpNetworkByteOrder = netIp 168 63 129 16 ∧
    Gpa.Facts.imdsIpNetworkByteOrder = netIp 169 254 169 254 ∧
    Gpa.Facts.proxyAgentIpNetworkByteOrder = netIp 127 0 0 1 := by decide

/-! ### negative witness (F4): taking the HIGH half of uid_gid records the group id -/
def uidFromHighHalf (t : Thread) : Nat := hi32 t.uidGid
theorem high_half_is_gid : uidFromHighHalf { pidTgid := 0, uidGid := 5 * 2 ^ 32 + 1000 } = 5 ∧
    Thread.uid { pidTgid := 0, uidGid := 5 * 2 ^ 32 + 1000 } = 1000 := by decide

/-! non-vacuity -/
def exState : State :=
  { policy := [(rustPolicyEntry (netIp 168 63 129 16) 80, rustPolicyEntry (netIp 127 0 0 1) 3080)], skip := [777], localMap := [], audit := [] }
def exThread : Thread := { pidTgid := 1000 * 2 ^ 32 + 1001, uidGid := 5 * 2 ^ 32 + 1000 }
example : (connect4 exState exThread (netIp 168 63 129 16) (bswap16 80) 6).2 = (netIp 127 0 0 1, bswap16 3080) := by decide
example : (connect4 exState exThread (netIp 168 63 129 16) (bswap16 81) 6).2 = (netIp 168 63 129 16, bswap16 81) := by decide

/-! ### the maps with their declared kinds and capacities -/
section bounded

/-- **obligation on generated facts**: the hand-over map and the audit map are LRU maps, as the model of the hooks assumes -/
theorem facts_maps_are_lru : Gpa.Facts.localMapType = "BPF_MAP_TYPE_LRU_HASH" ∧ Gpa.Facts.auditMapType = "BPF_MAP_TYPE_LRU_HASH" ∧
    0 < Gpa.Facts.localMapMaxEntries ∧ 0 < Gpa.Facts.auditMapMaxEntries := by decide

/-- the maps as the C source declares them -/
def codeCaps : Caps :=
  { localKind := if Gpa.Facts.localMapType = "BPF_MAP_TYPE_LRU_HASH" then .lru else .hash, localCap := Gpa.Facts.localMapMaxEntries,
    auditKind := if Gpa.Facts.auditMapType = "BPF_MAP_TYPE_LRU_HASH" then .lru else .hash, auditCap := Gpa.Facts.auditMapMaxEntries }

theorem codeCaps_lru : codeCaps.localKind = .lru ∧ codeCaps.auditKind = .lru := by decide

theorem stepB_skip_policy (c : Caps) (s : State) (e : Ev) : (stepB c s e).skip = s.skip ∧ (stepB c s e).policy = s.policy := by
  cases e with
  | c4 t ip port proto =>
    show (connect4B c s t ip port proto).1.skip = _ ∧ (connect4B c s t ip port proto).1.policy = _
    unfold connect4B
    cases lookup s.policy (destKey ip port proto) with
    | none => exact ⟨rfl, rfl⟩
    | some pol => dsimp only; split <;> exact ⟨rfl, rfl⟩
  | tc t f a p l =>
    show (tcpConnectB c s t f a p l).skip = _ ∧ (tcpConnectB c s t f a p l).policy = _
    unfold tcpConnectB
    split
    · exact ⟨rfl, rfl⟩
    split
    · exact ⟨rfl, rfl⟩
    cases lookup s.localMap t.pidTgid with
    | some e => exact ⟨rfl, rfl⟩
    | none =>
      dsimp only
      cases lookup s.policy (destKey a p ipprotoTcp) with
      | none => exact ⟨rfl, rfl⟩
      | some _ => exact ⟨rfl, rfl⟩

/-- one hook event of another thread moves a pending hand-over entry back by at most one place, and only a connect does -/
theorem stepB_keeps_entry (c : Caps) (hl : c.localKind = .lru) (s : State) (e : Ev) (K : Nat) (v : LocalEntry) (j : Nat)
    (h : Holds s.localMap K v j) (hother : e.thread.pidTgid ≠ K) (hj : e.isC4 = true → j + 1 < c.localCap) :
    Holds (stepB c s e).localMap K v (j + if e.isC4 then 1 else 0) := by
  cases e with
  | c4 t ip port proto =>
    show Holds (connect4B c s t ip port proto).1.localMap K v (j + 1)
    unfold connect4B
    cases lookup s.policy (destKey ip port proto) with
    | none => exact (h.delete_other _ hother).mono (Nat.le_succ j)
    | some pol =>
      dsimp only
      split
      · exact h.mono (Nat.le_succ j)
      · show Holds (updateB c.localKind c.localCap s.localMap t.pidTgid _) K v (j + 1)
        rw [hl]
        exact h.updateB_lru_other _ _ _ hother (hj rfl)
  | tc t f a p l =>
    show Holds (tcpConnectB c s t f a p l).localMap K v (j + 0)
    unfold tcpConnectB
    split
    · exact h
    split
    · exact h
    cases lookup s.localMap t.pidTgid with
    | some e => exact h.delete_other _ hother
    | none =>
      dsimp only
      cases lookup s.policy (destKey a p ipprotoTcp) with
      | none => exact h
      | some _ => exact h

def connects (evs : List Ev) : Nat := (evs.filter Ev.isC4).length

theorem runB_keeps_entry (c : Caps) (hl : c.localKind = .lru) (evs : List Ev) (s : State) (K : Nat) (v : LocalEntry) (j : Nat)
    (h : Holds s.localMap K v j) (hother : ∀ e ∈ evs, e.thread.pidTgid ≠ K) (hj : j + connects evs < c.localCap) :
    Holds (runB c s evs).localMap K v (j + connects evs) ∧ (runB c s evs).skip = s.skip ∧ (runB c s evs).policy = s.policy := by
  induction evs generalizing s j with
  | nil => exact ⟨h, rfl, rfl⟩
  | cons e evs ih =>
    have hcount : connects (e :: evs) = (if e.isC4 then 1 else 0) + connects evs := by
      unfold connects
      rw [List.filter_cons]
      cases e.isC4 <;> simp <;> omega
    rw [hcount] at hj ⊢
    have h1 := stepB_keeps_entry c hl s e K v j h (hother e List.mem_cons_self)
      (by intro hc; rw [hc] at hj; simp only [if_true] at hj; omega)
    have ih' := ih (stepB c s e) (j + if e.isC4 then 1 else 0) h1
      (fun e' he' => hother e' (List.mem_cons_of_mem _ he')) (by omega)
    obtain ⟨hs, hp⟩ := stepB_skip_policy c s e
    refine ⟨?_, ?_, ?_⟩
    · have : j + ((if e.isC4 then 1 else 0) + connects evs) = (j + if e.isC4 then 1 else 0) + connects evs := by omega
      rw [this]; exact ih'.1
    · show (runB c (stepB c s e) evs).skip = s.skip
      rw [ih'.2.1, hs]
    · show (runB c (stepB c s e) evs).policy = s.policy
      rw [ih'.2.2, hp]

/-- **C06(capacity)** whatever the hand-over map and the audit map hold (entries leaked by connects that failed between the
hooks, records of earlier connections), and whatever other threads do between this thread's two hooks — as long as fewer of
them connect to a protected address than the hand-over map has entries — the redirected connect gets its record, keyed by its
source port and stating the true caller and the original destination -/
theorem record_with_others_in_flight (c : Caps) (hl : c.localKind = .lru) (ha : c.auditKind = .lru)
    (s : State) (t : Thread) (ip port proto lport : Nat) (pol : Dest)
    (hpol : lookup s.policy (destKey ip port proto) = some pol) (hskip : s.skip.contains t.pid = false)
    (evs : List Ev) (hother : ∀ e ∈ evs, e.thread.pidTgid ≠ t.pidTgid) (hcount : connects evs < c.localCap) :
    lookup (tcpConnectB c (runB c (connect4B c s t ip port proto).1 evs) t afInet (pol.getD 0 0) (pol.getD 4 0) lport).audit
        (proto, lport) = some (mkAudit t ip port) := by
  have h0 : Holds (connect4B c s t ip port proto).1.localMap t.pidTgid (mkLocal t ip port proto) 0 := by
    unfold connect4B
    rw [hpol]
    dsimp only
    rw [hskip]
    simp only [Bool.false_eq_true, if_false]
    rw [hl]
    exact holds_updateB_lru_self _ _ _ _
  have hsk0 : (connect4B c s t ip port proto).1.skip = s.skip := by
    unfold connect4B; rw [hpol]; dsimp only; rw [hskip]; rfl
  obtain ⟨hh, hsk, _⟩ := runB_keeps_entry c hl evs _ t.pidTgid _ 0 h0 hother (by omega)
  unfold tcpConnectB
  rw [if_neg (by simp), hsk, hsk0, hskip]
  simp only [Bool.false_eq_true, if_false]
  rw [hh.lookup_eq]
  dsimp only
  rw [ha]
  exact (holds_updateB_lru_self _ _ _ _).lookup_eq

/-- the same for the maps as the C source declares them -/
theorem record_with_others_in_flight_code (s : State) (t : Thread) (ip port proto lport : Nat) (pol : Dest)
    (hpol : lookup s.policy (destKey ip port proto) = some pol) (hskip : s.skip.contains t.pid = false)
    (evs : List Ev) (hother : ∀ e ∈ evs, e.thread.pidTgid ≠ t.pidTgid) (hcount : connects evs < Gpa.Facts.localMapMaxEntries) :
    lookup (tcpConnectB codeCaps (runB codeCaps (connect4B codeCaps s t ip port proto).1 evs) t afInet (pol.getD 0 0)
        (pol.getD 4 0) lport).audit (proto, lport) = some (mkAudit t ip port) :=
  record_with_others_in_flight codeCaps codeCaps_lru.1 codeCaps_lru.2 s t ip port proto lport pol hpol hskip evs hother hcount

/-- negative witness: were the hand-over map a plain hash map, two leaked entries in a map of two would leave the next
redirected connect without a record (the proxy then refuses that connection) -/
theorem plain_hash_leaks_block_record :
    let c : Caps := { localKind := .hash, localCap := 2, auditKind := .lru, auditCap := 2 }
    let pol := rustPolicyEntry (netIp 127 0 0 1) 3080
    let s : State := { policy := [(rustPolicyEntry (netIp 168 63 129 16) 80, pol)], skip := [777],
                       localMap := [(1, mkLocal ⟨1, 0⟩ 9 9 6), (2, mkLocal ⟨2, 0⟩ 9 9 6)], audit := [] }
    let t : Thread := { pidTgid := 1000 * 2 ^ 32 + 1001, uidGid := 5 * 2 ^ 32 + 1000 }
    let r := connect4B c s t (netIp 168 63 129 16) (bswap16 80) 6
    r.2 = (netIp 127 0 0 1, bswap16 3080) ∧
    lookup (tcpConnectB c r.1 t afInet r.2.1 r.2.2 40123).audit (6, 40123) = none := by decide

/-- non-vacuity: a full map of leaked entries and one other connect in flight -/
example :
    let s : State := { policy := [(rustPolicyEntry (netIp 168 63 129 16) 80, rustPolicyEntry (netIp 127 0 0 1) 3080)], skip := [777],
                       localMap := [(1, mkLocal ⟨1, 0⟩ 9 9 6), (2, mkLocal ⟨2, 0⟩ 9 9 6)], audit := [] }
    let c : Caps := { localKind := .lru, localCap := 2, auditKind := .lru, auditCap := 2 }
    let t : Thread := { pidTgid := 1000 * 2 ^ 32 + 1001, uidGid := 5 * 2 ^ 32 + 1000 }
    let other : Thread := { pidTgid := 7 * 2 ^ 32 + 7, uidGid := 0 }
    lookup (tcpConnectB c (runB c (connect4B c s t (netIp 168 63 129 16) (bswap16 80) 6).1
        [.c4 other (netIp 168 63 129 16) (bswap16 80) 6]) t afInet (netIp 127 0 0 1) (bswap16 3080) 40123).audit (6, 40123) =
      some (mkAudit t (netIp 168 63 129 16) (bswap16 80)) := by decide

end bounded

/-! ### negative witness: audit writes that refuse to overwrite (`BPF_NOEXIST`) keep a stale record under a source port used again -/
def updateNoExist {κ β} [DecidableEq κ] (m : List (κ × β)) (k : κ) (v : β) : List (κ × β) :=
  if (lookup m k).isSome then m else update m k v

theorem noexist_keeps_the_earlier_callers_record :
    let earlier : Thread := { pidTgid := 7 * 2 ^ 32 + 7, uidGid := 1000 }
    let later : Thread := { pidTgid := 9 * 2 ^ 32 + 9, uidGid := 0 }
    -- an earlier connection from source port 40123 (uid 1000, to IMDS) left its record; root now connects to WireServer from that port
    let audit0 := update ([] : List ((Nat × Nat) × AuditVal)) (6, 40123) (mkAudit earlier (netIp 169 254 169 254) (bswap16 80))
    lookup (updateNoExist audit0 (6, 40123) (mkAudit later (netIp 168 63 129 16) (bswap16 80))) (6, 40123) =
        some (mkAudit earlier (netIp 169 254 169 254) (bswap16 80)) ∧
    lookup (update audit0 (6, 40123) (mkAudit later (netIp 168 63 129 16) (bswap16 80))) (6, 40123) =
        some (mkAudit later (netIp 168 63 129 16) (bswap16 80)) := by decide

/-! ### where the hook is attached -/
section attach
open Gpa.Attach

/-- the agent attaches at the first cgroup2 mount findmnt lists, and at the configured root when the lookup
gives nothing -/
theorem attach_point_is_first_listed (m : Mount) (ms : List Mount) (cfg : Mount) :
    attachPoint (.listed (m :: ms)) cfg = m ∧ attachPoint (.listed []) cfg = cfg ∧ attachPoint .failed cfg = cfg :=
  ⟨rfl, rfl, rfl⟩

/-- **C06(attach)** when the first mount listed (the one the system made at boot) is the whole hierarchy, the
connect hook runs for every process, whatever cgroup it lives in and whatever else is mounted later -/
theorem hook_runs_for_every_process (m : Mount) (ms : List Mount) (cfg : Mount) (h : m.top = []) (c : Cg) :
    hooked (attachPoint (.listed (m :: ms)) cfg).top c = true := by
  show hooked m.top c = true
  rw [h]; unfold hooked; cases c <;> rfl

/-- an attach point that is not the whole hierarchy leaves some process unhooked -/
theorem sub_cgroup_misses_a_process (a : Cg) (h : a ≠ []) : ∃ c : Cg, hooked a c = false := by
  refine ⟨[], ?_⟩
  cases a with
  | nil => exact absurd rfl h
  | cons x xs => rfl

/-- negative witness: choosing the LAST mount listed attaches below the root as soon as a sub-directory of the
hierarchy is bind-mounted somewhere, and a process outside that sub-directory is then never redirected -/
theorem last_listed_misses :
    let l := Lookup.listed [⟨"/sys/fs/cgroup", []⟩, ⟨"/run/c/cgroup", ["system.slice", "c.service"]⟩]
    (lastListed l).map (fun m => hooked m.top ["user.slice"]) = some false ∧
    (mountPath l).map (fun m => hooked m.top ["user.slice"]) = some true := by decide

end attach

/-! ### the policy map follows the last switch

`update_*_redirect_policy` is called whenever the reported channel state changes; what connect4 then does for
a destination is decided by the policy map alone (`redirect_iff`). After any history of switches the map must
say, for every destination, what the *last* switch for it said. -/
section switches

inductive Switch where
  | on (k v : Dest)
  | off (k : Dest)
  deriving DecidableEq, Repr

def Switch.key : Switch → Dest
  | .on k _ => k
  | .off k => k

def applySwitch (m : List (Dest × Dest)) : Switch → List (Dest × Dest)
  | .on k v => update m k v
  | .off k => delete m k

/-- the last switch of the history that names `k` -/
def lastFor (k : Dest) : List Switch → Option Switch
  | [] => none
  | s :: t => match lastFor k t with
    | some x => some x
    | none => if s.key = k then some s else none

theorem lookup_applySwitch (m : List (Dest × Dest)) (s : Switch) (k : Dest) :
    lookup (applySwitch m s) k =
      if s.key = k then (match s with | .on _ v => some v | .off _ => none) else lookup m k := by
  cases s with
  | on q v =>
    by_cases h : (Switch.on q v).key = k
    · rw [if_pos h]; have e : q = k := h; subst e; exact lookup_update_self _ _ _
    · rw [if_neg h]; exact lookup_update_other _ _ _ _ (fun e => h e.symm)
  | off q =>
    by_cases h : (Switch.off q).key = k
    · rw [if_pos h]; have e : q = k := h; subst e; exact lookup_delete_self _ _
    · rw [if_neg h]; exact lookup_delete_other _ _ _ (fun e => h e.symm)

/-- **C06 / C09 (policy map)** whatever the map held and whatever switches came before: after a history of
switches, a destination is redirected exactly as the last switch that names it said, and as before when none does -/
theorem policy_follows_last_switch (m : List (Dest × Dest)) (sw : List Switch) (k : Dest) :
    lookup (sw.foldl applySwitch m) k =
      match lastFor k sw with
      | some (.on _ v) => some v
      | some (.off _) => none
      | none => lookup m k := by
  induction sw generalizing m with
  | nil => rfl
  | cons s t ih =>
    simp only [List.foldl_cons]
    rw [ih]
    simp only [lastFor]
    cases h : lastFor k t with
    | some x => cases x <;> rfl
    | none =>
      simp only [lookup_applySwitch]
      by_cases hk : s.key = k
      · simp only [hk, if_true]; cases s <;> rfl
      · simp only [hk, if_false]

/-- negative witness: a switch that is skipped (the object was busy) leaves the destination redirected after
it was switched off — the map no longer says what the last switch said -/
theorem skipped_switch_leaves_policy_stale :
    let k : Dest := destKey 0x10813FA8 0x5000 ipprotoTcp
    let v : Dest := destKey 0x0100007F 0x080C ipprotoTcp
    lookup ([Switch.on k v].foldl applySwitch []) k = some v ∧
    lookup ([Switch.on k v, Switch.off k].foldl applySwitch []) k = none := by decide

example : lastFor [1] [Switch.on [1] [2], Switch.off [3], Switch.on [1] [4]] = some (Switch.on [1] [4]) := by decide

end switches

end Gpa.Props.C06
