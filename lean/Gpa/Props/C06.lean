/-
C06  Kernel hook redirects exactly the protected connects, records the true caller.
-/
import Gpa.Model.Ebpf
import Gpa.Model.Attach
import Gpa.Generated.Facts
namespace Gpa.Props.C06
open Gpa.Ebpf

/-- **C06(a)** redirect iff: the connect's address is rewritten to the policy value exactly when the
destination is listed in the policy and the calling process is not the agent; otherwise untouched -/
theorem redirect_iff (s : State) (t : Thread) (ip port proto : Nat) :
    (connect4 s t ip port proto).2 =
      match lookup s.policy (destKey ip port proto) with
      | some pol => if s.skip.contains t.pid then (ip, port) else (pol.getD 0 0, pol.getD 4 0)
      | none => (ip, port) := by
  unfold connect4
  cases lookup s.policy (destKey ip port proto) with
  | none => rfl
  | some pol => simp only; split <;> rfl

/-- connects to any other address, and all connects by the agent itself, leave every map untouched -/
theorem untouched_otherwise (s : State) (t : Thread) (ip port proto : Nat)
    (h : lookup s.policy (destKey ip port proto) = none ∨ s.skip.contains t.pid = true) :
    connect4 s t ip port proto = (s, ip, port) := by
  unfold connect4
  rcases h with h | h
  · rw [h]
  · cases lookup s.policy (destKey ip port proto) with
    | none => rfl
    | some pol => simp only; rw [if_pos h]

theorem agent_untouched_kprobe (s : State) (t : Thread) (family daddr dport lport : Nat)
    (h : s.skip.contains t.pid = true) : tcpConnect s t family daddr dport lport = s := by
  unfold tcpConnect; split <;> simp [h]

theorem lookup_update_self {κ β} [DecidableEq κ] (m : List (κ × β)) (k : κ) (v : β) : lookup (update m k v) k = some v := by
  simp [update, lookup]

theorem lookup_filter_ne {κ β} [DecidableEq κ] (m : List (κ × β)) (k q : κ) (h : q ≠ k) :
    lookup (m.filter fun kv => kv.1 ≠ k) q = lookup m q := by
  induction m with
  | nil => rfl
  | cons a rest ih =>
    obtain ⟨k', v⟩ := a
    by_cases hk : k' = k
    · subst hk
      have hq : ¬ k' = q := fun e => h e.symm
      have e1 : List.filter (fun kv : κ × β => decide (kv.1 ≠ k')) ((k', v) :: rest) =
          List.filter (fun kv : κ × β => decide (kv.1 ≠ k')) rest := by
        rw [List.filter_cons]; simp
      rw [e1, ih]
      simp [lookup, hq]
    · have e1 : List.filter (fun kv : κ × β => decide (kv.1 ≠ k)) ((k', v) :: rest) =
          (k', v) :: List.filter (fun kv : κ × β => decide (kv.1 ≠ k)) rest := by
        rw [List.filter_cons]; simp [hk]
      rw [e1]
      simp only [lookup]
      split
      · rfl
      · exact ih

theorem lookup_update_other {κ β} [DecidableEq κ] (m : List (κ × β)) (k q : κ) (v : β) (h : q ≠ k) :
    lookup (update m k v) q = lookup m q := by
  have : ¬ k = q := fun e => h e.symm
  simp only [update, lookup, this, ↓reduceIte]
  exact lookup_filter_ne m k q h

theorem lookup_delete_other {κ β} [DecidableEq κ] (m : List (κ × β)) (k q : κ) (h : q ≠ k) :
    lookup (delete m k) q = lookup m q := lookup_filter_ne m k q h

/-- what one hook invocation by thread `t'` does to the per-thread entry of another thread `t` -/
inductive HookOp where
  | c4 (t : Thread) (ip port proto : Nat)
  | tc (t : Thread) (family daddr dport lport : Nat)

def HookOp.thread : HookOp → Thread
  | .c4 t .. => t
  | .tc t .. => t

def stepOp (s : State) : HookOp → State
  | .c4 t ip port proto => (connect4 s t ip port proto).1
  | .tc t family daddr dport lport => tcpConnect s t family daddr dport lport

/-- hooks run by other threads never touch this thread's pending entry, nor the policy / skip maps -/
theorem other_thread_preserves (s : State) (op : HookOp) (key : Nat) (h : op.thread.pidTgid ≠ key) :
    lookup (stepOp s op).localMap key = lookup s.localMap key ∧
    (stepOp s op).policy = s.policy ∧ (stepOp s op).skip = s.skip := by
  have hk : key ≠ op.thread.pidTgid := fun e => h e.symm
  cases op with
  | c4 t ip port proto =>
    simp only [stepOp, connect4, HookOp.thread] at *
    cases lookup s.policy (destKey ip port proto) with
    | none => exact ⟨rfl, rfl, rfl⟩
    | some pol =>
      simp only
      split
      · exact ⟨rfl, rfl, rfl⟩
      · exact ⟨lookup_update_other _ _ _ _ hk, rfl, rfl⟩
  | tc t family daddr dport lport =>
    simp only [stepOp, tcpConnect, HookOp.thread] at *
    split
    · exact ⟨rfl, rfl, rfl⟩
    split
    · exact ⟨rfl, rfl, rfl⟩
    split
    · exact ⟨lookup_delete_other _ _ _ hk, rfl, rfl⟩
    · split <;> exact ⟨rfl, rfl, rfl⟩

theorem others_preserve (s : State) (ops : List HookOp) (key : Nat) (h : ∀ op ∈ ops, op.thread.pidTgid ≠ key) :
    lookup (ops.foldl stepOp s).localMap key = lookup s.localMap key ∧
    (ops.foldl stepOp s).policy = s.policy ∧ (ops.foldl stepOp s).skip = s.skip := by
  induction ops generalizing s with
  | nil => exact ⟨rfl, rfl, rfl⟩
  | cons op ops ih =>
    simp only [List.foldl_cons]
    have h1 := other_thread_preserves s op key (h op List.mem_cons_self)
    have h2 := ih (stepOp s op) (fun o ho => h o (List.mem_cons_of_mem _ ho))
    exact ⟨h2.1.trans h1.1, h2.2.1.trans h1.2.1, h2.2.2.trans h1.2.2⟩

/-- **C06(b)** the record: for a redirected connect attempt of thread `t` (cgroup hook, then —
after any hook invocations of *other* threads, in any order — the kprobe on the same thread), the
audit map holds, under the connection's local source port, the caller's user id (low half of
uid_gid), process id (high half of pid_tgid), whether that user id is 0, and the ORIGINAL
destination address and port. -/
theorem audit_record (s : State) (t : Thread) (ip port : Nat) (pol : Dest) (between : List HookOp)
    (family daddr dport lport : Nat)
    (hpol : lookup s.policy (destKey ip port ipprotoTcp) = some pol) (hskip : s.skip.contains t.pid = false)
    (hothers : ∀ op ∈ between, op.thread.pidTgid ≠ t.pidTgid) (hfam : family = afInet) :
    let s1 := (connect4 s t ip port ipprotoTcp).1
    let s2 := between.foldl stepOp s1
    let s3 := tcpConnect s2 t family daddr dport lport
    lookup s3.audit (ipprotoTcp, lport) = some (mkAudit t ip port) ∧
    lookup s3.localMap t.pidTgid = none := by
  intro s1 s2 s3
  have h1 : lookup s1.localMap t.pidTgid = some (mkLocal t ip port ipprotoTcp) := by
    simp only [s1, connect4, hpol, hskip, Bool.false_eq_true, ↓reduceIte]
    exact lookup_update_self _ _ _
  have hs1 : s1.skip = s.skip := by
    simp only [s1, connect4, hpol, hskip, Bool.false_eq_true, ↓reduceIte]
  obtain ⟨h2, _, h2s⟩ := others_preserve s1 between t.pidTgid hothers
  have hskip2 : s2.skip.contains t.pid = false := by
    show (between.foldl stepOp s1).skip.contains t.pid = false
    rw [h2s, hs1]; exact hskip
  have hl2 : lookup s2.localMap t.pidTgid = some (mkLocal t ip port ipprotoTcp) := by
    show lookup (between.foldl stepOp s1).localMap t.pidTgid = _
    rw [h2, h1]
  have hne : ¬ family ≠ afInet := by simp [hfam]
  constructor
  · simp only [s3, tcpConnect, hne, ↓reduceIte, hskip2, Bool.false_eq_true, hl2]
    rw [show (mkLocal t ip port ipprotoTcp).protocol = ipprotoTcp from rfl, lookup_update_self]
    rfl
  · simp only [s3, tcpConnect, hne, ↓reduceIte, hskip2, Bool.false_eq_true, hl2]
    simp only [delete]
    induction s2.localMap with
    | nil => rfl
    | cons a rest ih =>
      by_cases ha : a.1 = t.pidTgid
      · have e1 : List.filter (fun kv : Nat × LocalEntry => decide (kv.1 ≠ t.pidTgid)) (a :: rest) =
            List.filter (fun kv : Nat × LocalEntry => decide (kv.1 ≠ t.pidTgid)) rest := by
          rw [List.filter_cons]; simp [ha]
        rw [e1]; exact ih
      · have e1 : List.filter (fun kv : Nat × LocalEntry => decide (kv.1 ≠ t.pidTgid)) (a :: rest) =
            a :: List.filter (fun kv : Nat × LocalEntry => decide (kv.1 ≠ t.pidTgid)) rest := by
          rw [List.filter_cons]; simp [ha]
        rw [e1]
        obtain ⟨k, v⟩ := a
        simp only [lookup]
        rw [if_neg ha]; exact ih

/-- the recorded identity is the true caller: user id = LOW half of uid_gid, process id = HIGH half
of pid_tgid, is_root iff that user id is 0 -/
theorem record_is_true_caller (t : Thread) (ip port : Nat) :
    (mkAudit t ip port).logonId = lo32 t.uidGid ∧ (mkAudit t ip port).processId = hi32 t.pidTgid ∧
    ((mkAudit t ip port).isRoot = 1 ↔ lo32 t.uidGid = 0) ∧
    (mkAudit t ip port).destIp = ip ∧ (mkAudit t ip port).destPort = port := by
  refine ⟨rfl, rfl, ?_, rfl, rfl⟩
  simp only [mkAudit, Thread.uid]
  by_cases h : lo32 t.uidGid = 0 <;> simp [h]

/-- a connect that was not redirected and does not go to a protected address produces no record -/
theorem no_record_otherwise (s : State) (t : Thread) (family daddr dport lport : Nat)
    (hl : lookup s.localMap t.pidTgid = none) (hp : lookup s.policy (destKey daddr dport ipprotoTcp) = none) :
    tcpConnect s t family daddr dport lport = s := by
  unfold tcpConnect
  split; · rfl
  split; · rfl
  rw [hl]; simp only; rw [hp]

/-! ### layout and byte order agree between the kernel program and user space -/

theorem bswap16_involutive (p : Nat) (h : p < 65536) : bswap16 (bswap16 p) = p := by
  unfold bswap16
  have h1 : p / 256 < 256 := by omega
  have h2 : p % 256 < 256 := Nat.mod_lt _ (by decide)
  have h3 : p = p / 256 * 256 + p % 256 := by omega
  generalize p / 256 = q at *
  generalize p % 256 = r at *
  subst h3
  omega

/-- the policy key user space writes for (address, port) is the key the kernel program builds from
a connect to that address and port (`ctx->user_port` holds the port in network order) -/
theorem policy_key_agrees (ipv4 port : Nat) :
    rustPolicyEntry ipv4 port = destKey ipv4 (bswap16 port) ipprotoTcp := rfl

/-- the audit key user space looks up for a source port is the key the kprobe writes (`skc_num` is
in host order) -/
theorem audit_key_agrees (lport : Nat) : rustAuditKey lport = (ipprotoTcp, lport) := rfl

theorem netIp_bytes (a b c d : Nat) (ha : a < 256) (hb : b < 256) (hc : c < 256) (hd : d < 256) :
    netIp a b c d % 256 = a ∧ netIp a b c d / 256 % 256 = b ∧ netIp a b c d / 65536 % 256 = c ∧
    netIp a b c d / 16777216 % 256 = d := by
  unfold netIp
  refine ⟨by omega, by omega, by omega, by omega⟩

/-- decoding a record gives back the original destination a.b.c.d:port and the caller -/
theorem decode_roundtrip (uid pid a b c d port : Nat) (ha : a < 256) (hb : b < 256) (hc : c < 256) (hd : d < 256)
    (hp : port < 65536) :
    rustDecode { logonId := uid, processId := pid, isRoot := (if uid = 0 then 1 else 0), destIp := netIp a b c d, destPort := bswap16 port } =
      (uid, pid, (if uid = 0 then 1 else 0), [a, b, c, d], port) := by
  have hb16 : bswap16 port < 65536 := by unfold bswap16; omega
  obtain ⟨h0, h1, h2, h3⟩ := netIp_bytes a b c d ha hb hc hd
  simp only [rustDecode, Nat.mod_eq_of_lt hb16, bswap16_involutive port hp, h0, h1, h2, h3]

/-- `string_to_ip ∘ ip_to_string` is the identity on 32-bit addresses (segment level) -/
theorem ip_string_roundtrip (ip : Nat) (h : ip < 2 ^ 32) : segsToIp (ipToSegs ip) = ip := by
  unfold segsToIp ipToSegs; simp only; omega

/-- the well-known constants are the network-order forms of the documented addresses -/
theorem facts_addresses :
    Gpa.Facts.wireServerIpNetworkByteOrder = netIp 168 63 129 16 ∧
    Gpa.Facts.imdsIpNetworkByteOrder = netIp 169 254 169 254 ∧
    Gpa.Facts.proxyAgentIpNetworkByteOrder = netIp 127 0 0 1 := by decide

/-! ### negative witness (F4): taking the HIGH half of uid_gid records the group id -/
def uidFromHighHalf (t : Thread) : Nat := hi32 t.uidGid
theorem high_half_is_gid : uidFromHighHalf { pidTgid := 0, uidGid := 5 * 2 ^ 32 + 1000 } = 5 ∧
    Thread.uid { pidTgid := 0, uidGid := 5 * 2 ^ 32 + 1000 } = 1000 := by decide

/-! non-vacuity -/
def exState : State :=
  { policy := [(rustPolicyEntry (netIp 168 63 129 16) 80, rustPolicyEntry (netIp 127 0 0 1) 3080)], skip := [777], localMap := [], audit := [] }
def exThread : Thread := { pidTgid := 1000 * 2 ^ 32 + 1001, uidGid := 5 * 2 ^ 32 + 1000 }
example : (connect4 exState exThread (netIp 168 63 129 16) (bswap16 80) 6).2 = (netIp 127 0 0 1, bswap16 3080) := by decide
example : (connect4 exState exThread (netIp 168 63 129 16) (bswap16 81) 6).2 = (netIp 168 63 129 16, bswap16 81) := by decide

/-! ### where the hook is attached -/
section attach
open Gpa.Attach

/-- the agent attaches at the first cgroup2 mount findmnt lists, and at the configured root when the lookup
gives nothing -/
theorem attach_point_is_first_listed (m : Mount) (ms : List Mount) (cfg : Mount) :
    attachPoint (.listed (m :: ms)) cfg = m ∧ attachPoint (.listed []) cfg = cfg ∧ attachPoint .failed cfg = cfg :=
  ⟨rfl, rfl, rfl⟩

/-- **C06(attach)** when the first mount listed (the one the system made at boot) is the whole hierarchy, the
connect hook runs for every process, whatever cgroup it lives in and whatever else is mounted later -/
theorem hook_runs_for_every_process (m : Mount) (ms : List Mount) (cfg : Mount) (h : m.top = []) (c : Cg) :
    hooked (attachPoint (.listed (m :: ms)) cfg).top c = true := by
  show hooked m.top c = true
  rw [h]; unfold hooked; cases c <;> rfl

/-- an attach point that is not the whole hierarchy leaves some process unhooked -/
theorem sub_cgroup_misses_a_process (a : Cg) (h : a ≠ []) : ∃ c : Cg, hooked a c = false := by
  refine ⟨[], ?_⟩
  cases a with
  | nil => exact absurd rfl h
  | cons x xs => rfl

/-- negative witness: choosing the LAST mount listed attaches below the root as soon as a sub-directory of the
hierarchy is bind-mounted somewhere, and a process outside that sub-directory is then never redirected -/
theorem last_listed_misses :
    let l := Lookup.listed [⟨"/sys/fs/cgroup", []⟩, ⟨"/run/c/cgroup", ["system.slice", "c.service"]⟩]
    (lastListed l).map (fun m => hooked m.top ["user.slice"]) = some false ∧
    (mountPath l).map (fun m => hooked m.top ["user.slice"]) = some true := by decide

end attach

end Gpa.Props.C06
