/-
C09  Agent state converges to the host's latest secure-channel status.
-/
import Gpa.Model.KeyKeeper
namespace Gpa.Props.C09
open Gpa.KeyKeeper Gpa.Text

/-- **C09(a)** a poll whose status request fails, or returns an invalid document, changes nothing -/
theorem failed_status_is_noop (a : Agent) (fs : KeyDir) (ans : Answers)
    (h : ans.status = .failed ∨ ∃ d, ans.status = .doc d ∧ d.valid = false) :
    poll a fs ans = (a, fs, [], false) := by
  rcases h with h | ⟨d, h, hv⟩
  · simp [poll, h]
  · simp [poll, h, hv]

/-- the host contract under which rule *content* is determined by the latest document: an endpoint
whose id the agent already holds carries the item the agent already holds -/
def Consistent (a : Agent) (d : Doc) : Prop :=
  (a.wsId = idOf (itemOf d d.ws) → a.wsRules = itemOf d d.ws) ∧
  (a.imdsId = idOf (itemOf d d.imds) → a.imdsRules = itemOf d d.imds) ∧
  (a.hostgaId = idOf (itemOf d d.hostga) → a.hostgaRules = itemOf d d.hostga)

theorem casRules_id (curId : Str) (cur newItem : Option RuleItem) : (casRules curId cur newItem).1 = idOf newItem := by
  unfold casRules; split
  · rename_i h; exact h
  · rfl

theorem casRules_rules (curId : Str) (cur newItem : Option RuleItem) (h : curId = idOf newItem → cur = newItem) :
    (casRules curId cur newItem).2 = newItem := by
  unfold casRules; split
  · rename_i he; exact h he
  · rfl

theorem finishPoll_spec (a : Agent) (d : Doc) :
    (finishPoll a d).1.chan = d.state ∧
    (finishPoll a d).1.wsId = a.wsId ∧ (finishPoll a d).1.imdsId = a.imdsId ∧ (finishPoll a d).1.hostgaId = a.hostgaId ∧
    (finishPoll a d).1.wsRules = a.wsRules ∧ (finishPoll a d).1.imdsRules = a.imdsRules ∧ (finishPoll a d).1.hostgaRules = a.hostgaRules ∧
    ((finishPoll a d).1.key = a.key ∨ (d.state = sDisabled ∧ (finishPoll a d).1.key = none)) ∧
    (a.chan ≠ d.state → d.state = sDisabled → (finishPoll a d).1.key = none) ∧
    ((finishPoll a d).2 = if a.chan = d.state then [] else
      [Out.policy "wireserver" (d.wsMode ≠ sDisabled), .policy "imds" (d.imdsMode ≠ sDisabled), .policy "hostga" (d.hostgaMode ≠ sDisabled)]) := by
  unfold finishPoll
  by_cases h : a.chan = d.state
  · rw [if_pos h]; simp [h]
  · rw [if_neg h]
    by_cases hd : d.state = sDisabled
    · have h' : ¬ a.chan = sDisabled := by rw [← hd]; exact h
      simp [hd, h']
    · simp [hd, h]

/-- the agent state right before `finishPoll` in a completed iteration -/
structure Mid (a : Agent) (d : Doc) (m : Agent) : Prop where
  wsId : m.wsId = idOf (itemOf d d.ws)
  imdsId : m.imdsId = idOf (itemOf d d.imds)
  hostgaId : m.hostgaId = idOf (itemOf d d.hostga)
  chan : m.chan = a.chan
  rules : Consistent a d → m.wsRules = itemOf d d.ws ∧ m.imdsRules = itemOf d d.imds ∧ m.hostgaRules = itemOf d d.hostga

theorem mid_applyRules (a : Agent) (d : Doc) (key : Option Key) : Mid a d { applyRules a d with key := key } := by
  refine ⟨casRules_id _ _ _, casRules_id _ _ _, casRules_id _ _ _, rfl, ?_⟩
  intro hcons
  exact ⟨casRules_rules _ _ _ hcons.1, casRules_rules _ _ _ hcons.2.1, casRules_rules _ _ _ hcons.2.2⟩

/-- what the key stage can return -/
theorem keyStage_spec (a : Agent) (fs : KeyDir) (ans : Answers) (d : Doc) :
    (needKey a d = false ∧ keyStage a fs ans d = (some a.key, fs, [])) ∨
    (needKey a d = true ∧ ∃ g k, d.keyGuid = some g ∧ fetchKey fs g = some k ∧ keyStage a fs ans d = (some (some k), fs, [])) ∨
    (needKey a d = true ∧ ∃ k fs', ans.acquire = some k ∧ ans.storeOk = true ∧ ans.attestOk = true ∧ fetchKey fs' k.guid = some k ∧
        keyStage a fs ans d = (some (some k), fs', [.acquired k.guid, .attested k.guid])) ∨
    (∃ fs' outs, keyStage a fs ans d = (none, fs', outs) ∧ ∀ o ∈ outs, ∀ e b, o ≠ .policy e b) := by
  by_cases hn : needKey a d = true
  · cases hl : d.keyGuid.bind (fetchKey fs) with
    | some k =>
      have he : keyStage a fs ans d = (some (some k), fs, []) := by
        unfold keyStage; simp [hn, hl]
      right; left
      refine ⟨hn, ?_⟩
      cases hg : d.keyGuid with
      | none => simp [hg] at hl
      | some g => exact ⟨g, k, rfl, by simpa [hg] using hl, he⟩
    | none =>
      cases hacq : ans.acquire with
      | none =>
        have he : keyStage a fs ans d = (none, fs, []) := by unfold keyStage; simp [hn, hl, hacq]
        right; right; right; exact ⟨fs, [], he, by intro o ho; cases ho⟩
      | some k =>
        by_cases hst : ans.storeOk = true
        · by_cases hchk : fetchKey { final := setF fs.final k.guid (.complete k), tmp := delF fs.tmp k.guid } k.guid = some k
          · by_cases hat : ans.attestOk = true
            · have he : keyStage a fs ans d = (some (some k), { final := setF fs.final k.guid (.complete k), tmp := delF fs.tmp k.guid },
                  [.acquired k.guid, .attested k.guid]) := by
                unfold keyStage; simp [hn, hl, hacq, hst, hchk, hat]
              right; right; left
              exact ⟨hn, k, _, rfl, hst, hat, hchk, he⟩
            · have he : keyStage a fs ans d = (none, { final := setF fs.final k.guid (.complete k), tmp := delF fs.tmp k.guid },
                  [.acquired k.guid]) := by
                unfold keyStage; simp [hn, hl, hacq, hst, hchk, hat]
              right; right; right
              refine ⟨_, _, he, ?_⟩
              intro o ho e b; simp only [List.mem_singleton] at ho; rw [ho]; simp
          · have he : keyStage a fs ans d = (none, { final := setF fs.final k.guid (.complete k), tmp := delF fs.tmp k.guid },
                [.acquired k.guid]) := by
              unfold keyStage; simp [hn, hl, hacq, hst, hchk]
            right; right; right
            refine ⟨_, _, he, ?_⟩
            intro o ho e b; simp only [List.mem_singleton] at ho; rw [ho]; simp
        · have he : keyStage a fs ans d = (none, fs, [.acquired k.guid]) := by
            unfold keyStage; simp [hn, hl, hacq, hst]
          right; right; right
          refine ⟨_, _, he, ?_⟩
          intro o ho e b; simp only [List.mem_singleton] at ho; rw [ho]; simp
  · have hn' : needKey a d = false := by simpa using hn
    left
    exact ⟨hn', by unfold keyStage; simp [hn']⟩

/-- a completed iteration is `finishPoll` applied to such a state, whose key is: unchanged (no key
needed), the local key for the named guid, or the freshly acquired, stored, verified and attested key -/
theorem poll_completed (a : Agent) (fs : KeyDir) (ans : Answers) (d : Doc)
    (hs : ans.status = .doc d) (hc : (poll a fs ans).2.2.2 = true) :
    ∃ m : Agent, Mid a d m ∧ (poll a fs ans).1 = (finishPoll m d).1 ∧
      (∃ pre, (poll a fs ans).2.2.1 = pre ++ (finishPoll m d).2 ∧ ∀ o ∈ pre, ∀ e b, o ≠ .policy e b) ∧
      ((m.key = a.key ∧ needKey a d = false) ∨
       (needKey a d = true ∧ ∃ g k, d.keyGuid = some g ∧ fetchKey fs g = some k ∧ m.key = some k) ∨
       (needKey a d = true ∧ ∃ k, ans.acquire = some k ∧ ans.storeOk = true ∧ ans.attestOk = true ∧ m.key = some k ∧
          fetchKey (poll a fs ans).2.1 k.guid = some k)) := by
  unfold poll at hc ⊢
  simp only [hs] at hc ⊢
  by_cases hv : d.valid = true
  · simp only [hv, Bool.not_true, Bool.false_eq_true, ↓reduceIte] at hc ⊢
    rcases keyStage_spec a fs ans d with ⟨hn, he⟩ | ⟨hn, g, k, hg, hf, he⟩ | ⟨hn, k, fs', hacq, hst, hat, hchk, he⟩ | ⟨fs', outs, he, _⟩
    · rw [he] at hc ⊢
      exact ⟨_, mid_applyRules a d a.key, rfl, ⟨[], by simp, by intro o ho; cases ho⟩, Or.inl ⟨rfl, hn⟩⟩
    · rw [he] at hc ⊢
      exact ⟨_, mid_applyRules a d (some k), rfl, ⟨[], by simp, by intro o ho; cases ho⟩, Or.inr (Or.inl ⟨hn, g, k, hg, hf, rfl⟩)⟩
    · rw [he] at hc ⊢
      refine ⟨_, mid_applyRules a d (some k), rfl, ⟨[.acquired k.guid, .attested k.guid], rfl, ?_⟩,
        Or.inr (Or.inr ⟨hn, k, hacq, hst, hat, rfl, hchk⟩)⟩
      intro o ho e b
      simp only [List.mem_cons, List.mem_nil_iff, or_false] at ho
      rcases ho with h | h <;> (rw [h]; simp)
    · rw [he] at hc; simp at hc
  · simp [hv] at hc

/-- an iteration that does not complete leaves the channel state and the key as they were -/
theorem poll_abandoned (a : Agent) (fs : KeyDir) (ans : Answers) (hc : (poll a fs ans).2.2.2 = false) :
    (poll a fs ans).1.chan = a.chan ∧ (poll a fs ans).1.key = a.key := by
  unfold poll at hc ⊢
  cases hs : ans.status with
  | failed => simp
  | doc d =>
    simp only [hs] at hc ⊢
    by_cases hv : d.valid = true
    · simp only [hv, Bool.not_true, Bool.false_eq_true, ↓reduceIte] at hc ⊢
      rcases keyStage_spec a fs ans d with ⟨_, he⟩ | ⟨_, _, _, _, _, he⟩ | ⟨_, _, _, _, _, _, _, he⟩ | ⟨fs', outs, he, _⟩
      · rw [he] at hc; simp at hc
      · rw [he] at hc; simp at hc
      · rw [he] at hc; simp at hc
      · rw [he]; exact ⟨rfl, rfl⟩
    · simp [hv]

/-- **C09(b)** convergence: whatever the prior history left in the agent, an iteration that completes
with document `d` leaves the rule ids, the channel state and — under the host contract — the rules
of every endpoint exactly as `d` says -/
theorem convergence_rules_and_state (a : Agent) (fs : KeyDir) (ans : Answers) (d : Doc)
    (hs : ans.status = .doc d) (hc : (poll a fs ans).2.2.2 = true) :
    let a' := (poll a fs ans).1
    a'.wsId = idOf (itemOf d d.ws) ∧ a'.imdsId = idOf (itemOf d d.imds) ∧ a'.hostgaId = idOf (itemOf d d.hostga) ∧
    a'.chan = d.state ∧
    (Consistent a d → a'.wsRules = itemOf d d.ws ∧ a'.imdsRules = itemOf d d.imds ∧ a'.hostgaRules = itemOf d d.hostga) := by
  obtain ⟨m, hm, heq, _, _⟩ := poll_completed a fs ans d hs hc
  obtain ⟨f1, f2, f3, f4, f5, f6, f7, _⟩ := finishPoll_spec m d
  simp only [heq]
  refine ⟨by rw [f2, hm.wsId], by rw [f3, hm.imdsId], by rw [f4, hm.hostgaId], f1, ?_⟩
  intro hcons
  obtain ⟨r1, r2, r3⟩ := hm.rules hcons
  exact ⟨by rw [f5, r1], by rw [f6, r2], by rw [f7, r3]⟩

/-- **C09(c)** whenever the reported channel state changes, each endpoint is intercepted exactly
when its mode is not disabled; when it does not change no policy update is made -/
theorem convergence_policy (a : Agent) (fs : KeyDir) (ans : Answers) (d : Doc)
    (hs : ans.status = .doc d) (hc : (poll a fs ans).2.2.2 = true) :
    ((poll a fs ans).2.2.1.filter fun o => match o with | .policy _ _ => true | _ => false) =
      if a.chan = d.state then [] else
        [Out.policy "wireserver" (d.wsMode ≠ sDisabled), .policy "imds" (d.imdsMode ≠ sDisabled), .policy "hostga" (d.hostgaMode ≠ sDisabled)] := by
  obtain ⟨m, hm, _, ⟨pre, hpre, hnp⟩, _⟩ := poll_completed a fs ans d hs hc
  have hfp := (finishPoll_spec m d).2.2.2.2.2.2.2.2.2
  rw [hpre, List.filter_append, hfp, hm.chan]
  have : pre.filter (fun o => match o with | .policy _ _ => true | _ => false) = [] := by
    rw [List.filter_eq_nil_iff]
    intro o ho
    cases o with
    | policy e b => exact absurd rfl (hnp _ ho e b)
    | acquired g => simp
    | attested g => simp
  rw [this]
  split <;> simp

/-- the invariant: a stored channel state `disabled` means no key is held -/
def NoKeyWhenDisabled (a : Agent) : Prop := a.chan = sDisabled → a.key = none

theorem unknown_ne_disabled : "Unknown".toList ≠ sDisabled := by decide

theorem inv_init : NoKeyWhenDisabled Agent.init := by
  intro h; exact absurd h unknown_ne_disabled

/-- **C09(d)** preserved by every iteration — completed, failed, or abandoned at any step — for
every host answer and every state of the key directory -/
theorem inv_poll (a : Agent) (fs : KeyDir) (ans : Answers) (h : NoKeyWhenDisabled a) :
    NoKeyWhenDisabled (poll a fs ans).1 := by
  cases hs : ans.status with
  | failed => simp only [poll, hs]; exact h
  | doc d =>
    by_cases hc : (poll a fs ans).2.2.2 = true
    · obtain ⟨m, hm, heq, _, hkey⟩ := poll_completed a fs ans d hs hc
      obtain ⟨f1, _, _, _, _, _, _, fk, fk2, _⟩ := finishPoll_spec m d
      rw [heq]
      intro hdis
      rw [f1] at hdis
      by_cases hch : m.chan = d.state
      · -- channel state unchanged and disabled: no key was needed, the key is the old one
        have hnd : needKey a d = true → False := by
          intro hn; simp only [needKey, Bool.and_eq_true, decide_eq_true_eq] at hn; exact hn.1 hdis
        rcases hkey with ⟨hk, _⟩ | ⟨hn, _⟩ | ⟨hn, _⟩
        · rcases fk with e | ⟨_, e⟩
          · rw [e, hk]; apply h; rw [← hm.chan, hch, hdis]
          · exact e
        · exact absurd hn (fun x => hnd x)
        · exact absurd hn (fun x => hnd x)
      · exact fk2 hch hdis
    · -- abandoned iteration: channel state and key are the old ones
      have := poll_abandoned a fs ans (by simpa using hc)
      intro hdis
      rw [this.2]; apply h; rw [← this.1]; exact hdis

theorem inv_history (hist : List (KeyDir × Answers)) (a : Agent) (h : NoKeyWhenDisabled a) :
    NoKeyWhenDisabled (hist.foldl (fun a x => (poll a x.1 x.2).1) a) := by
  induction hist generalizing a with
  | nil => exact h
  | cons x xs ih => exact ih _ (inv_poll a x.1 x.2 h)

/-- **C09(e)** the key after a completed iteration: none when the channel is reported disabled;
otherwise the key already held (when the document names it), the local key stored under the guid
the host names as latched, or the key just acquired, stored, read back and attested -/
theorem convergence_key (a : Agent) (fs : KeyDir) (ans : Answers) (d : Doc) (hinv : NoKeyWhenDisabled a)
    (hs : ans.status = .doc d) (hc : (poll a fs ans).2.2.2 = true) :
    let a' := (poll a fs ans).1
    (d.state = sDisabled → a'.key = none) ∧
    (d.state ≠ sDisabled →
      (a'.key = a.key ∧ d.keyGuid = a.key.map (·.guid) ∧ d.keyGuid.isSome) ∨
      (∃ g k, d.keyGuid = some g ∧ fetchKey fs g = some k ∧ a'.key = some k) ∨
      (∃ k, ans.acquire = some k ∧ a'.key = some k ∧ fetchKey (poll a fs ans).2.1 k.guid = some k)) := by
  have hI := inv_poll a fs ans hinv
  obtain ⟨m, hm, heq, _, hkey⟩ := poll_completed a fs ans d hs hc
  obtain ⟨f1, _, _, _, _, _, _, fk, _, _⟩ := finishPoll_spec m d
  constructor
  · intro hd
    apply hI
    rw [heq, f1, hd]
  · intro hne
    have hk' : (finishPoll m d).1.key = m.key := by
      rcases fk with e | ⟨e, _⟩
      · exact e
      · exact absurd e hne
    rcases hkey with ⟨hk, hnn⟩ | ⟨_, g, k, hg, hf, hk⟩ | ⟨_, k, hacq, _, _, hk, hchk⟩
    · left
      have h2 : ¬ (d.keyGuid.isNone ∨ d.keyGuid ≠ a.key.map (·.guid)) := by
        intro hh
        have : needKey a d = true := by
          simp only [needKey, Bool.and_eq_true, decide_eq_true_eq, Bool.or_eq_true]
          exact ⟨hne, hh.elim Or.inl Or.inr⟩
        rw [this] at hnn; cases hnn
      have h3 : d.keyGuid = a.key.map (·.guid) := by
        by_cases e : d.keyGuid = a.key.map (·.guid)
        · exact e
        · exact absurd (Or.inr e) h2
      have h4 : d.keyGuid.isSome = true := by
        cases hkg : d.keyGuid with
        | none => exact absurd (Or.inl (by simp [hkg])) h2
        | some _ => rfl
      exact ⟨by simp only [heq, hk', hk], h3, h4⟩
    · right; left; exact ⟨g, k, hg, hf, by simp only [heq, hk', hk]⟩
    · right; right; exact ⟨k, hacq, by simp only [heq, hk', hk], hchk⟩

/-! non-vacuity -/
def docEnabled : Doc := { schemeOk := true, version := v1, secureChannelState := some "WireServer".toList, secureChannelEnabled := none,
                          keyGuid := none, ws := none, imds := none, hostga := none, hasRules := false }
def k1 : Key := { guid := "g1".toList, key := "aa".toList }
example : (poll Agent.init ⟨[], []⟩ ⟨.doc docEnabled, some k1, true, true⟩).2.2.2 = true := by decide
example : (poll Agent.init ⟨[], []⟩ ⟨.doc docEnabled, some k1, true, true⟩).1.key = some k1 := by decide
example : (poll Agent.init ⟨[], []⟩ ⟨.doc docEnabled, some k1, true, false⟩).1.key = none := by decide

/-! ### where the key in memory can come from -/

theorem finishPoll_key (x : Agent) (d : Doc) : (finishPoll x d).1.key = x.key ∨ (finishPoll x d).1.key = none := by
  unfold finishPoll
  dsimp only
  split
  · exact Or.inl rfl
  · split
    · exact Or.inr rfl
    · exact Or.inl rfl

theorem applyRules_key (a : Agent) (d : Doc) : (applyRules a d).key = a.key := rfl

/-- **C09(f)** provenance of the key: after any poll the agent holds the key it held before, or none, or the local
key the status document names, or the key the host issued in this very poll AND acknowledged the attestation of —
never a key whose attestation failed -/
theorem key_provenance (a : Agent) (fs : KeyDir) (ans : Answers) :
    (poll a fs ans).1.key = a.key ∨ (poll a fs ans).1.key = none ∨
    (∃ d g k, ans.status = .doc d ∧ d.keyGuid = some g ∧ fetchKey fs g = some k ∧ (poll a fs ans).1.key = some k) ∨
    (∃ k, ans.acquire = some k ∧ ans.attestOk = true ∧ (poll a fs ans).1.key = some k) := by
  unfold poll
  cases hs : ans.status with
  | failed => exact Or.inl rfl
  | doc d =>
    simp only []
    by_cases hv : d.valid = true
    · simp only [hv, Bool.not_true, Bool.false_eq_true, ↓reduceIte]
      rcases keyStage_spec a fs ans d with ⟨_, he⟩ | ⟨_, g, k, hg, hf, he⟩ | ⟨_, k, fs', hacq, _, hatt, _, he⟩ | ⟨fs', outs, he, _⟩
      · rw [he]; simp only []
        rcases finishPoll_key { applyRules a d with key := a.key } d with h | h
        · exact Or.inl h
        · exact Or.inr (Or.inl h)
      · rw [he]; simp only []
        rcases finishPoll_key { applyRules a d with key := some k } d with h | h
        · exact Or.inr (Or.inr (Or.inl ⟨d, g, k, rfl, hg, hf, h⟩))
        · exact Or.inr (Or.inl h)
      · rw [he]; simp only []
        rcases finishPoll_key { applyRules a d with key := some k } d with h | h
        · exact Or.inr (Or.inr (Or.inr ⟨k, hacq, hatt, h⟩))
        · exact Or.inr (Or.inl h)
      · rw [he]; exact Or.inl rfl
    · have hv' : d.valid = false := by simpa using hv
      simp only [hv', Bool.not_false, ↓reduceIte]
      exact Or.inl trivial


/-! ### a rule change at the level of actor messages

`applyRules` is one step in the model; the source makes it with separate messages to the state actor
(`Get…RuleId`, `Set…RuleId`, `Set…Rules`), and a request can read the rules between any two of them. -/
section ruleMessages

/-- the messages together are the compare-and-set of the model -/
theorem rule_change_refines_cas (c : RuleCell) (new : Option RuleItem) :
    (changeProgram c new).foldl rstep c = ⟨(casRules c.id c.rules new).1, (casRules c.id c.rules new).2⟩ := by
  unfold changeProgram casRules
  split <;> rfl

/-- **C09 / C01 (rule change in progress)** wherever a request's read falls among the messages of a rule
change, it finds the rules that were in force before or the new ones — never a state without rules when
both documents carry some -/
theorem reader_between_messages_sees_old_or_new (c : RuleCell) (new : Option RuleItem) (k : Nat) :
    (((changeProgram c new).take k).foldl rstep c).rules = c.rules ∨
    (((changeProgram c new).take k).foldl rstep c).rules = new := by
  unfold changeProgram
  split
  · left; simp
  · match k with
    | 0 => left; rfl
    | 1 => left; rfl
    | k + 2 => right; simp [List.take, rstep]

/-- negative witness: an actor that forgets the rules when the id is set leaves a window without rules -/
theorem dropping_rules_at_set_id_opens_a_window :
    let old : RuleItem := ⟨"a".toList, sEnforce, 1⟩
    let new : RuleItem := ⟨"b".toList, sEnforce, 2⟩
    let dropStep (c : RuleCell) : RMsg → RuleCell
      | .setId i => { id := i, rules := none }
      | .setRules r => { c with rules := r }
    (((changeProgram ⟨old.id, some old⟩ (some new)).take 1).foldl dropStep ⟨old.id, some old⟩).rules = none ∧
    (((changeProgram ⟨old.id, some old⟩ (some new)).take 1).foldl rstep ⟨old.id, some old⟩).rules = some old := by
  decide

end ruleMessages

end Gpa.Props.C09
