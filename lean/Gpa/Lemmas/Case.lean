/-
Lower-casing is idempotent (so "compared in lower case" is the same as "compared case-insensitively").
-/
import Gpa.Model.Text
namespace Gpa.Text

theorem upper_idem : ∀ n, n < 91 → 65 ≤ n → lowerChar (lowerChar (Char.ofNat n)) = lowerChar (Char.ofNat n) := by decide

theorem lowerChar_idem (c : Char) : lowerChar (lowerChar c) = lowerChar c := by
  by_cases h : 'A' ≤ c ∧ c ≤ 'Z'
  · have h1 : 65 ≤ c.toNat := h.1
    have h2 : c.toNat ≤ 90 := h.2
    have := upper_idem c.toNat (by omega) h1
    rwa [Char.ofNat_toNat] at this
  · by_cases h2 : c = Char.ofNat 0x212A
    · subst h2; decide
    · have e : lowerChar c = c := by simp [lowerChar, h, h2]
      rw [e, e]

theorem lower_idem (s : Str) : lower (lower s) = lower s := by
  simp [lower, List.map_map, Function.comp_def, lowerChar_idem]

end Gpa.Text
