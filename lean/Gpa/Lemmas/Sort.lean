/- order lemmas for `strLt` and the structural insertion sort -/
import Gpa.Model.Text
namespace Gpa.Text

theorem strLt_irrefl (a : Str) : strLt a a = false := by
  induction a with
  | nil => rfl
  | cons x xs ih => simp [strLt, ih]

theorem strLt_asymm (a b : Str) (h : strLt a b = true) : strLt b a = false := by
  induction a generalizing b with
  | nil => cases b <;> simp [strLt] at *
  | cons x xs ih =>
    cases b with
    | nil => simp [strLt] at h
    | cons y ys =>
      simp only [strLt] at h ⊢
      by_cases h1 : x.toNat < y.toNat
      · have : ¬ y.toNat < x.toNat := by omega
        simp [this, h1]
      · by_cases h2 : y.toNat < x.toNat
        · simp [h1, h2] at h
        · simp only [h1, h2, ↓reduceIte] at h ⊢
          exact ih ys h

/-- negative transitivity: `a ≥ b` and `b ≥ c` give `a ≥ c` -/
theorem strLt_negtrans (a b c : Str) (h1 : strLt a b = false) (h2 : strLt b c = false) : strLt a c = false := by
  induction a generalizing b c with
  | nil =>
    cases b with
    | nil => exact h2
    | cons y ys => simp [strLt] at h1
  | cons x xs ih =>
    cases c with
    | nil => simp [strLt]
    | cons z zs =>
      cases b with
      | nil => simp [strLt] at h2
      | cons y ys =>
        simp only [strLt] at h1 h2 ⊢
        by_cases hxy : x.toNat < y.toNat
        · simp [hxy] at h1
        · by_cases hyx : y.toNat < x.toNat
          · -- x > y ≥ z
            by_cases hyz : y.toNat < z.toNat
            · simp [hyz] at h2
            · have : ¬ x.toNat < z.toNat := by omega
              have : z.toNat < x.toNat := by omega
              simp [*]
          · -- x = y
            simp only [hxy, hyx, ↓reduceIte] at h1
            by_cases hyz : y.toNat < z.toNat
            · simp [hyz] at h2
            · by_cases hzy : z.toNat < y.toNat
              · have h3 : ¬ x.toNat < z.toNat := by omega
                have h4 : z.toNat < x.toNat := by omega
                simp [h3, h4]
              · simp only [hyz, hzy, ↓reduceIte] at h2
                have h3 : ¬ x.toNat < z.toNat := by omega
                have h4 : ¬ z.toNat < x.toNat := by omega
                simp only [h3, h4, ↓reduceIte]
                exact ih ys zs h1 h2

/-- a list is sorted when no later element is strictly smaller than an earlier one -/
def Sorted {α} (lt : α → α → Bool) : List α → Prop
  | [] => True
  | x :: xs => (∀ z ∈ xs, lt z x = false) ∧ Sorted lt xs

/-- a strict weak order: asymmetric and negatively transitive -/
structure WeakOrder {α} (lt : α → α → Bool) : Prop where
  asymm : ∀ a b, lt a b = true → lt b a = false
  negtrans : ∀ a b c, lt a b = false → lt b c = false → lt a c = false

theorem mem_insertBy {α} (lt : α → α → Bool) (x : α) (l : List α) (z : α) :
    z ∈ insertBy lt x l ↔ z = x ∨ z ∈ l := by
  induction l with
  | nil => simp [insertBy]
  | cons y ys ih =>
    simp only [insertBy]
    split
    · simp only [List.mem_cons, ih]
      constructor
      · rintro (h | h | h)
        · exact Or.inr (Or.inl h)
        · exact Or.inl h
        · exact Or.inr (Or.inr h)
      · rintro (h | h | h)
        · exact Or.inr (Or.inl h)
        · exact Or.inl h
        · exact Or.inr (Or.inr h)
    · simp [List.mem_cons]

theorem sorted_insertBy {α} (lt : α → α → Bool) (wo : WeakOrder lt) (x : α) (l : List α) (h : Sorted lt l) :
    Sorted lt (insertBy lt x l) := by
  induction l with
  | nil => simp [insertBy, Sorted]
  | cons y ys ih =>
    simp only [insertBy]
    by_cases hlt : lt y x = true
    · rw [if_pos hlt]
      refine ⟨?_, ih h.2⟩
      intro z hz
      rcases (mem_insertBy lt x ys z).mp hz with e | e
      · rw [e]; exact wo.asymm y x hlt
      · exact h.1 z e
    · rw [if_neg hlt]
      have hyx : lt y x = false := by simpa using hlt
      refine ⟨?_, h⟩
      intro z hz
      rcases List.mem_cons.mp hz with e | e
      · rw [e]; exact hyx
      · exact wo.negtrans z y x (h.1 z e) hyx

theorem sorted_sortBy {α} (lt : α → α → Bool) (wo : WeakOrder lt) (l : List α) : Sorted lt (sortBy lt l) := by
  induction l with
  | nil => trivial
  | cons x xs ih => exact sorted_insertBy lt wo x _ ih

theorem insertBy_of_all_ge {α} (lt : α → α → Bool) (x : α) (l : List α) (h : ∀ z ∈ l, lt z x = false) :
    insertBy lt x l = x :: l := by
  cases l with
  | nil => rfl
  | cons y ys => simp [insertBy, h y List.mem_cons_self]

theorem sorted_filter {α} (lt : α → α → Bool) (p : α → Bool) (l : List α) (h : Sorted lt l) : Sorted lt (l.filter p) := by
  induction l with
  | nil => trivial
  | cons y ys ih =>
    simp only [List.filter_cons]
    split
    · exact ⟨fun z hz => h.1 z (List.mem_filter.mp hz).1, ih h.2⟩
    · exact ih h.2

theorem filter_insertBy {α} (lt : α → α → Bool) (wo : WeakOrder lt) (p : α → Bool) (x : α) (l : List α)
    (hs : Sorted lt l) :
    (insertBy lt x l).filter p = if p x then insertBy lt x (l.filter p) else l.filter p := by
  induction l with
  | nil => by_cases h : p x <;> simp [insertBy, h]
  | cons y ys ih =>
    simp only [insertBy]
    by_cases hlt : lt y x = true
    · simp only [hlt, ↓reduceIte, List.filter_cons, ih hs.2]
      by_cases hy : p y = true <;> by_cases hx : p x = true <;> simp [hy, hx, insertBy, hlt]
    · have hyx : lt y x = false := by simpa using hlt
      simp only [hlt, Bool.false_eq_true, ↓reduceIte, List.filter_cons]
      by_cases hy : p y = true <;> by_cases hx : p x = true <;> simp [hy, hx, insertBy, hlt]
      -- p y false, p x true: x stays in front of everything that is left
      symm
      apply insertBy_of_all_ge
      intro z hz
      exact wo.negtrans z y x (hs.1 z (List.mem_filter.mp hz).1) hyx

/-- filtering commutes with the (stable insertion) sort, for a strict weak order -/
theorem filter_sortBy {α} (lt : α → α → Bool) (wo : WeakOrder lt) (p : α → Bool) (l : List α) :
    (sortBy lt l).filter p = sortBy lt (l.filter p) := by
  induction l with
  | nil => rfl
  | cons x xs ih =>
    simp only [sortBy, filter_insertBy lt wo p x _ (sorted_sortBy lt wo xs), ih, List.filter_cons]
    by_cases hx : p x = true <;> simp [hx, sortBy]

/-- the order used for header names and parameter keys -/
theorem keyOrder_weak {β} : WeakOrder (fun (a b : Str × β) => strLt a.1 b.1) :=
  ⟨fun a b h => strLt_asymm a.1 b.1 h, fun a b c h1 h2 => strLt_negtrans a.1 b.1 c.1 h1 h2⟩

/-- `strLt` is total: two texts neither of which is smaller are equal -/
theorem strLt_total (a b : Str) (h1 : strLt a b = false) (h2 : strLt b a = false) : a = b := by
  induction a generalizing b with
  | nil =>
    cases b with
    | nil => rfl
    | cons y ys => simp [strLt] at h1
  | cons x xs ih =>
    cases b with
    | nil => simp [strLt] at h2
    | cons y ys =>
      simp only [strLt] at h1 h2
      by_cases hxy : x.toNat < y.toNat
      · simp [hxy] at h1
      · by_cases hyx : y.toNat < x.toNat
        · simp [hyx] at h2
        · simp only [hxy, hyx, ↓reduceIte] at h1 h2
          have hc : x = y := Char.toNat_inj.mp (by omega)
          rw [hc, ih ys h1 h2]

theorem perm_insertBy {α} (lt : α → α → Bool) (x : α) (l : List α) : (insertBy lt x l).Perm (x :: l) := by
  induction l with
  | nil => exact List.Perm.refl _
  | cons y ys ih =>
    simp only [insertBy]
    split
    · exact (List.Perm.cons y ih).trans (List.Perm.swap x y ys)
    · exact List.Perm.refl _

theorem perm_sortBy {α} (lt : α → α → Bool) (l : List α) : (sortBy lt l).Perm l := by
  induction l with
  | nil => exact List.Perm.refl _
  | cons x xs ih => exact (perm_insertBy lt x _).trans (List.Perm.cons x ih)

/-- two sorted lists with the same elements are equal, when elements that compare equal are equal -/
theorem sorted_perm_eq {α} (lt : α → α → Bool) (l1 l2 : List α) (hp : l1.Perm l2) (h1 : Sorted lt l1) (h2 : Sorted lt l2)
    (tot : ∀ a ∈ l1, ∀ b ∈ l1, lt a b = false → lt b a = false → a = b) : l1 = l2 := by
  induction l1 generalizing l2 with
  | nil => exact (List.Perm.nil_eq hp)
  | cons x xs ih =>
    cases l2 with
    | nil => exact absurd hp.symm (List.Perm.nil_eq · |> fun h => by cases h)
    | cons y ys =>
      have hx : x ∈ y :: ys := hp.subset (List.mem_cons_self ..)
      have hy : y ∈ x :: xs := hp.symm.subset (List.mem_cons_self ..)
      have hxy : x = y := by
        rcases List.mem_cons.mp hx with e | e
        · exact e
        · rcases List.mem_cons.mp hy with e' | e'
          · exact e'.symm
          · exact tot x (List.mem_cons_self ..) y hy (h1.1 y e' |> fun h => by
              -- lt y x = false from sortedness of l1, lt x y = false from sortedness of l2
              exact h2.1 x e) (h1.1 y e')
      subst hxy
      have hp' : xs.Perm ys := List.Perm.cons_inv hp
      rw [ih ys hp' h1.2 h2.2 (fun a ha b hb => tot a (List.mem_cons_of_mem _ ha) b (List.mem_cons_of_mem _ hb))]

/-- sorting does not depend on the order of the input, when elements that compare equal are equal -/
theorem sortBy_perm {α} (lt : α → α → Bool) (wo : WeakOrder lt) (l1 l2 : List α) (hp : l1.Perm l2)
    (tot : ∀ a ∈ l1, ∀ b ∈ l1, lt a b = false → lt b a = false → a = b) : sortBy lt l1 = sortBy lt l2 := by
  apply sorted_perm_eq lt _ _ (((perm_sortBy lt l1).trans hp).trans (perm_sortBy lt l2).symm)
    (sorted_sortBy lt wo l1) (sorted_sortBy lt wo l2)
  intro a ha b hb
  exact tot a ((perm_sortBy lt l1).subset ha) b ((perm_sortBy lt l1).subset hb)

end Gpa.Text
