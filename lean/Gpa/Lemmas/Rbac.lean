/- lemmas about rule flattening (`buildAssignments`) -/
import Gpa.Lemmas.Map
namespace Gpa.Rbac
open Gpa.Text Gpa.Url

def assigned (acc : Map (List Str)) (pn : Str) : List Str := (Map.get? acc pn).getD []

theorem mem_addFold (idents : Map Identity) (names cur : List Str) (n : Str) :
    n ∈ names.foldl (fun s n => if idents.contains n ∧ ¬ s.contains n then s ++ [n] else s) cur ↔
      n ∈ cur ∨ (n ∈ names ∧ idents.contains n = true) := by
  induction names generalizing cur with
  | nil => simp
  | cons hd tl ih =>
    simp only [List.foldl_cons, ih, List.mem_cons]
    by_cases h1 : idents.contains hd = true
    · by_cases h2 : cur.contains hd = true
      · simp only [h1, h2, not_true_eq_false, and_false, ↓reduceIte]
        constructor
        · rintro (h | ⟨h, hc⟩)
          · exact Or.inl h
          · exact Or.inr ⟨Or.inr h, hc⟩
        · rintro (h | ⟨h | h, hc⟩)
          · exact Or.inl h
          · subst h; exact Or.inl (by simpa using h2)
          · exact Or.inr ⟨h, hc⟩
      · simp only [h1, h2, Bool.false_eq_true, not_false_eq_true, and_self, ↓reduceIte, List.mem_append,
          List.mem_singleton]
        constructor
        · rintro ((h | h) | ⟨h, hc⟩)
          · exact Or.inl h
          · subst h; exact Or.inr ⟨Or.inl rfl, h1⟩
          · exact Or.inr ⟨Or.inr h, hc⟩
        · rintro (h | ⟨h | h, hc⟩)
          · exact Or.inl (Or.inl h)
          · exact Or.inl (Or.inr h)
          · exact Or.inr ⟨h, hc⟩
    · simp only [h1, Bool.false_eq_true, false_and, ↓reduceIte]
      constructor
      · rintro (h | ⟨h, hc⟩)
        · exact Or.inl h
        · exact Or.inr ⟨Or.inr h, hc⟩
      · rintro (h | ⟨h | h, hc⟩)
        · exact Or.inl h
        · subst h; exact absurd hc h1
        · exact Or.inr ⟨h, hc⟩

theorem mem_assigned_add (idents : Map Identity) (acc : Map (List Str)) (pn pn' : Str) (names : List Str) (n : Str) :
    n ∈ assigned (addAssignments idents acc pn names) pn' ↔
      n ∈ assigned acc pn' ∨ (pn' = pn ∧ n ∈ names ∧ idents.contains n = true) := by
  simp only [assigned, addAssignments, Map.get?_insert]
  by_cases h : pn = pn'
  · subst h
    simp only [↓reduceIte, Option.getD_some, mem_addFold, true_and]
  · have h' : ¬ pn' = pn := fun e => h e.symm
    simp [h, h']

theorem mem_assigned_role (privDict : Map Privilege) (idents : Map Identity) (ra : Assignment)
    (privs : List Str) (acc : Map (List Str)) (pn n : Str) :
    n ∈ assigned (privs.foldl (fun acc pn =>
        if privDict.contains pn then addAssignments idents acc pn ra.identities else acc) acc) pn ↔
      n ∈ assigned acc pn ∨
        (pn ∈ privs ∧ privDict.contains pn = true ∧ n ∈ ra.identities ∧ idents.contains n = true) := by
  induction privs generalizing acc with
  | nil => simp
  | cons hd tl ih =>
    simp only [List.foldl_cons, ih, List.mem_cons]
    by_cases hc : privDict.contains hd = true
    · simp only [hc, ↓reduceIte, mem_assigned_add]
      constructor
      · rintro ((h | ⟨h1, h2, h3⟩) | ⟨h1, h2, h3, h4⟩)
        · exact Or.inl h
        · exact Or.inr ⟨Or.inl h1, h1 ▸ hc, h2, h3⟩
        · exact Or.inr ⟨Or.inr h1, h2, h3, h4⟩
      · rintro (h | ⟨h1 | h1, h2, h3, h4⟩)
        · exact Or.inl (Or.inl h)
        · exact Or.inl (Or.inr ⟨h1, h3, h4⟩)
        · exact Or.inr ⟨h1, h2, h3, h4⟩
    · simp only [hc, Bool.false_eq_true, ↓reduceIte]
      constructor
      · rintro (h | ⟨h1, h2, h3, h4⟩)
        · exact Or.inl h
        · exact Or.inr ⟨Or.inr h1, h2, h3, h4⟩
      · rintro (h | ⟨h1 | h1, h2, h3, h4⟩)
        · exact Or.inl h
        · subst h1; exact absurd h2 hc
        · exact Or.inr ⟨h1, h2, h3, h4⟩

theorem mem_assigned_build_aux (roleDict : Map Role) (privDict : Map Privilege) (idents : Map Identity)
    (ras : List Assignment) (acc : Map (List Str)) (pn n : Str) :
    n ∈ assigned (ras.foldl (fun acc ra =>
        match roleDict.get? ra.role with
        | some role =>
          role.privileges.foldl (fun acc pn =>
            if privDict.contains pn then addAssignments idents acc pn ra.identities else acc) acc
        | none => acc) acc) pn ↔
      n ∈ assigned acc pn ∨
        ∃ ra ∈ ras, ∃ role, roleDict.get? ra.role = some role ∧ pn ∈ role.privileges ∧
          privDict.contains pn = true ∧ n ∈ ra.identities ∧ idents.contains n = true := by
  induction ras generalizing acc with
  | nil => simp
  | cons hd tl ih =>
    simp only [List.foldl_cons, ih, List.mem_cons, exists_eq_or_imp]
    cases hr : roleDict.get? hd.role with
    | none => simp
    | some role =>
      simp only [mem_assigned_role, Option.some.injEq, exists_eq_left']
      constructor
      · rintro ((h | h) | h)
        · exact Or.inl h
        · exact Or.inr (Or.inl h)
        · exact Or.inr (Or.inr h)
      · rintro (h | h | h)
        · exact Or.inl (Or.inl h)
        · exact Or.inl (Or.inr h)
        · exact Or.inr h

/-- **rule flattening**: identity `n` ends up assigned to privilege `pn` exactly when some role
assignment names a *defined* role that lists `pn`, `pn` is a *defined* privilege, the assignment
lists `n`, and `n` is a *defined* identity (dangling names are skipped). No distinctness needed. -/
theorem mem_assigned_build (roleDict : Map Role) (privDict : Map Privilege) (idents : Map Identity)
    (ras : List Assignment) (pn n : Str) :
    n ∈ assigned (buildAssignments roleDict privDict idents ras) pn ↔
        ∃ ra ∈ ras, ∃ role, roleDict.get? ra.role = some role ∧ pn ∈ role.privileges ∧
          privDict.contains pn = true ∧ n ∈ ra.identities ∧ idents.contains n = true := by
  have := mem_assigned_build_aux roleDict privDict idents ras [] pn n
  have h0 : ∀ x, x ∉ assigned ([] : Map (List Str)) pn := by intro x; simp [assigned]
  simp only [h0, false_or] at this
  exact this

/-- `compute` in terms of the four sections (missing section = all empty) -/
theorem compute_eq (it : Item) :
    compute it =
      { defaultAllowed := lower it.defaultAccess = "allow".toList, mode := parseMode it.mode,
        privileges := Map.ofList ((sections it).1.map fun p => (p.name, p)),
        assignments := buildAssignments (Map.ofList ((sections it).2.1.map fun r => (r.name, r)))
          (Map.ofList ((sections it).1.map fun p => (p.name, p)))
          (Map.ofList ((sections it).2.2.1.map fun i => (i.name, i))) (sections it).2.2.2,
        identities := Map.ofList ((sections it).2.2.1.map fun i => (i.name, i)) } := by
  obtain ⟨d, m, r⟩ := it
  rcases r with _ | ⟨_ | ps, _ | rs, _ | ids, _ | ras⟩ <;>
    first | rfl | simp [compute, sections, Map.ofList, buildAssignments]

theorem granted_iff (c : Computed) (pn : Str) (cl : Claims) :
    granted c pn cl = true ↔
      ∃ n ∈ assigned c.assignments pn, ∃ i, c.identities.get? n = some i ∧ identMatch i cl = true := by
  simp only [granted, assigned]
  cases h : Map.get? c.assignments pn with
  | none => simp
  | some names =>
    simp only [List.any_eq_true, Option.getD_some]
    constructor
    · rintro ⟨n, hn, hm⟩
      refine ⟨n, hn, ?_⟩
      cases hi : Map.get? c.identities n with
      | none => simp [hi] at hm
      | some i => exact ⟨i, rfl, by simpa [hi] using hm⟩
    · rintro ⟨n, hn, i, hi, hm⟩
      exact ⟨n, hn, by simp [hi, hm]⟩

theorem keyed_fst {α : Type} (key : α → Str) (l : List α) :
    (l.map fun a => (key a, a)).map Prod.fst = l.map key := by simp [List.map_map, Function.comp_def]

theorem contains_keyed {α : Type} (key : α → Str) (l : List α) (h : (l.map key).Nodup) (k : Str) :
    Map.contains (l.map fun a => (key a, a)) k = true ↔ ∃ x ∈ l, key x = k := by
  simp only [Map.contains, Option.isSome_iff_exists, Map.get?_keyed key l h]

theorem specGranted_iff (it : Item) (p : Privilege) (cl : Claims) :
    specGranted it p cl = true ↔
      ∃ a ∈ (sections it).2.2.2, ∃ r ∈ (sections it).2.1, r.name = a.role ∧ p.name ∈ r.privileges ∧
        ∃ n ∈ a.identities, ∃ i ∈ (sections it).2.2.1, i.name = n ∧ identMatch i cl = true := by
  simp only [specGranted]
  generalize sections it = s
  obtain ⟨ps, rs, ids, ras⟩ := s
  simp only [List.any_eq_true, Bool.and_eq_true, decide_eq_true_eq, List.contains_iff_mem]
  constructor
  · rintro ⟨a, ha, r, hr, ⟨h1, h2⟩, n, hn, i, hi, h3, h4⟩
    exact ⟨a, ha, r, hr, h1, h2, n, hn, i, hi, h3, h4⟩
  · rintro ⟨a, ha, r, hr, h1, h2, n, hn, i, hi, h3, h4⟩
    exact ⟨a, ha, r, hr, ⟨h1, h2⟩, n, hn, i, hi, h3, h4⟩

theorem granted_eq_spec (it : Item) (hd : distinctNames it = true) (p : Privilege)
    (hp : p ∈ (sections it).1) (cl : Claims) :
    granted (compute it) p.name cl = specGranted it p cl := by
  rw [Bool.eq_iff_iff, granted_iff, specGranted_iff, compute_eq]
  simp only [distinctNames] at hd
  generalize sections it = s at *
  obtain ⟨ps, rs, ids, ras⟩ := s
  simp only [Bool.and_eq_true, decide_eq_true_eq] at hd
  obtain ⟨⟨hP, hR⟩, hI⟩ := hd
  simp only
  rw [Map.ofList_nodup (ps.map fun p => (p.name, p)) (by rw [keyed_fst]; exact hP),
    Map.ofList_nodup (rs.map fun r => (r.name, r)) (by rw [keyed_fst]; exact hR),
    Map.ofList_nodup (ids.map fun i => (i.name, i)) (by rw [keyed_fst]; exact hI)]
  simp only [mem_assigned_build, Map.get?_keyed _ _ hR, Map.get?_keyed _ _ hI,
    contains_keyed _ _ hP, contains_keyed _ _ hI]
  constructor
  · rintro ⟨n, ⟨ra, hra, role, ⟨hrole, hrn⟩, hpn, _, hn, _⟩, i, ⟨hi, hin⟩, hm⟩
    exact ⟨ra, hra, role, hrole, hrn, hpn, n, hn, i, hi, hin, hm⟩
  · rintro ⟨ra, hra, role, hrole, hrn, hpn, n, hn, i, hi, hin, hm⟩
    exact ⟨n, ⟨ra, hra, role, ⟨hrole, hrn⟩, hpn, ⟨p, hp, rfl⟩, hn, ⟨i, hi, hin⟩⟩, i, ⟨hi, hin⟩, hm⟩


end Gpa.Rbac
