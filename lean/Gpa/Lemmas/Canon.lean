/- lemmas about the canonical string -/
import Gpa.Model.Canon
import Gpa.Lemmas.Headers
import Gpa.Lemmas.Sort
namespace Gpa.Canon
open Gpa.Text Gpa.Headers Gpa.Url

theorem any_name_filter_ne (n m : Str) (l : Headers) (h : m ≠ n) :
    (l.filter fun kv => kv.1 ≠ n).any (fun kv => kv.1 = m) = l.any (fun kv => kv.1 = m) := by
  induction l with
  | nil => rfl
  | cons a t ih =>
    by_cases ha : a.1 = n
    · have hm : ¬ a.1 = m := by rw [ha]; exact fun e => h e.symm
      have e1 : List.filter (fun kv : Str × Str => decide (kv.1 ≠ n)) (a :: t) =
          List.filter (fun kv : Str × Str => decide (kv.1 ≠ n)) t := by
        rw [List.filter_cons]; simp [ha]
      rw [e1, ih, List.any_cons]
      simp [hm]
    · have e1 : List.filter (fun kv : Str × Str => decide (kv.1 ≠ n)) (a :: t) =
          a :: List.filter (fun kv : Str × Str => decide (kv.1 ≠ n)) t := by
        rw [List.filter_cons]; simp [ha]
      rw [e1, List.any_cons, List.any_cons, ih]

/-- `lastPerName` commutes with dropping every entry of one name -/
theorem lastPerName_filter_ne (n : Str) (l : Headers) :
    (lastPerName l).filter (fun kv => kv.1 ≠ n) = lastPerName (l.filter fun kv => kv.1 ≠ n) := by
  induction l with
  | nil => rfl
  | cons a t ih =>
    obtain ⟨m, w⟩ := a
    by_cases hm : m = n
    · subst hm
      have e : List.filter (fun kv : Str × Str => decide (kv.1 ≠ m)) ((m, w) :: t) =
          List.filter (fun kv : Str × Str => decide (kv.1 ≠ m)) t := by
        rw [List.filter_cons]; simp
      rw [e, ← ih]
      simp only [lastPerName]
      split
      · rfl
      · rw [List.filter_cons]; simp
    · have e : List.filter (fun kv : Str × Str => decide (kv.1 ≠ n)) ((m, w) :: t) =
          (m, w) :: List.filter (fun kv : Str × Str => decide (kv.1 ≠ n)) t := by
        rw [List.filter_cons]; simp [hm]
      rw [e]
      simp only [lastPerName, any_name_filter_ne n m t hm]
      split
      · exact ih
      · rw [List.filter_cons, ih]; simp [hm]

theorem mem_insert (n v : Str) (hs : Headers) (x : Str × Str) (h : x ∈ insert n v hs) : x = (n, v) ∨ x ∈ hs := by
  induction hs with
  | nil => simp [Headers.insert] at h; exact Or.inl h
  | cons a t ih =>
    obtain ⟨m, w⟩ := a
    simp only [Headers.insert] at h
    by_cases hm : m = n
    · simp only [hm, ↓reduceIte, List.mem_cons, List.mem_filter] at h
      rcases h with h | ⟨h, _⟩
      · exact Or.inl h
      · exact Or.inr (List.mem_cons_of_mem _ h)
    · simp only [hm, ↓reduceIte, List.mem_cons] at h
      rcases h with h | h
      · exact Or.inr (by rw [h]; exact List.mem_cons_self)
      · rcases ih h with h' | h'
        · exact Or.inl h'
        · exact Or.inr (List.mem_cons_of_mem _ h')

/-- **the host recomputes the same header part**: inserting the authorization header into a head
does not change its canonical form (the rule skips that header) -/
theorem canonHeaders_insert_auth (hs : Headers) (v : Str) :
    canonHeaders (insert authHeader v hs) = canonHeaders hs := by
  unfold canonHeaders
  simp only
  rw [filter_sortBy _ keyOrder_weak, lastPerName_filter_ne, ← remove, remove_insert_self, remove,
    ← lastPerName_filter_ne, ← filter_sortBy _ keyOrder_weak]

theorem sigInput_insert_auth (method : Str) (body : List UInt8) (hs : Headers) (u : Uri) (v : Str) :
    sigInput method body (insert authHeader v hs) u = sigInput method body hs u := by
  unfold sigInput; rw [canonHeaders_insert_auth]

end Gpa.Canon
