/- structural lemmas about the pipeline stages -/
import Gpa.Model.Pipeline
import Gpa.Lemmas.Headers
namespace Gpa.Pipeline
open Gpa.Text Gpa.Url Gpa.Headers Gpa.Canon Gpa.Rbac

variable (mac : Str → List UInt8 → Str)

/-- the header map the proxy builds before signing -/
def ownedHeaders (env : Env) (caller : Caller) (r : Req) : Headers :=
  insert dateHeader env.now (insert claimsHeader (claimsValue caller.elevated) (ofWire r.headers))

theorem handle_eq_connStage (env : Env) (conn : Conn) (r : Req)
    (hl : ¬ (r.declared.getD 0) > limitFor r) (ht : containsSub r.uri.path ['.', '.'] = false)
    (hp : r.uri.toStr ≠ provisionUrl) :
    handle mac env conn r = connStage mac env conn r := by
  unfold handle
  rw [if_neg hl, if_neg (by rw [ht]; exact Bool.false_ne_true), if_neg hp]

theorem connStage_attributed (env : Env) (conn : Conn) (r : Req) (ip : Str) (port : Nat) (c : Caller)
    (hd : conn.dest = some (ip, port)) (hc : conn.caller = some c) :
    connStage mac env conn r = authStage mac env ip port c r := by
  unfold connStage; rw [hd, hc]

theorem authStage_err (env : Env) (r : Req) (ip : Str) (port : Nat) (c : Caller)
    (h : rulesFor (endpointOf ip port) env = .err) :
    authStage mac env ip port c r = ⟨.respond 500, 0⟩ := by
  unfold authStage; rw [h]

theorem authStage_forbidden (env : Env) (r : Req) (ip : Str) (port : Nat) (c : Caller) (rules)
    (hr : rulesFor (endpointOf ip port) env = .ok rules)
    (h : authorize (endpointOf ip port) c r.uri rules = .forbidden) :
    authStage mac env ip port c r = ⟨.respond 403, 1⟩ := by
  unfold authStage; rw [hr]; simp [h]

theorem authStage_pass (env : Env) (r : Req) (ip : Str) (port : Nat) (c : Caller) (rules)
    (hr : rulesFor (endpointOf ip port) env = .ok rules)
    (h : authorize (endpointOf ip port) c r.uri rules ≠ .forbidden) :
    authStage mac env ip port c r =
      ⟨forwardStage mac env c r, if authorize (endpointOf ip port) c r.uri rules = .ok then 0 else 1⟩ := by
  unfold authStage; rw [hr]; simp [h]

/-- every relayed request comes out of `forwardStage` for the connection's own caller -/
theorem handle_forward (env : Env) (conn : Conn) (r : Req) (u : UpReq)
    (h : (handle mac env conn r).outcome = .forward u) :
    ∃ ip port caller rules,
      conn.dest = some (ip, port) ∧ conn.caller = some caller ∧
      containsSub r.uri.path ['.', '.'] = false ∧ ¬ (r.declared.getD 0) > limitFor r ∧
      r.uri.toStr ≠ provisionUrl ∧
      rulesFor (endpointOf ip port) env = .ok rules ∧
      authorize (endpointOf ip port) caller r.uri rules ≠ .forbidden ∧
      forwardStage mac env caller r = .forward u := by
  unfold handle at h
  by_cases hl : (r.declared.getD 0) > limitFor r
  · rw [if_pos hl] at h; cases h
  rw [if_neg hl] at h
  by_cases ht : containsSub r.uri.path ['.', '.'] = true
  · rw [if_pos ht] at h; cases h
  rw [if_neg ht] at h
  by_cases hp : r.uri.toStr = provisionUrl
  · rw [if_pos hp] at h; cases h
  rw [if_neg hp] at h
  cases hd : conn.dest with
  | none => unfold connStage at h; rw [hd] at h; cases h
  | some d =>
    obtain ⟨ip, port⟩ := d
    cases hc : conn.caller with
    | none => unfold connStage at h; rw [hd, hc] at h; cases h
    | some caller =>
      rw [connStage_attributed mac env conn r ip port caller hd hc] at h
      cases hr : rulesFor (endpointOf ip port) env with
      | err => rw [authStage_err mac env r ip port caller hr] at h; cases h
      | ok rules =>
        by_cases hf : authorize (endpointOf ip port) caller r.uri rules = .forbidden
        · rw [authStage_forbidden mac env r ip port caller rules hr hf] at h; cases h
        · rw [authStage_pass mac env r ip port caller rules hr hf] at h
          exact ⟨ip, port, caller, rules, rfl, rfl, by simpa using ht, hl, hp, hr, hf, h⟩

/-- shape of what `forwardStage` sends -/
theorem forwardStage_forward (env : Env) (caller : Caller) (r : Req) (u : UpReq)
    (h : forwardStage mac env caller r = .forward u) :
    u.method = r.method ∧ u.uri = r.uri ∧ u.body = r.body ∧ r.body.length ≤ limitFor r ∧
    ((u.headers = ownedHeaders env caller r ∧ u.signed = none ∧ shouldSkipSig r.method r.uri = true) ∨
     (u.headers = signedHeaders r (ownedHeaders env caller r) ∧ u.signed = none ∧
        (env.key = none ∨ ∃ g k, env.key = some (g, k) ∧ isHexKey k = false)) ∨
     (∃ guid key si, env.key = some (guid, key) ∧ shouldSkipSig r.method r.uri = false ∧ isHexKey key = true ∧
        sigInput r.method r.body (signedHeaders r (ownedHeaders env caller r)) r.uri = si ∧
        u.headers = insert authHeader (authScheme ++ [' '] ++ guid ++ [' '] ++ mac key si)
          (signedHeaders r (ownedHeaders env caller r)) ∧
        u.signed = some (guid, si))) := by
  unfold forwardStage at h
  simp only at h
  by_cases hb : r.body.length > limitFor r
  · rw [if_pos hb] at h; cases h
  rw [if_neg hb] at h
  have hle : r.body.length ≤ limitFor r := Nat.le_of_not_gt hb
  by_cases hs : shouldSkipSig r.method r.uri = true
  · rw [if_pos hs] at h
    simp only [mkForward, Outcome.forward.injEq] at h
    subst h
    exact ⟨rfl, rfl, rfl, hle, Or.inl ⟨rfl, rfl, hs⟩⟩
  · rw [if_neg hs] at h
    unfold signStage at h
    cases hk : env.key with
    | none =>
      rw [hk] at h
      simp only [mkForward, Outcome.forward.injEq] at h
      subst h
      exact ⟨rfl, rfl, rfl, hle, Or.inr (Or.inl ⟨rfl, rfl, Or.inl rfl⟩)⟩
    | some gk =>
      obtain ⟨guid, key⟩ := gk
      rw [hk] at h
      simp only at h
      by_cases hx : isHexKey key = true
      · rw [if_pos hx] at h
        simp only [mkForward, Outcome.forward.injEq] at h
        subst h
        exact ⟨rfl, rfl, rfl, hle, Or.inr (Or.inr ⟨guid, key, _, rfl, by simpa using hs, hx, rfl, rfl, rfl⟩)⟩
      · rw [if_neg hx] at h
        simp only [mkForward, Outcome.forward.injEq] at h
        subst h
        exact ⟨rfl, rfl, rfl, hle, Or.inr (Or.inl ⟨rfl, rfl, Or.inr ⟨guid, key, rfl, by simpa using hx⟩⟩)⟩

/-- no stage of the request path panics any more: every request gets an outcome that is an answer -/
theorem handle_no_panic (env : Env) (conn : Conn) (r : Req) : (handle mac env conn r).outcome ≠ .panic := by
  unfold handle
  split; · simp
  split; · simp
  split; · simp
  unfold connStage
  split; · simp
  split; · simp
  unfold authStage
  split; · simp
  simp only
  split; · simp
  simp only [forwardStage]
  split; · simp
  split; · simp [mkForward]
  unfold signStage
  split; · simp [mkForward]
  simp only
  split <;> simp [mkForward]

end Gpa.Pipeline
