/-
Bounded BPF maps (C06): an entry written to an LRU map survives as long as fewer than `cap` other keys are
written after it. Core Lean only.
-/
import Gpa.Model.Ebpf
namespace Gpa.Ebpf

variable {κ β : Type} [DecidableEq κ]

/-- the entry for `k` is in the map with value `v`, behind at most `j` more recently written entries -/
def Holds (m : List (κ × β)) (k : κ) (v : β) (j : Nat) : Prop :=
  ∃ pre post, m = pre ++ (k, v) :: post ∧ (∀ kv ∈ pre, kv.1 ≠ k) ∧ pre.length ≤ j

theorem lookup_append_of_not_mem (pre rest : List (κ × β)) (k : κ) (h : ∀ kv ∈ pre, kv.1 ≠ k) :
    lookup (pre ++ rest) k = lookup rest k := by
  induction pre with
  | nil => rfl
  | cons a pre ih =>
    obtain ⟨k', v'⟩ := a
    have hk : k' ≠ k := h (k', v') List.mem_cons_self
    simp only [List.cons_append, lookup, if_neg hk]
    exact ih (fun kv hkv => h kv (List.mem_cons_of_mem _ hkv))

theorem Holds.lookup_eq {m : List (κ × β)} {k : κ} {v : β} {j : Nat} (h : Holds m k v j) : lookup m k = some v := by
  obtain ⟨pre, post, rfl, hpre, _⟩ := h
  rw [lookup_append_of_not_mem pre _ k hpre]
  simp only [lookup, if_true]

theorem Holds.mono {m : List (κ × β)} {k : κ} {v : β} {j j' : Nat} (h : Holds m k v j) (hj : j ≤ j') : Holds m k v j' := by
  obtain ⟨pre, post, e, hpre, hl⟩ := h
  exact ⟨pre, post, e, hpre, Nat.le_trans hl hj⟩

theorem filter_ne_split (pre post : List (κ × β)) (k k' : κ) (v : β) (hk : k' ≠ k) :
    (pre ++ (k, v) :: post).filter (fun kv => kv.1 ≠ k') =
      pre.filter (fun kv => kv.1 ≠ k') ++ (k, v) :: post.filter (fun kv => kv.1 ≠ k') := by
  rw [List.filter_append, List.filter_cons]
  have : decide ((k, v).1 ≠ k') = true := by simp only [decide_eq_true_eq]; exact fun e => hk e.symm
  rw [if_pos this]

theorem Holds.delete_other {m : List (κ × β)} {k : κ} {v : β} {j : Nat} (h : Holds m k v j) (k' : κ) (hk : k' ≠ k) :
    Holds (delete m k') k v j := by
  obtain ⟨pre, post, rfl, hpre, hl⟩ := h
  refine ⟨pre.filter (fun kv => kv.1 ≠ k'), post.filter (fun kv => kv.1 ≠ k'), ?_, ?_, ?_⟩
  · unfold delete; exact filter_ne_split pre post k k' v hk
  · intro kv hkv; exact hpre kv (List.mem_filter.mp hkv).1
  · exact Nat.le_trans (List.length_filter_le _ _) hl

theorem Holds.update_other {m : List (κ × β)} {k : κ} {v : β} {j : Nat} (h : Holds m k v j) (k' : κ) (v' : β) (hk : k' ≠ k) :
    Holds (update m k' v') k v (j + 1) := by
  obtain ⟨pre, post, rfl, hpre, hl⟩ := h
  refine ⟨(k', v') :: pre.filter (fun kv => kv.1 ≠ k'), post.filter (fun kv => kv.1 ≠ k'), ?_, ?_, ?_⟩
  · unfold update; rw [filter_ne_split pre post k k' v hk]; rfl
  · intro kv hkv
    cases List.mem_cons.mp hkv with
    | inl e => rw [e]; exact hk
    | inr hin => exact hpre kv (List.mem_filter.mp hin).1
  · simp only [List.length_cons]
    exact Nat.succ_le_succ (Nat.le_trans (List.length_filter_le _ _) hl)

theorem Holds.dropLast {m : List (κ × β)} {k : κ} {v : β} {j : Nat} (h : Holds m k v j) (hlen : j + 1 < m.length) :
    Holds m.dropLast k v j := by
  obtain ⟨pre, post, rfl, hpre, hl⟩ := h
  have hpost : post ≠ [] := by
    intro e
    rw [e] at hlen
    simp only [List.length_append, List.length_cons, List.length_nil] at hlen
    omega
  refine ⟨pre, post.dropLast, ?_, hpre, hl⟩
  rw [List.dropLast_append_of_ne_nil (by simp), List.dropLast_cons_of_ne_nil hpost]

/-- writing another key to an LRU map of capacity `cap` keeps an entry that has fewer than `cap - 1` newer ones in front of it -/
theorem Holds.updateB_lru_other {m : List (κ × β)} {k : κ} {v : β} {j : Nat} (h : Holds m k v j) (cap : Nat) (k' : κ) (v' : β)
    (hk : k' ≠ k) (hj : j + 1 < cap) : Holds (updateB .lru cap m k' v') k v (j + 1) := by
  unfold updateB
  split
  · exact h.update_other k' v' hk
  · split
    · exact h.update_other k' v' hk
    · rename_i hfull
      have hd := h.dropLast (by omega)
      obtain ⟨pre, post, e, hpre, hl⟩ := hd
      refine ⟨(k', v') :: pre, post, ?_, ?_, ?_⟩
      · show (k', v') :: m.dropLast = _
        rw [e]; rfl
      · intro kv hkv
        cases List.mem_cons.mp hkv with
        | inl e' => rw [e']; exact hk
        | inr hin => exact hpre kv hin
      · simp only [List.length_cons]; omega

/-- the key just written to an LRU map is found with the value written, whatever the map held -/
theorem holds_updateB_lru_self (m : List (κ × β)) (cap : Nat) (k : κ) (v : β) : Holds (updateB .lru cap m k v) k v 0 := by
  unfold updateB
  split
  · exact ⟨[], _, rfl, by simp, Nat.le_refl _⟩
  · split
    · exact ⟨[], _, rfl, by simp, Nat.le_refl _⟩
    · exact ⟨[], _, rfl, by simp, Nat.le_refl _⟩

/-- a plain hash map that is full refuses a new key -/
theorem updateB_hash_full (m : List (κ × β)) (cap : Nat) (k : κ) (v : β) (hnew : lookup m k = none) (hfull : cap ≤ m.length) :
    updateB .hash cap m k v = m := by
  unfold updateB
  rw [hnew]
  simp only [Option.isSome_none, Bool.false_eq_true, if_false]
  rw [if_neg (by omega)]

end Gpa.Ebpf
