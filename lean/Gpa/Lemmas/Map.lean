/- association-list `Map` lemmas (model of HashMap) -/
import Gpa.Model.Rbac
namespace Gpa.Rbac
open Gpa.Text

variable {β : Type}

@[simp] theorem Map.get?_nil (k : Str) : Map.get? ([] : Map β) k = none := rfl

theorem Map.get?_insert (m : Map β) (k k' : Str) (v : β) :
    Map.get? (m.insert k v) k' = if k = k' then some v else Map.get? m k' := by
  induction m with
  | nil => simp [Map.insert, Map.get?]
  | cons hd tl ih =>
    obtain ⟨hk, hv⟩ := hd
    simp only [Map.insert]
    by_cases h1 : hk = k
    · subst h1; simp only [↓reduceIte, Map.get?]
      by_cases h2 : hk = k' <;> simp [h2]
    · simp only [h1, ↓reduceIte, Map.get?, ih]
      by_cases h2 : hk = k'
      · subst h2
        have : ¬ k = hk := fun e => h1 e.symm
        simp [this]
      · simp [h2]

theorem Map.insert_fresh (m : Map β) (k : Str) (v : β) (h : k ∉ m.map Prod.fst) :
    m.insert k v = m ++ [(k, v)] := by
  induction m with
  | nil => rfl
  | cons hd tl ih =>
    obtain ⟨hk, hv⟩ := hd
    simp only [List.map_cons, List.mem_cons, not_or] at h
    simp [Map.insert, Ne.symm h.1, ih h.2]

theorem Map.ofList_nodup_aux (acc l : List (Str × β)) (h : ((acc ++ l).map Prod.fst).Nodup) :
    l.foldl (fun m kv => Map.insert m kv.1 kv.2) acc = acc ++ l := by
  induction l generalizing acc with
  | nil => simp
  | cons hd tl ih =>
    simp only [List.foldl_cons]
    have hfresh : hd.1 ∉ acc.map Prod.fst := by
      simp only [List.map_append, List.map_cons, List.nodup_append, List.nodup_cons] at h
      intro hm
      exact h.2.2 _ hm _ (List.mem_cons_self) rfl
    rw [Map.insert_fresh _ _ _ hfresh]
    have : acc ++ [(hd.1, hd.2)] ++ tl = acc ++ hd :: tl := by simp
    rw [ih (acc ++ [(hd.1, hd.2)]) (by rw [this]; exact h), this]

/-- with pairwise distinct keys, collecting into the map keeps exactly the listed entries -/
theorem Map.ofList_nodup (l : List (Str × β)) (h : (l.map Prod.fst).Nodup) : Map.ofList l = l := by
  have := Map.ofList_nodup_aux [] l (by simpa using h)
  simpa [Map.ofList] using this

theorem Map.get?_eq_find? (l : Map β) (k : Str) :
    Map.get? l k = (l.find? (fun kv => kv.1 = k)).map Prod.snd := by
  induction l with
  | nil => rfl
  | cons hd tl ih =>
    obtain ⟨hk, hv⟩ := hd
    simp only [Map.get?, List.find?_cons]
    by_cases h : hk = k <;> simp [h, ih]

/-- lookup in a keyed list with distinct keys -/
theorem Map.get?_keyed {α : Type} (key : α → Str) (l : List α) (h : (l.map key).Nodup) (k : Str) (x : α) :
    Map.get? (l.map fun a => (key a, a)) k = some x ↔ x ∈ l ∧ key x = k := by
  induction l with
  | nil => simp
  | cons hd tl ih =>
    simp only [List.map_cons, List.nodup_cons, List.mem_map, not_exists, not_and] at h
    simp only [List.map_cons, Map.get?, List.mem_cons]
    by_cases hk : key hd = k
    · simp only [hk, ↓reduceIte, Option.some.injEq]
      constructor
      · intro e; subst e; exact ⟨Or.inl rfl, hk⟩
      · rintro ⟨hx | hx, hkx⟩
        · exact hx.symm
        · exact absurd (hkx.trans hk.symm) (h.1 x hx)
    · simp only [hk, ↓reduceIte, ih h.2]
      constructor
      · rintro ⟨hx, hkx⟩; exact ⟨Or.inr hx, hkx⟩
      · rintro ⟨hx | hx, hkx⟩
        · subst hx; exact absurd hkx hk
        · exact ⟨hx, hkx⟩

end Gpa.Rbac
