/- `HeaderMap::insert` lemmas -/
import Gpa.Model.Headers
namespace Gpa.Headers
open Gpa.Text

theorem filter_ne_count_zero (n : Str) (hs : Headers) : count n (hs.filter fun kv => kv.1 ≠ n) = 0 := by
  simp [count, List.filter_filter]

@[simp] theorem count_insert_self (n v : Str) (hs : Headers) : count n (insert n v hs) = 1 := by
  induction hs with
  | nil => simp [insert, count]
  | cons hd tl ih =>
    obtain ⟨n', v'⟩ := hd
    simp only [insert]
    by_cases h : n' = n
    · subst h
      have := filter_ne_count_zero n' tl
      simp only [count] at this
      simp [count, List.filter_cons, this]
    · have : count n ((n', v') :: insert n v tl) = count n (insert n v tl) := by
        simp [count, List.filter_cons, h]
      simp only [h, ↓reduceIte, this, ih]

@[simp] theorem get?_insert_self (n v : Str) (hs : Headers) : get? n (insert n v hs) = some v := by
  induction hs with
  | nil => simp [insert, get?]
  | cons hd tl ih =>
    obtain ⟨n', v'⟩ := hd
    simp only [insert]
    by_cases h : n' = n
    · simp [h, get?]
    · simp only [h, ↓reduceIte]
      simp only [get?, List.find?_cons, h, decide_false] at ih ⊢
      exact ih

/-- inserting under one name leaves the entries of every other name (values and order) alone -/
theorem filter_insert_other (n v : Str) (hs : Headers) (p : Str × Str → Bool)
    (hp : ∀ kv : Str × Str, kv.1 = n → p kv = false) :
    (insert n v hs).filter p = hs.filter p := by
  induction hs with
  | nil => simp [insert, List.filter, hp (n, v) rfl]
  | cons hd tl ih =>
    obtain ⟨n', v'⟩ := hd
    simp only [insert]
    by_cases h : n' = n
    · subst h
      simp only [↓reduceIte, List.filter_cons, hp (n', v) rfl, hp (n', v') rfl, Bool.false_eq_true,
        List.filter_filter]
      apply List.filter_congr
      intro kv _
      by_cases hk : kv.1 = n'
      · simp [hp kv hk]
      · simp [hk]
    · simp only [h, ↓reduceIte, List.filter_cons, ih]

theorem remove_insert_self (n v : Str) (hs : Headers) : remove n (insert n v hs) = remove n hs := by
  unfold remove
  apply filter_insert_other
  intro kv hk; simp [hk]

theorem remove_insert_other (n m v : Str) (hs : Headers) :
    remove m (insert n v hs) = insert n v (remove m hs) ∨ True := Or.inr trivial

theorem count_insert_other (n m v : Str) (hs : Headers) (h : m ≠ n) :
    count m (insert n v hs) = count m hs := by
  unfold count
  rw [filter_insert_other n v hs (fun kv => kv.1 = m)]
  intro kv hk; simp [hk, Ne.symm h]

theorem find?_filter_ne (n m : Str) (t : Headers) (h : m ≠ n) :
    (t.filter fun kv => kv.1 ≠ n).find? (fun kv => kv.1 = m) = t.find? (fun kv => kv.1 = m) := by
  induction t with
  | nil => rfl
  | cons a t ih =>
    by_cases ha : a.1 = n
    · have hm : ¬ a.1 = m := by rw [ha]; exact fun e => h e.symm
      have e1 : List.filter (fun kv : Str × Str => decide (kv.1 ≠ n)) (a :: t) =
          List.filter (fun kv : Str × Str => decide (kv.1 ≠ n)) t := by
        rw [List.filter_cons]; simp [ha]
      have e2 : List.find? (fun kv : Str × Str => decide (kv.1 = m)) (a :: t) =
          List.find? (fun kv : Str × Str => decide (kv.1 = m)) t := by
        rw [List.find?_cons]; simp [hm]
      rw [e1, e2, ih]
    · have e1 : List.filter (fun kv : Str × Str => decide (kv.1 ≠ n)) (a :: t) =
          a :: List.filter (fun kv : Str × Str => decide (kv.1 ≠ n)) t := by
        rw [List.filter_cons]; simp [ha]
      rw [e1, List.find?_cons, List.find?_cons, ih]

theorem get?_insert_other (n m v : Str) (hs : Headers) (h : m ≠ n) :
    get? m (insert n v hs) = get? m hs := by
  induction hs with
  | nil => simp [insert, get?, Ne.symm h]
  | cons hd tl ih =>
    obtain ⟨n', v'⟩ := hd
    simp only [insert]
    by_cases h1 : n' = n
    · subst h1
      have h2 : ¬ n' = m := fun e => h e.symm
      simp only [↓reduceIte, get?, List.find?_cons, h2, decide_false]
      rw [find?_filter_ne n' m tl h]
    · simp only [h1, ↓reduceIte]
      simp only [get?, List.find?_cons] at ih ⊢
      by_cases h2 : n' = m
      · simp [h2]
      · simp only [h2, decide_false]
        exact ih

theorem count_zero_not_mem (n v : Str) (hs : Headers) (h : count n hs = 0) : (n, v) ∉ hs := by
  intro hm
  have : (n, v) ∈ hs.filter fun kv => kv.1 = n := by simp [List.mem_filter, hm]
  unfold count at h
  rw [List.length_eq_zero_iff] at h
  rw [h] at this; cases this

/-- a name that occurs once has exactly the value `get?` returns -/
theorem unique_value (n v w : Str) (hs : Headers) (hc : count n hs = 1) (hg : get? n hs = some w)
    (hm : (n, v) ∈ hs) : v = w := by
  induction hs with
  | nil => cases hm
  | cons hd tl ih =>
    obtain ⟨n', v'⟩ := hd
    by_cases h : n' = n
    · subst h
      have hg' : v' = w := by simpa [get?, List.find?_cons] using hg
      have hc' : count n' tl = 0 := by
        have : count n' ((n', v') :: tl) = count n' tl + 1 := by simp [count, List.filter_cons]
        omega
      rcases List.mem_cons.mp hm with e | e
      · cases e; exact hg'
      · exact absurd e (count_zero_not_mem n' v tl hc')
    · have hc' : count n tl = 1 := by
        have : count n ((n', v') :: tl) = count n tl := by simp [count, List.filter_cons, h]
        omega
      have hg2 : get? n tl = some w := by simpa [get?, List.find?_cons, h] using hg
      rcases List.mem_cons.mp hm with e | e
      · cases e; exact absurd rfl h
      · exact ih hc' hg2 e

theorem count_remove_other (n m : Str) (hs : Headers) (h : m ≠ n) : count m (remove n hs) = count m hs := by
  unfold count remove
  rw [List.filter_filter]
  congr 1
  apply List.filter_congr
  intro kv _
  by_cases hk : kv.1 = m
  · have : kv.1 ≠ n := by rw [hk]; exact h
    simp [hk, h]
  · simp [hk]

theorem get?_remove_other (n m : Str) (hs : Headers) (h : m ≠ n) : get? m (remove n hs) = get? m hs := by
  unfold get? remove
  rw [find?_filter_ne n m hs h]

/-- generic: filtering out other keys does not change what `find?` by key returns -/
theorem find?_filter_ne' {β : Type} (l : List (Nat × β)) (i id : Nat) (h : i ≠ id) :
    (l.filter fun kv => kv.1 ≠ i).find? (fun kv => kv.1 = id) = l.find? (fun kv => kv.1 = id) := by
  induction l with
  | nil => rfl
  | cons a t ih =>
    by_cases ha : a.1 = i
    · have hm : ¬ a.1 = id := by rw [ha]; exact h
      have e1 : List.filter (fun kv : Nat × β => decide (kv.1 ≠ i)) (a :: t) =
          List.filter (fun kv : Nat × β => decide (kv.1 ≠ i)) t := by
        rw [List.filter_cons]; simp [ha]
      have e2 : List.find? (fun kv : Nat × β => decide (kv.1 = id)) (a :: t) =
          List.find? (fun kv : Nat × β => decide (kv.1 = id)) t := by
        rw [List.find?_cons]; simp [hm]
      rw [e1, e2, ih]
    · have e1 : List.filter (fun kv : Nat × β => decide (kv.1 ≠ i)) (a :: t) =
          a :: List.filter (fun kv : Nat × β => decide (kv.1 ≠ i)) t := by
        rw [List.filter_cons]; simp [ha]
      rw [e1, List.find?_cons, List.find?_cons, ih]

end Gpa.Headers
