/-
Model of the RBAC decision (C02).
Source: proxy_agent/src/proxy/authorization_rules.rs `ComputedAuthorizationItem::{from_authorization_item,is_allowed}`,
        proxy_agent/src/key_keeper/key.rs `Privilege::is_match`, `Identity::is_match`,
        proxy_agent/src/common/hyper_client.rs `query_pairs`.
-/
import Gpa.Model.Text
import Gpa.Model.Url
namespace Gpa.Rbac
open Gpa.Text Gpa.Url

structure Privilege where
  name : Str
  path : Str
  /-- `Option<HashMap<String,String>>`: an association list (keys distinct, serde keeps the last
  duplicate of a JSON object key; iteration order arbitrary) -/
  query : Option (List (Str × Str))
  deriving DecidableEq, Repr

structure Role where
  name : Str
  privileges : List Str
  deriving DecidableEq, Repr

structure Identity where
  name : Str
  userName : Option Str
  groupName : Option Str
  exePath : Option Str
  processName : Option Str
  deriving DecidableEq, Repr

structure Assignment where
  role : Str
  identities : List Str
  deriving DecidableEq, Repr

structure Rules where
  privileges : Option (List Privilege)
  roles : Option (List Role)
  identities : Option (List Identity)
  roleAssignments : Option (List Assignment)
  deriving DecidableEq, Repr

structure Item where
  defaultAccess : Str
  mode : Str
  rules : Option Rules
  deriving DecidableEq, Repr

structure Claims where
  userName : Str
  groups : List Str
  processName : Str
  exePath : Str
  deriving DecidableEq, Repr

inductive Mode where
  | disabled | audit | enforce
  deriving DecidableEq, Repr

/-- `AuthorizationMode::from_str(..)` with the `Err => Disabled` fallback -/
def parseMode (s : Str) : Mode :=
  let l := lower s
  if l = "audit".toList then .audit
  else if l = "enforce".toList then .enforce
  else .disabled

/-! ### `HashMap` as association list -/

abbrev Map (β : Type) := List (Str × β)

def Map.get? {β} : Map β → Str → Option β
  | [], _ => none
  | (k, v) :: rest, q => if k = q then some v else Map.get? rest q

/-- `HashMap::insert`: replace the value of an existing key, else add -/
def Map.insert {β} : Map β → Str → β → Map β
  | [], k, v => [(k, v)]
  | (k', v') :: rest, k, v => if k' = k then (k, v) :: rest else (k', v') :: Map.insert rest k v

/-- `iter.collect::<HashMap<_,_>>()`: later duplicates replace earlier ones -/
def Map.ofList {β} (l : List (Str × β)) : Map β := l.foldl (fun m kv => m.insert kv.1 kv.2) []

def Map.contains {β} (m : Map β) (k : Str) : Bool := (m.get? k).isSome

/-! ### path equality of `PathBuf` (component-wise) -/

/-- components of a Unix path as `std::path::Path::components` yields them:
root marker, then non-empty parts, `.` dropped except as the first component of a relative path -/
def pathComponents (p : Str) : Bool × List Str :=
  let rooted := p.head? = some '/'
  let parts := (splitOn '/' p).filter (fun s => !s.isEmpty)
  let parts' := match parts with
    | [] => []
    | first :: rest =>
      let rest' := rest.filter (fun s => s ≠ ['.'])
      if first = ['.'] ∧ rooted then rest' else first :: rest'
  (rooted, parts')

def pathEq (a b : Str) : Bool := pathComponents a = pathComponents b

/-! ### matching -/

/-- `Privilege::is_match` (with the rule path folded to lower case, see DESIGN.md F1) -/
def privMatch (p : Privilege) (u : Uri) : Bool :=
  if startsWith (lower u.path) (lower p.path) then
    match p.query with
    | none => true
    | some qs =>
      qs.all fun (k, v) =>
        match (queryPairs u).find? (fun kv => lower kv.1 = lower k) with
        | some (_, v') => lower v' = lower v
        | none => false
  else false

/-- `Identity::is_match` -/
def identMatch (i : Identity) (c : Claims) : Bool :=
  (match i.userName with | some u => u = c.userName | none => true) &&
  (match i.processName with | some p => p = c.processName | none => true) &&
  (match i.exePath with | some e => pathEq e c.exePath | none => true) &&
  (match i.groupName with | some g => c.groups.contains g | none => true)

structure Computed where
  defaultAllowed : Bool
  mode : Mode
  privileges : Map Privilege
  assignments : Map (List Str)
  identities : Map Identity
  deriving Repr

/-- add `names` (those defined in `idents`) to the set stored for privilege `pn` -/
def addAssignments (idents : Map Identity) (acc : Map (List Str)) (pn : Str) (names : List Str) :
    Map (List Str) :=
  let cur := (acc.get? pn).getD []
  let cur' := names.foldl (fun s n => if idents.contains n ∧ ¬ s.contains n then s ++ [n] else s) cur
  acc.insert pn cur'

/-- the nested loop over role assignments -/
def buildAssignments (roleDict : Map Role) (privDict : Map Privilege) (idents : Map Identity)
    (ras : List Assignment) : Map (List Str) :=
  ras.foldl (fun acc ra =>
    match roleDict.get? ra.role with
    | some role =>
      role.privileges.foldl (fun acc pn =>
        if privDict.contains pn then addAssignments idents acc pn ra.identities else acc) acc
    | none => acc) []

/-- `ComputedAuthorizationItem::from_authorization_item` -/
def compute (it : Item) : Computed :=
  let mode := parseMode it.mode
  let dflt := lower it.defaultAccess = "allow".toList
  match it.rules with
  | some { privileges := some ps, roles := some rs, identities := some ids, roleAssignments := some ras } =>
    let roleDict := Map.ofList (rs.map fun r => (r.name, r))
    let identDict := Map.ofList (ids.map fun i => (i.name, i))
    let privDict := Map.ofList (ps.map fun p => (p.name, p))
    { defaultAllowed := dflt, mode := mode, privileges := privDict,
      assignments := buildAssignments roleDict privDict identDict ras, identities := identDict }
  | _ => { defaultAllowed := dflt, mode := mode, privileges := [], assignments := [], identities := [] }

/-- is privilege (named `pn`) granted to the caller? -/
def granted (c : Computed) (pn : Str) (cl : Claims) : Bool :=
  match c.assignments.get? pn with
  | some names => names.any fun n =>
      match c.identities.get? n with
      | some i => identMatch i cl
      | none => false
  | none => false

/-- `ComputedAuthorizationItem::is_allowed` -/
def isAllowed (c : Computed) (u : Uri) (cl : Claims) : Bool :=
  if c.mode = .disabled then true
  else
    let matched := c.privileges.filter fun kv => privMatch kv.2 u
    if matched.any (fun kv => granted c kv.2.name cl) then true
    else if !matched.isEmpty then false
    else c.defaultAllowed

/-! ### the property's sentence, over the *document* -/

def sections (it : Item) : List Privilege × List Role × List Identity × List Assignment :=
  match it.rules with
  | some { privileges := some ps, roles := some rs, identities := some ids, roleAssignments := some ras } =>
    (ps, rs, ids, ras)
  | _ => ([], [], [], [])

/-- privilege `p` is granted through some role assignment to a defined identity matching the caller -/
def specGranted (it : Item) (p : Privilege) (cl : Claims) : Bool :=
  let (_, rs, ids, ras) := sections it
  ras.any fun a => rs.any fun r => r.name = a.role && r.privileges.contains p.name &&
    a.identities.any fun n => ids.any fun i => i.name = n && identMatch i cl

def specAllowed (it : Item) (u : Uri) (cl : Claims) : Bool :=
  if parseMode it.mode = .disabled then true
  else
    let (ps, _, _, _) := sections it
    if ps.any (fun p => privMatch p u && specGranted it p cl) then true
    else if ps.any (fun p => privMatch p u) then false
    else lower it.defaultAccess = "allow".toList

/-- names pairwise distinct in the three keyed sections -/
def distinctNames (it : Item) : Bool :=
  let (ps, rs, ids, _) := sections it
  (ps.map (·.name)).Nodup && (rs.map (·.name)).Nodup && (ids.map (·.name)).Nodup

end Gpa.Rbac
