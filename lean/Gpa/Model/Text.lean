/-
Text primitives shared by the models. Text is `List Char` (`Str`), bytes are `List UInt8`.
Import-free.
-/
namespace Gpa.Text

abbrev Str := List Char

/-- Rust `str::to_lowercase` restricted to what equality with ASCII text can observe:
ASCII upper-case letters, plus U+212A KELVIN SIGN (the only non-ASCII scalar whose lower-case is
ASCII). Every other non-ASCII scalar stays non-ASCII under both mappings (DESIGN.md §5). -/
def lowerChar (c : Char) : Char :=
  if 'A' ≤ c ∧ c ≤ 'Z' then Char.ofNat (c.toNat + 32)
  else if c = Char.ofNat 0x212A then 'k'
  else c

def lower (s : Str) : Str := s.map lowerChar

/-- `a.starts_with(b)` -/
def startsWith : Str → Str → Bool
  | _, [] => true
  | [], _ :: _ => false
  | a :: as, b :: bs => a == b && startsWith as bs

/-- split on a separator character, Rust `str::split(c)` (always at least one piece) -/
def splitOn (sep : Char) : Str → List Str
  | [] => [[]]
  | c :: cs =>
    if c = sep then [] :: splitOn sep cs
    else match splitOn sep cs with
      | [] => [[c]]
      | p :: ps => (c :: p) :: ps

/-- `splitn(2, c)`: the part before the first separator and, if a separator exists, the rest -/
def splitOnce (sep : Char) : Str → Str × Option Str
  | [] => ([], none)
  | c :: cs =>
    if c = sep then ([], some cs)
    else let r := splitOnce sep cs; (c :: r.1, r.2)

/-- ASCII white space trimmed by `str::trim` on header values we meet (space, tab, CR, LF, VT, FF) -/
def isWs (c : Char) : Bool := c = ' ' || c = '\t' || c = '\n' || c = '\r' || c.toNat = 0x0B || c.toNat = 0x0C

def trimStart (s : Str) : Str := s.dropWhile isWs
def trim (s : Str) : Str := (trimStart (trimStart s).reverse).reverse

/-- structural insertion sort (reduces under `decide`, unlike `List.mergeSort`) -/
def insertBy {α} (lt : α → α → Bool) (x : α) : List α → List α
  | [] => [x]
  | y :: ys => if lt y x then y :: insertBy lt x ys else x :: y :: ys

def sortBy {α} (lt : α → α → Bool) : List α → List α
  | [] => []
  | x :: xs => insertBy lt x (sortBy lt xs)

/-- lexicographic `<` on scalar values (= byte-wise order of the UTF-8 encodings, Rust `str` Ord) -/
def strLt : Str → Str → Bool
  | [], [] => false
  | [], _ :: _ => true
  | _ :: _, [] => false
  | a :: as, b :: bs => if a.toNat < b.toNat then true else if b.toNat < a.toNat then false else strLt as bs

/-- Unicode `White_Space` (Rust `char::is_whitespace`, used by `str::trim`) -/
def isUniWs (c : Char) : Bool :=
  let n := c.toNat
  (9 ≤ n && n ≤ 13) || n = 0x20 || n = 0x85 || n = 0xA0 || n = 0x1680 || (0x2000 ≤ n && n ≤ 0x200A) ||
  n = 0x2028 || n = 0x2029 || n = 0x202F || n = 0x205F || n = 0x3000

def trimUni (s : Str) : Str := ((s.dropWhile isUniWs).reverse.dropWhile isUniWs).reverse

/-- UTF-8 encoding of one scalar value -/
def encodeChar (c : Char) : List UInt8 :=
  let n := c.toNat
  if n < 0x80 then [UInt8.ofNat n]
  else if n < 0x800 then [UInt8.ofNat (0xC0 + n / 64), UInt8.ofNat (0x80 + n % 64)]
  else if n < 0x10000 then [UInt8.ofNat (0xE0 + n / 4096), UInt8.ofNat (0x80 + n / 64 % 64), UInt8.ofNat (0x80 + n % 64)]
  else [UInt8.ofNat (0xF0 + n / 262144), UInt8.ofNat (0x80 + n / 4096 % 64), UInt8.ofNat (0x80 + n / 64 % 64),
        UInt8.ofNat (0x80 + n % 64)]

def utf8 (s : Str) : List UInt8 := s.flatMap encodeChar

def isCont (b : UInt8) : Bool := 0x80 ≤ b.toNat && b.toNat ≤ 0xBF

/-- `String::from_utf8_lossy`: valid sequences are decoded; every maximal invalid prefix of a
sequence becomes one U+FFFD (the "substitution of maximal subparts" practice Rust follows).
`fuel` = number of bytes. -/
def decodeLossyAux : Nat → List UInt8 → Str
  | 0, _ => []
  | _, [] => []
  | fuel + 1, b0 :: rest =>
    let n0 := b0.toNat
    let bad := Char.ofNat 0xFFFD
    if n0 < 0x80 then Char.ofNat n0 :: decodeLossyAux fuel rest
    else if 0xC2 ≤ n0 ∧ n0 ≤ 0xDF then
      match rest with
      | b1 :: r1 => if isCont b1 then Char.ofNat ((n0 - 0xC0) * 64 + (b1.toNat - 0x80)) :: decodeLossyAux fuel r1
                    else bad :: decodeLossyAux fuel rest
      | [] => [bad]
    else if 0xE0 ≤ n0 ∧ n0 ≤ 0xEF then
      match rest with
      | b1 :: r1 =>
        let lo := if n0 = 0xE0 then 0xA0 else 0x80
        let hi := if n0 = 0xED then 0x9F else 0xBF
        if lo ≤ b1.toNat ∧ b1.toNat ≤ hi then
          match r1 with
          | b2 :: r2 => if isCont b2 then
                          Char.ofNat ((n0 - 0xE0) * 4096 + (b1.toNat - 0x80) * 64 + (b2.toNat - 0x80)) :: decodeLossyAux fuel r2
                        else bad :: decodeLossyAux fuel r1
          | [] => [bad]
        else bad :: decodeLossyAux fuel rest
      | [] => [bad]
    else if 0xF0 ≤ n0 ∧ n0 ≤ 0xF4 then
      match rest with
      | b1 :: r1 =>
        let lo := if n0 = 0xF0 then 0x90 else 0x80
        let hi := if n0 = 0xF4 then 0x8F else 0xBF
        if lo ≤ b1.toNat ∧ b1.toNat ≤ hi then
          match r1 with
          | b2 :: r2 =>
            if isCont b2 then
              match r2 with
              | b3 :: r3 => if isCont b3 then
                              Char.ofNat ((n0 - 0xF0) * 262144 + (b1.toNat - 0x80) * 4096 + (b2.toNat - 0x80) * 64 + (b3.toNat - 0x80))
                                :: decodeLossyAux fuel r3
                            else bad :: decodeLossyAux fuel r2
              | [] => [bad]
            else bad :: decodeLossyAux fuel r1
          | [] => [bad]
        else bad :: decodeLossyAux fuel rest
      | [] => [bad]
    else bad :: decodeLossyAux fuel rest

def utf8DecodeLossy (bs : List UInt8) : Str := decodeLossyAux bs.length bs

def ofString (s : String) : Str := s.toList
def toString (s : Str) : String := String.ofList s

end Gpa.Text
