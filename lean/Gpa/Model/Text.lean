/-
Text primitives shared by the models. Text is `List Char` (`Str`), bytes are `List UInt8`.
Import-free.
-/
namespace Gpa.Text

abbrev Str := List Char

/-- Rust `str::to_lowercase` restricted to what equality with ASCII text can observe:
ASCII upper-case letters, plus U+212A KELVIN SIGN (the only non-ASCII scalar whose lower-case is
ASCII). Every other non-ASCII scalar stays non-ASCII under both mappings (DESIGN.md §5). -/
def lowerChar (c : Char) : Char :=
  if 'A' ≤ c ∧ c ≤ 'Z' then Char.ofNat (c.toNat + 32)
  else if c = Char.ofNat 0x212A then 'k'
  else c

def lower (s : Str) : Str := s.map lowerChar

/-- `a.starts_with(b)` -/
def startsWith : Str → Str → Bool
  | _, [] => true
  | [], _ :: _ => false
  | a :: as, b :: bs => a == b && startsWith as bs

/-- split on a separator character, Rust `str::split(c)` (always at least one piece) -/
def splitOn (sep : Char) : Str → List Str
  | [] => [[]]
  | c :: cs =>
    if c = sep then [] :: splitOn sep cs
    else match splitOn sep cs with
      | [] => [[c]]
      | p :: ps => (c :: p) :: ps

/-- `splitn(2, c)`: the part before the first separator and, if a separator exists, the rest -/
def splitOnce (sep : Char) : Str → Str × Option Str
  | [] => ([], none)
  | c :: cs =>
    if c = sep then ([], some cs)
    else let r := splitOnce sep cs; (c :: r.1, r.2)

/-- ASCII white space trimmed by `str::trim` on header values we meet (space, tab, CR, LF, VT, FF) -/
def isWs (c : Char) : Bool := c = ' ' || c = '\t' || c = '\n' || c = '\r' || c.toNat = 0x0B || c.toNat = 0x0C

def trimStart (s : Str) : Str := s.dropWhile isWs
def trim (s : Str) : Str := (trimStart (trimStart s).reverse).reverse

/-- structural insertion sort (reduces under `decide`, unlike `List.mergeSort`) -/
def insertBy {α} (lt : α → α → Bool) (x : α) : List α → List α
  | [] => [x]
  | y :: ys => if lt y x then y :: insertBy lt x ys else x :: y :: ys

def sortBy {α} (lt : α → α → Bool) : List α → List α
  | [] => []
  | x :: xs => insertBy lt x (sortBy lt xs)

/-- lexicographic `<` on scalar values (= byte-wise order of the UTF-8 encodings, Rust `str` Ord) -/
def strLt : Str → Str → Bool
  | [], [] => false
  | [], _ :: _ => true
  | _ :: _, [] => false
  | a :: as, b :: bs => if a.toNat < b.toNat then true else if b.toNat < a.toNat then false else strLt as bs

def ofString (s : String) : Str := s.toList
def toString (s : Str) : String := String.ofList s

end Gpa.Text
