/-
The kernel hooks and the user-space encoders (C06).
Source: linux-ebpf/ebpf_cgroup.c `authorize_v4` (cgroup/connect4), `trace_v4` (kprobe tcp_connect),
`update_local_map_entry`, `update_audit_map_entry_sk`; linux-ebpf/socket.h (struct layouts);
proxy_agent/src/redirector/linux/ebpf_obj.rs (key/value arrays); proxy_agent/src/redirector.rs
`AuditEntry::{destination_ipv4_addr, destination_port_in_host_byte_order}`, `ip_to_string`, `string_to_ip`.
All map values are `u32` words exactly as both sides lay them out; ports and addresses are in
network byte order where the code keeps them so.
-/
namespace Gpa.Ebpf

def u32 (n : Nat) : Nat := n % 2 ^ 32
def hi32 (n : Nat) : Nat := n / 2 ^ 32 % 2 ^ 32
def lo32 (n : Nat) : Nat := n % 2 ^ 32

def ipprotoTcp : Nat := 6
def afInet : Nat := 2

/-- `destination_entry` as six words: ip[4], port (network order, zero-extended), protocol -/
abbrev Dest := List Nat

def destKey (ip port proto : Nat) : Dest := [ip, 0, 0, 0, port, proto]

structure LocalEntry where
  logonId : Nat
  processId : Nat
  isRoot : Nat
  destIp : Nat
  destPort : Nat
  protocol : Nat
  deriving DecidableEq, Repr

/-- `sock_addr_audit_entry` as five words -/
structure AuditVal where
  logonId : Nat
  processId : Nat
  isRoot : Nat
  destIp : Nat
  destPort : Nat
  deriving DecidableEq, Repr

structure State where
  policy : List (Dest × Dest)
  skip : List Nat
  localMap : List (Nat × LocalEntry)        -- key: pid_tgid
  audit : List ((Nat × Nat) × AuditVal)      -- key: (protocol, source port)
  deriving Repr

def lookup {κ β} [DecidableEq κ] (m : List (κ × β)) (k : κ) : Option β :=
  match m with
  | [] => none
  | (k', v) :: rest => if k' = k then some v else lookup rest k

def update {κ β} [DecidableEq κ] (m : List (κ × β)) (k : κ) (v : β) : List (κ × β) :=
  (k, v) :: m.filter fun kv => kv.1 ≠ k

def delete {κ β} [DecidableEq κ] (m : List (κ × β)) (k : κ) : List (κ × β) := m.filter fun kv => kv.1 ≠ k

/-- the calling thread as the helpers report it -/
structure Thread where
  pidTgid : Nat     -- tgid << 32 | tid
  uidGid : Nat      -- gid << 32 | uid
  deriving DecidableEq, Repr

def Thread.pid (t : Thread) : Nat := hi32 t.pidTgid
/-- the caller's user id: the LOW half of `bpf_get_current_uid_gid()` -/
def Thread.uid (t : Thread) : Nat := lo32 t.uidGid

def mkLocal (t : Thread) (ip port proto : Nat) : LocalEntry :=
  { logonId := t.uid, processId := t.pid, isRoot := (if t.uid = 0 then 1 else 0), destIp := ip, destPort := port, protocol := proto }

def auditOfLocal (e : LocalEntry) : AuditVal :=
  { logonId := e.logonId, processId := e.processId, isRoot := e.isRoot, destIp := e.destIp, destPort := e.destPort }

def mkAudit (t : Thread) (ip port : Nat) : AuditVal :=
  { logonId := t.uid, processId := t.pid, isRoot := (if t.uid = 0 then 1 else 0), destIp := ip, destPort := port }

/-- `cgroup/connect4`: returns the new state and the (possibly rewritten) address -/
def connect4 (s : State) (t : Thread) (ip port proto : Nat) : State × Nat × Nat :=
  match lookup s.policy (destKey ip port proto) with
  | none =>
    -- not a destination to redirect: whatever an earlier connect of this thread left in the hand-over map (one that failed
    -- between the two hooks) is dropped, so that `tcp_connect` does not record this connect with it
    ({ s with localMap := delete s.localMap t.pidTgid }, ip, port)
  | some pol =>
    if s.skip.contains t.pid then (s, ip, port)
    else
      ({ s with localMap := update s.localMap t.pidTgid (mkLocal t ip port proto) }, pol.getD 0 0, pol.getD 4 0)

/-- `cgroup/connect4` as it was before the fix of F12: an unprotected destination left the hand-over map alone -/
def connect4Old (s : State) (t : Thread) (ip port proto : Nat) : State × Nat × Nat :=
  match lookup s.policy (destKey ip port proto) with
  | none => (s, ip, port)
  | some pol =>
    if s.skip.contains t.pid then (s, ip, port)
    else
      ({ s with localMap := update s.localMap t.pidTgid (mkLocal t ip port proto) }, pol.getD 0 0, pol.getD 4 0)

/-- `kprobe/tcp_connect` -/
def tcpConnect (s : State) (t : Thread) (family daddr dport lport : Nat) : State :=
  if family ≠ afInet then s
  else if s.skip.contains t.pid then s
  else match lookup s.localMap t.pidTgid with
    | some e =>
      { s with audit := update s.audit (e.protocol, lport) (auditOfLocal e),
               localMap := delete s.localMap t.pidTgid }
    | none =>
      match lookup s.policy (destKey daddr dport ipprotoTcp) with
      | some _ =>
        { s with audit := update s.audit (ipprotoTcp, lport) (mkAudit t daddr dport) }
      | none => s


/-! ### the maps with their declared capacities

`local_map` and `audit_map` are declared `BPF_MAP_TYPE_LRU_HASH` with `max_entries` 200. The lists above are kept most recently
written first (`update` puts the pair in front), so the entry an LRU map evicts when a new key arrives at a full map is the last
one. A plain `BPF_MAP_TYPE_HASH` refuses the new key instead (`-E2BIG`), which the program logs and ignores. -/

inductive MapKind where
  | hash | lru
  deriving DecidableEq, Repr

def updateB {κ β} [DecidableEq κ] (kind : MapKind) (cap : Nat) (m : List (κ × β)) (k : κ) (v : β) : List (κ × β) :=
  if (lookup m k).isSome then update m k v
  else if m.length < cap then update m k v
  else match kind with
    | .lru => (k, v) :: m.dropLast
    | .hash => m

/-- the kind and capacity of the two bounded maps -/
structure Caps where
  localKind : MapKind
  localCap : Nat
  auditKind : MapKind
  auditCap : Nat
  deriving Repr

/-- `cgroup/connect4` over bounded maps -/
def connect4B (c : Caps) (s : State) (t : Thread) (ip port proto : Nat) : State × Nat × Nat :=
  match lookup s.policy (destKey ip port proto) with
  | none => ({ s with localMap := delete s.localMap t.pidTgid }, ip, port)
  | some pol =>
    if s.skip.contains t.pid then (s, ip, port)
    else
      ({ s with localMap := updateB c.localKind c.localCap s.localMap t.pidTgid (mkLocal t ip port proto) },
       pol.getD 0 0, pol.getD 4 0)

/-- `kprobe/tcp_connect` over bounded maps -/
def tcpConnectB (c : Caps) (s : State) (t : Thread) (family daddr dport lport : Nat) : State :=
  if family ≠ afInet then s
  else if s.skip.contains t.pid then s
  else match lookup s.localMap t.pidTgid with
    | some e =>
      { s with audit := updateB c.auditKind c.auditCap s.audit (e.protocol, lport) (auditOfLocal e),
               localMap := delete s.localMap t.pidTgid }
    | none =>
      match lookup s.policy (destKey daddr dport ipprotoTcp) with
      | some _ =>
        { s with audit := updateB c.auditKind c.auditCap s.audit (ipprotoTcp, lport) (mkAudit t daddr dport) }
      | none => s

/-- what other threads do between the two hooks of the thread under consideration -/
inductive Ev where
  | c4 (t : Thread) (ip port proto : Nat)
  | tc (t : Thread) (family daddr dport lport : Nat)
  deriving Repr

def Ev.thread : Ev → Thread
  | .c4 t _ _ _ => t
  | .tc t _ _ _ _ => t

def Ev.isC4 : Ev → Bool
  | .c4 .. => true
  | .tc .. => false

def stepB (c : Caps) (s : State) : Ev → State
  | .c4 t ip port proto => (connect4B c s t ip port proto).1
  | .tc t f a p l => tcpConnectB c s t f a p l

def runB (c : Caps) (s : State) (evs : List Ev) : State := evs.foldl (stepB c) s

/-! ### user-space encoders -/

/-- `u16::to_be` / `from_be` on a little-endian machine -/
def bswap16 (p : Nat) : Nat := (p % 256) * 256 + (p / 256 % 256)

/-- `destination_entry::from_ipv4(ipv4, port).to_array()` -/
def rustPolicyEntry (ipv4 port : Nat) : Dest := [ipv4, 0, 0, 0, bswap16 port, ipprotoTcp]

/-- `sock_addr_audit_key::from_source_port(port).to_array()` -/
def rustAuditKey (port : Nat) : Nat × Nat := (ipprotoTcp, port)

/-- what user space derives from an audit value (`BpfObject::lookup_audit` + `AuditEntry` accessors):
(logon id, pid, is_admin, destination address bytes a.b.c.d, destination port in host order) -/
def rustDecode (v : AuditVal) : Nat × Nat × Nat × List Nat × Nat :=
  (v.logonId, v.processId, v.isRoot,
   [v.destIp % 256, v.destIp / 256 % 256, v.destIp / 65536 % 256, v.destIp / 16777216 % 256],
   bswap16 (v.destPort % 65536))

/-- `ip_to_string` (segments, lowest byte first) and `string_to_ip` on the segment level -/
def ipToSegs (ip : Nat) : List Nat := [ip % 256, ip / 256 % 256, ip / 65536 % 256, ip / 16777216 % 256]
def segsToIp : List Nat → Nat
  | [a, b, c, d] => a + b * 256 + c * 65536 + d * 16777216
  | _ => 0

/-- an address a.b.c.d as the kernel hands it over (`__be32` read on a little-endian machine) -/
def netIp (a b c d : Nat) : Nat := a + b * 256 + c * 65536 + d * 16777216

end Gpa.Ebpf
