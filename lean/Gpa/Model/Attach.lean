/-
Where the connect hook is attached (proxy_agent_shared/src/linux.rs get_cgroup2_mount_path,
proxy_agent/src/redirector/linux.rs attach_bpf_prog): the agent asks `findmnt -t cgroup2 --json` for the
cgroup2 mounts and attaches the cgroup/connect4 program at the first one listed; when the lookup fails it
falls back to the configured root. A cgroup program runs for the processes of the cgroup it is attached to
and of every cgroup below it, so "every connect by every process" holds exactly when the attach point is
the root of the hierarchy.
-/
namespace Gpa.Attach

/-- a cgroup, named by its path below the root of the unified hierarchy -/
abbrev Cg := List String

/-- one cgroup2 mount as `findmnt` lists it: where it is mounted, and which cgroup its top directory is
(`[]` for an ordinary mount of the whole hierarchy, a deeper cgroup for a bind mount of a sub-directory) -/
structure Mount where
  target : String
  top : Cg
deriving Repr, DecidableEq

/-- the outcome of running findmnt -/
inductive Lookup
  | failed                       -- could not run, non-zero exit status, or output that is not the expected JSON
  | listed (ms : List Mount)     -- mounts in the order findmnt prints them (mount order: oldest first)
deriving Repr

/-- `get_cgroup2_mount_path` -/
def mountPath : Lookup → Option Mount
  | .listed (m :: _) => some m
  | _ => none

/-- `attach_bpf_prog`: the looked-up mount, else the configured root -/
def attachPoint (l : Lookup) (configured : Mount) : Mount := (mountPath l).getD configured

/-- a program attached at cgroup `a` runs for a process in cgroup `c` iff `a` is `c` or one of its ancestors -/
def hooked (a c : Cg) : Bool := a.isPrefixOf c

/-- what a change to "the last mount listed" would choose -/
def lastListed : Lookup → Option Mount
  | .listed ms => ms.getLast?
  | .failed => none

end Gpa.Attach
