/-
Byte-offset truncation of UTF-8 text (C13).
Source: proxy_agent_shared/src/misc_helpers.rs `truncate_at_char_boundary` and its three users:
event_logger.rs `write_event` (4096), proxy_server.rs `log_connection_summary` (4096),
agent_status_wrapper.rs `get_module_status` (1024, then "...").
`byteSlice?` is Rust's `&s[..n]` / `String::truncate(n)` with its panic condition made explicit.
-/
import Gpa.Model.Text
import Gpa.Generated.Facts
namespace Gpa.Truncate
open Gpa.Text

/-- bytes a scalar takes in UTF-8 -/
def csize (c : Char) : Nat := (encodeChar c).length

def utf8Len (s : Str) : Nat := (utf8 s).length

/-- `&s[..n]`: `none` = panic (n inside a multi-byte scalar, or beyond the end) -/
def byteSlice? : Str → Nat → Option Str
  | _, 0 => some []
  | [], _ + 1 => none
  | c :: cs, n + 1 =>
    if csize c ≤ n + 1 then (byteSlice? cs (n + 1 - csize c)).map (c :: ·) else none

/-- longest prefix of whole scalars that fits in `n` bytes (= slice at the largest char boundary ≤ n) -/
def takeBytes : Nat → Str → Str
  | _, [] => []
  | n, c :: cs => if csize c ≤ n then c :: takeBytes (n - csize c) cs else []

/-- `truncate_at_char_boundary(s, max)` -/
def truncateTo (cap : Nat) (s : Str) : Str := if utf8Len s ≤ cap then s else takeBytes cap s

def eventCap : Nat := Gpa.Facts.eventMaxMessageLength
def statusCap : Nat := Gpa.Facts.statusMaxMessageLength

/-- `write_event`: the queued event's message -/
def eventMessage (s : Str) : Str := truncateTo eventCap s

/-- `get_module_status`: the reported message -/
def statusMessage (s : Str) : Str :=
  if utf8Len s > statusCap then truncateTo statusCap s ++ "...".toList else s

/-- the code before the fix -/
def eventMessageOld (s : Str) : Option Str := if utf8Len s > eventCap then byteSlice? s eventCap else some s
def statusMessageOld (s : Str) : Option Str :=
  if utf8Len s > statusCap then (byteSlice? s statusCap).map (· ++ "...".toList) else some s

/-- `read_response_body`, utf-16 branch, one frame: `chunks_exact(2)` little-endian code units
(an odd trailing byte is dropped); `none` would be the old `chunk[1]` panic -/
def utf16Units : List UInt8 → List Nat
  | a :: b :: rest => (a.toNat + 256 * b.toNat) :: utf16Units rest
  | _ => []

def utf16UnitsOld : List UInt8 → Option (List Nat)
  | [] => some []
  | [_] => none
  | a :: b :: rest => (utf16UnitsOld rest).map ((a.toNat + 256 * b.toNat) :: ·)

/-- key_keeper.rs poll loop: what remains of the poll interval after a notify was handled, in milliseconds
(`u128`). The code as it was: plain subtraction, which underflows (panic with overflow checks) when handling
the notify took the loop past the interval -/
def restOfSleepOld (sleep slept : Nat) : Option Nat := if slept ≤ sleep then some (sleep - slept) else none

/-- the code as it is: `saturating_sub` -/
def restOfSleep (sleep slept : Nat) : Nat := sleep - slept

end Gpa.Truncate
