/-
`http::HeaderMap` as the proxy uses it: names are lower-case; iteration visits names in order of
first insertion, all values of a name together (in insertion order).
Header values are byte strings; we keep them as `Str` whose characters are the bytes (code < 256).
-/
import Gpa.Model.Text
namespace Gpa.Headers
open Gpa.Text

abbrev Headers := List (Str × Str)

/-- names in order of first appearance -/
def namesInOrder (hs : Headers) : List Str :=
  hs.foldl (fun acc kv => if acc.contains kv.1 then acc else acc ++ [kv.1]) []

/-- group a wire-order header list the way `HeaderMap` iterates it -/
def group (hs : Headers) : Headers :=
  (namesInOrder hs).flatMap fun n => hs.filter (fun kv => kv.1 = n)

/-- parse: lower-case the names (hyper does), then group -/
def ofWire (hs : Headers) : Headers := group (hs.map fun kv => (lower kv.1, kv.2))

/-- `HeaderMap::insert`: replace all values of the name by one (position of the first kept), or append -/
def insert (n v : Str) : Headers → Headers
  | [] => [(n, v)]
  | (n', v') :: rest =>
    if n' = n then (n, v) :: rest.filter (fun kv => kv.1 ≠ n)
    else (n', v') :: insert n v rest

def get? (n : Str) (hs : Headers) : Option Str := (hs.find? (fun kv => kv.1 = n)).map Prod.snd

def count (n : Str) (hs : Headers) : Nat := (hs.filter (fun kv => kv.1 = n)).length

def remove (n : Str) (hs : Headers) : Headers := hs.filter (fun kv => kv.1 ≠ n)

end Gpa.Headers
