/-
A reader for the telemetry document the agent writes (C18): the outer document is a list of
`<Event id="7"><![CDATA[ … ]]></Event>` elements, the character data of each is itself a list of
`<Param Name="…" Value="…" T="…" />` elements. The reader is what a consumer does (find the end
of the CDATA section, split attributes at the quotes); the theorems in Props/C18 say that reading
what `to_xml` wrote gives back exactly the events' fields — whatever text they contain.
-/
import Gpa.Model.Telemetry
namespace Gpa.Telemetry
open Gpa.Text

/-- remove a literal prefix -/
def stripPre : Str → Str → Option Str
  | [], s => some s
  | _ :: _, [] => none
  | p :: ps, c :: cs => if p = c then stripPre ps cs else none

/-- split at the first occurrence of `q` -/
def takeUntil (q : Char) : Str → Option (Str × Str)
  | [] => none
  | c :: cs => if c = q then some ([], cs) else
      match takeUntil q cs with
      | some (a, b) => some (c :: a, b)
      | none => none

structure Attr where
  name : Str
  value : Str      -- still escaped
  ty : Str
  deriving DecidableEq, Repr

def pOpen : Str := ['<', 'P', 'a', 'r', 'a', 'm', ' ', 'N', 'a', 'm', 'e', '=', '"']
def pValue : Str := [' ', 'V', 'a', 'l', 'u', 'e', '=', '"']
def pType : Str := [' ', 'T', '=', '"']
def pClose : Str := [' ', '/', '>']
def tyStr : Str := ['m', 't', ':', 'w', 's', 't', 'r']
def tyNum : Str := ['m', 't', ':', 'u', 'i', 'n', 't', '6', '4']

/-- the same element, written with character lists -/
def paramOf (name value ty : Str) : Str :=
  pOpen ++ name ++ ['"'] ++ pValue ++ value ++ ['"'] ++ pType ++ ty ++ ['"'] ++ pClose

/-- read one `<Param … />` -/
def readParam (s : Str) : Option (Attr × Str) :=
  match stripPre pOpen s with
  | none => none
  | some s1 =>
    match takeUntil '"' s1 with
    | none => none
    | some (n, s2) =>
      match stripPre pValue s2 with
      | none => none
      | some s3 =>
        match takeUntil '"' s3 with
        | none => none
        | some (v, s4) =>
          match stripPre pType s4 with
          | none => none
          | some s5 =>
            match takeUntil '"' s5 with
            | none => none
            | some (t, s6) =>
              match stripPre pClose s6 with
              | none => none
              | some s7 => some ({ name := n, value := v, ty := t }, s7)

/-- read `n` parameters and require the end of the text -/
def readParams : Nat → Str → Option (List Attr)
  | 0, s => if s.isEmpty then some [] else none
  | n + 1, s =>
    match readParam s with
    | none => none
    | some (a, rest) =>
      match readParams n rest with
      | none => none
      | some as => some (a :: as)

def cdataEnd : Str := [']', ']', '>']

/-- the character data up to the first `]]>`, and what follows it -/
def takeCdata : Str → Option (Str × Str)
  | [] => none
  | c :: cs =>
    match stripPre cdataEnd (c :: cs) with
    | some rest => some ([], rest)
    | none =>
      match takeCdata cs with
      | some (a, b) => some (c :: a, b)
      | none => none

def eventTail : Str := ['<', '/', 'E', 'v', 'e', 'n', 't', '>']

/-- read `n` events: each is `eventOpen`, character data, `]]>`, `</Event>` -/
def readEvents : Nat → Str → Option (List Str × Str)
  | 0, s => some ([], s)
  | n + 1, s =>
    match stripPre eventOpen s with
    | none => none
    | some s1 =>
      match takeCdata s1 with
      | none => none
      | some (d, s2) =>
        match stripPre eventTail s2 with
        | none => none
        | some s3 =>
          match readEvents n s3 with
          | none => none
          | some (ds, rest) => some (d :: ds, rest)

/-- read a whole document holding `n` events: the character data of each -/
def readDoc (n : Nat) (s : Str) : Option (List Str) :=
  match stripPre docOpen s with
  | none => none
  | some s1 =>
    match readEvents n s1 with
    | none => none
    | some (ds, rest) => if rest = docClose then some ds else none

/-- what the 23 parameters of an event must read as: (name, raw value, type) -/
def expectedAttrs (c : Ctx) (e : Event) : List (String × Str × Bool) :=
  [ ("OpcodeName", e.timeStamp, true), ("KeywordName", c.keywordName, true), ("TaskName", e.taskName, true),
    ("TenantName", c.tenantName, true), ("RoleName", c.roleName, true), ("RoleInstanceName", c.roleInstanceName, true),
    ("ContainerId", c.containerId, true), ("ResourceGroupName", c.resourceGroupName, true),
    ("SubscriptionId", c.subscriptionId, true), ("VMId", c.vmId, true),
    ("EventPid", natStr (parseU64 e.pid), false), ("EventTid", natStr (parseU64 e.tid), false), ("ImageOrigin", natStr c.imageOrigin, false),
    ("ExecutionMode", "ProxyAgent".toList, true), ("OSVersion", c.osVersion, true), ("GAVersion", e.version, true),
    ("RAM", natStr c.ram, false), ("Processors", natStr c.processors, false),
    ("EventName", "MicrosoftAzureGuestProxyAgent".toList, true), ("CapabilityUsed", e.level, true),
    ("Context1", e.message, true), ("Context2", e.timeStamp, true), ("Context3", e.operationId, true) ]

end Gpa.Telemetry
