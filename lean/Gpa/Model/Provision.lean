/-
Provisioning status (C16).
Source: proxy_agent/src/shared_state/provision_wrapper.rs (the actor: UpdateState / ResetState /
GetState / SetProvisionFinished / GetProvisionFinished, one message at a time);
proxy_agent/src/provision.rs `update_provision_state` (readiness reports), `reset_provision_state`,
`provision_timeup`, `get_provision_failed_state_message`, `write_provision_state`;
proxy_agent/src/proxy/proxy_server.rs `handle_provision_state_check_request`.
Tasks run concurrently; the unit of interleaving is one actor message.
-/
namespace Gpa.Provision

structure Flags where
  redirector : Bool
  keyLatch : Bool
  listener : Bool
  deriving DecidableEq, Repr

def Flags.none : Flags := ⟨false, false, false⟩
def Flags.all (f : Flags) : Bool := f.redirector && f.keyLatch && f.listener
def Flags.or (a b : Flags) : Flags := ⟨a.redirector || b.redirector, a.keyLatch || b.keyLatch, a.listener || b.listener⟩
def Flags.andNot (a b : Flags) : Flags :=
  ⟨a.redirector && !b.redirector, a.keyLatch && !b.keyLatch, a.listener && !b.listener⟩

def fRedirector : Flags := ⟨true, false, false⟩
def fKeyLatch : Flags := ⟨false, true, false⟩
def fListener : Flags := ⟨false, false, true⟩

/-- who stamps the finished tick -/
inductive Reason where
  | allObserved | deadline
  deriving DecidableEq, Repr

/-- the provision actor's state (+ ghost: why and on what observation the stamp was made) -/
structure Actor where
  flags : Flags
  fin : Int                   -- provision_finished_time_tick, 0 = not finished
  reason : Option Reason      -- ghost
  obsTime : Int               -- ghost: instant of the all-ready observation behind the stamp
  deriving Repr

def Actor.init : Actor := { flags := Flags.none, fin := 0, reason := none, obsTime := 0 }

inductive Kind where
  | ready (f : Flags) | reset | timeup | query (tick : Int) (latched : Bool)
  deriving Repr

/-- the answer of a `/provision` query -/
structure Answer where
  finished : Bool
  notReady : Flags          -- subsystems named in the error text
  /-- ghost: what the stamp it relied on was based on -/
  fin : Int
  reason : Option Reason
  obsTime : Int
  deriving Repr

/-- a running task: program counter and locals -/
structure Task where
  kind : Kind
  pc : Nat
  r : Flags := Flags.none        -- last state reply
  obs : Int := 0                 -- ghost: instant of that reply
  ft : Int := 0                  -- query: finished tick read
  ftReason : Option Reason := none
  ftObs : Int := 0
  answer : Option Answer := none
  deriving Repr

structure Global where
  actor : Actor
  clock : Int                    -- strictly increasing: one tick per actor message
  tasks : List Task
  /-- ghost: instants at which an UpdateState reply showed all three flags set -/
  allTimes : List Int
  deriving Repr

def Global.init : Global := { actor := Actor.init, clock := 1, tasks := [], allTimes := [] }

/-- the rule of `handle_provision_state_check_request` -/
def reportFinished (ft q : Int) (latched : Bool) : Bool := (ft > 0 && ft ≥ q) || latched

/-- the rule before the fix: `finished_time_tick >= query_time_tick || latched` -/
def reportFinishedOld (ft q : Int) (latched : Bool) : Bool := ft ≥ q || latched

def notReadyOf (f : Flags) : Flags := ⟨!f.redirector, !f.keyLatch, !f.listener⟩

/-- one actor message of task `t` at instant `now`; returns the new actor, the task after the
message (or `none` when it has nothing more to do), and whether an all-ready reply was given -/
def act (a : Actor) (now : Int) (t : Task) : Actor × Option Task × Bool :=
  match t.kind, t.pc with
  | .ready f, 0 =>
      let fl := a.flags.or f
      ({ a with flags := fl }, some { t with pc := 1, r := fl, obs := now }, fl.all)
  | .ready _, 1 =>
      if t.r.all then ({ a with fin := now, reason := some .allObserved, obsTime := t.obs }, none, false)
      else (a, none, false)
  | .reset, 0 =>
      let fl := a.flags.andNot fKeyLatch
      ({ a with flags := fl }, some { t with pc := 1, r := fl, obs := now }, false)
  | .reset, 1 =>
      if t.r.all then ({ a with fin := now, reason := some .allObserved, obsTime := t.obs }, none, false)
      else ({ a with fin := 0, reason := none }, none, false)
  | .timeup, 0 => (a, some { t with pc := 1, r := a.flags, obs := now }, false)
  | .timeup, 1 =>
      if !t.r.all then ({ a with fin := now, reason := some .deadline, obsTime := now }, none, false)
      else (a, none, false)
  | .query _ _, 0 => (a, some { t with pc := 1, ft := a.fin, ftReason := a.reason, ftObs := a.obsTime }, false)
  | .query q latched, 1 =>
      (a, some { t with pc := 2,
                        answer := some { finished := reportFinished t.ft q latched, notReady := notReadyOf a.flags,
                                         fin := t.ft, reason := t.ftReason, obsTime := t.ftObs } }, false)
  | _, _ => (a, none, false)

/-- one step of the system: a new task arrives, or some running task sends its next message -/
inductive Step : Global → Global → Prop where
  | spawn (g : Global) (k : Kind) : Step g { g with tasks := g.tasks ++ [{ kind := k, pc := 0 }] }
  | run (g : Global) (i : Nat) (t : Task) (h : g.tasks[i]? = some t) :
      Step g
        { actor := (act g.actor g.clock t).1,
          clock := g.clock + 1,
          tasks := match (act g.actor g.clock t).2.1 with
                   | some t' => g.tasks.set i t'
                   | none => g.tasks.eraseIdx i,
          allTimes := if (act g.actor g.clock t).2.2 then g.clock :: g.allTimes else g.allTimes }

/-- executable forms of the two kinds of step (used by the driver and in examples) -/
def runIdx (g : Global) (i : Nat) : Global :=
  match g.tasks[i]? with
  | some t =>
    { actor := (act g.actor g.clock t).1, clock := g.clock + 1,
      tasks := match (act g.actor g.clock t).2.1 with | some t' => g.tasks.set i t' | none => g.tasks.eraseIdx i,
      allTimes := if (act g.actor g.clock t).2.2 then g.clock :: g.allTimes else g.allTimes }
  | none => g
def spawnTask (g : Global) (k : Kind) : Global := { g with tasks := g.tasks ++ [{ kind := k, pc := 0 }] }

inductive Reach : Global → Prop where
  | init : Reach Global.init
  | step {g g'} : Reach g → Step g g' → Reach g'

/-! ### the status tag file: write to `status.tag.tmp`, then rename -/

structure TagFs where
  tmp : Option (List UInt8)
  tag : Option (List UInt8)
  deriving Repr

inductive TagOp where
  /-- `fs::write(tmp, msg)` as far as the first `k` bytes (a crash or an observer can come after any prefix) -/
  | writeTmp (msg : List UInt8) (k : Nat)
  /-- `fs::rename(tmp, tag)` by a writer whose own write of `msg` had completed -/
  | rename

def tagStep (fs : TagFs) : TagOp → TagFs
  | .writeTmp msg k => { fs with tmp := some (msg.take k) }
  | .rename => match fs.tmp with
    | some b => { tmp := none, tag := some b }
    | none => fs

end Gpa.Provision
