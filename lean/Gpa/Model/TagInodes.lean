/-!
# The status tag file at the level of inodes (C16, overlapping writers)

`Gpa.Provision.TagFs` names contents only. Two writers that overlap in time are told apart by what a
reader holding `status.tag` open can see: the *file* (inode) it opened. "Replaced atomically" then
reads: the content of an inode never changes once `status.tag` has named it.

A writer is `write_provision_state`: it collects its message (awaits; no file operation), then in one
stretch without an await creates/truncates `status.tag.tmp`, writes the message, renames. The model
keeps the three file operations apart so that other orders (the temp file opened *before* the awaited
collection) can be run as well.
-/
namespace Gpa.TagInodes

structure St where
  /-- content by inode number; numbers are handed out once and never reused while a reader may hold them -/
  files : List (List UInt8)
  tmp : Option Nat
  tag : Option Nat
  /-- open handle (an inode) per writer -/
  handles : List (Nat × Nat)
  /-- ghost: every inode `status.tag` has named so far with the content it had when it was published, latest first -/
  frozen : List (Nat × List UInt8)
  deriving Repr, DecidableEq

def St.init : St := { files := [], tmp := none, tag := none, handles := [], frozen := [] }

inductive Op where
  /-- `File::create(status.tag.tmp)` (also the first half of `fs::write`): truncates the inode the name
  has, or makes a new one; the writer keeps the handle -/
  | openTmp (w : Nat)
  /-- `write_all(msg)` through the writer's handle, from offset 0 -/
  | write (w : Nat) (msg : List UInt8)
  /-- `rename(status.tag.tmp, status.tag)`; fails (nothing happens) when the temp name is gone -/
  | rename
  deriving Repr, DecidableEq

def handleOf (hs : List (Nat × Nat)) (w : Nat) : Option Nat :=
  (hs.find? (fun p => p.1 == w)).map (·.2)

/-- writing `msg` at offset 0 over `old` -/
def overlay (msg old : List UInt8) : List UInt8 := msg ++ old.drop msg.length

def step (s : St) : Op → St
  | .openTmp w =>
    match s.tmp with
    | some i => { s with files := s.files.set i [], handles := (w, i) :: s.handles }
    | none => { s with files := s.files ++ [[]], tmp := some s.files.length, handles := (w, s.files.length) :: s.handles }
  | .write w msg =>
    match handleOf s.handles w with
    | some i => { s with files := s.files.set i (overlay msg (s.files.getD i [])) }
    | none => s
  | .rename =>
    match s.tmp with
    | some i => { s with tmp := none, tag := some i, frozen := (i, s.files.getD i []) :: s.frozen }
    | none => s

def run (s : St) (ops : List Op) : St := ops.foldl step s

/-- the file operations of one writer, in the order of the source: one stretch -/
def stretch (w : Nat) (msg : List UInt8) : List Op := [.openTmp w, .write w msg, .rename]

/-- a reader that opened `status.tag` at any earlier moment still finds, in the file it holds, what was published -/
def Safe (s : St) : Prop := ∀ p ∈ s.frozen, s.files.getD p.1 [] = p.2

instance (s : St) : Decidable (Safe s) := by unfold Safe; infer_instance

/-- what a reader of `status.tag` gets -/
def St.tagContent (s : St) : Option (List UInt8) := s.tag.map (fun i => s.files.getD i [])

end Gpa.TagInodes
