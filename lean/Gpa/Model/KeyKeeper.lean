/-
The key keeper's poll iteration (C09) and the key latch path with crashes (C08).
Source: proxy_agent/src/key_keeper.rs `loop_poll` (one iteration), `fetch_key`, `store_key`, `check_key`;
proxy_agent/src/key_keeper/key.rs `KeyStatus::{validate, get_secure_channel_state, get_*_mode, get_*_rules}`,
`get_status`, `acquire_key`, `attest_key`; proxy_agent_shared/src/misc_helpers.rs `json_write_to_file`.
-/
import Gpa.Model.Text
namespace Gpa.KeyKeeper
open Gpa.Text

/-- one endpoint's `AuthorizationItem` as far as the key keeper looks at it: id, mode, and the
document itself (an opaque value `content`, compared for equality only) -/
structure RuleItem where
  id : Str
  mode : Str
  content : Nat
  deriving DecidableEq, Repr

/-- a status document (`KeyStatus`) -/
structure Doc where
  schemeOk : Bool                      -- authorizationScheme / keyDeliveryMethod are the known strings
  version : Str
  secureChannelState : Option Str      -- v1.0
  secureChannelEnabled : Option Bool   -- v2.0
  keyGuid : Option Str
  ws : Option RuleItem
  imds : Option RuleItem
  hostga : Option RuleItem
  hasRules : Bool                      -- authorizationRules present at all
  deriving DecidableEq, Repr

def sDisabled : Str := "disabled".toList
def sWireserver : Str := "wireserver".toList
def sWireserverImds : Str := "wireserverandimds".toList
def sAudit : Str := "audit".toList
def sEnforce : Str := "enforce".toList
def v1 : Str := "1.0".toList
def v2 : Str := "2.0".toList

/-- `KeyStatus::validate` (the conditions that make it fail) -/
def Doc.valid (d : Doc) : Bool :=
  !(d.secureChannelEnabled.isNone && d.secureChannelState.isNone) &&
  (match d.secureChannelState with
   | some s => let l := lower s; l = sDisabled || l = sWireserver || l = sWireserverImds
   | none => d.version ≠ v1) &&
  !(d.secureChannelEnabled.isNone && d.version = v2)

def modeWord (m : Str) : Str :=
  let l := lower m
  if l = sEnforce then "Enforce".toList else if l = sAudit then "Audit".toList else "Disabled".toList

/-- `get_secure_channel_state` -/
def Doc.state (d : Doc) : Str :=
  if d.version = v2 then
    match d.secureChannelEnabled with
    | some true =>
      if d.hasRules then
        let w := match d.ws with | some i => modeWord i.mode | none => "Disabled".toList
        let i := match d.imds with | some i => modeWord i.mode | none => "Disabled".toList
        "WireServer ".toList ++ w ++ " -  IMDS ".toList ++ i ++ " - HostGA ".toList ++ w
      else sDisabled
    | _ => sDisabled
  else
    match d.secureChannelState with
    | some s => lower s
    | none => sDisabled

def Doc.wsMode (d : Doc) : Str :=
  if d.version = v2 then
    if d.hasRules then (match d.ws with | some i => lower i.mode | none => sDisabled) else sDisabled
  else
    let st := match d.secureChannelState with | some s => lower s | none => sDisabled
    if st = sWireserver || st = sWireserverImds then sEnforce else sAudit

def Doc.imdsMode (d : Doc) : Str :=
  if d.version = v2 then
    if d.hasRules then (match d.imds with | some i => lower i.mode | none => sDisabled) else sDisabled
  else
    let st := match d.secureChannelState with | some s => lower s | none => sDisabled
    if st = sWireserverImds then sEnforce else sAudit

def Doc.hostgaMode (d : Doc) : Str := d.wsMode

def itemOf (d : Doc) (i : Option RuleItem) : Option RuleItem := if d.hasRules then i else none
def idOf (i : Option RuleItem) : Str := match i with | some x => x.id | none => []

structure Key where
  guid : Str
  key : Str
  deriving DecidableEq, Repr

/-- a file in the key directory -/
inductive FileState where
  | partialWrite (bytes : Nat)          -- some prefix of a document
  | complete (k : Key)             -- a fully written key document
  | garbage                        -- complete but not a key document (unreadable)
  deriving DecidableEq, Repr

/-- key directory: final names `<guid>.key` and temp names `<guid>.tmp` -/
structure KeyDir where
  final : List (Str × FileState)
  tmp : List (Str × FileState)
  deriving Repr

def lookupF (l : List (Str × FileState)) (g : Str) : Option FileState :=
  match l with
  | [] => none
  | (k, v) :: rest => if k = g then some v else lookupF rest g

def setF (l : List (Str × FileState)) (g : Str) (v : FileState) : List (Str × FileState) :=
  (g, v) :: l.filter fun kv => kv.1 ≠ g

def delF (l : List (Str × FileState)) (g : Str) : List (Str × FileState) := l.filter fun kv => kv.1 ≠ g

/-- `fetch_key` on Linux: `<guid>.key` exists and parses -/
def fetchKey (fs : KeyDir) (g : Str) : Option Key :=
  match lookupF fs.final g with
  | some (.complete k) => some k
  | _ => none

/-- the agent's state the poll loop reads and writes (the key-keeper actor) -/
structure Agent where
  wsId : Str
  imdsId : Str
  hostgaId : Str
  wsRules : Option RuleItem
  imdsRules : Option RuleItem
  hostgaRules : Option RuleItem
  key : Option Key
  chan : Str
  deriving DecidableEq, Repr

def Agent.init : Agent :=
  { wsId := [], imdsId := [], hostgaId := [], wsRules := none, imdsRules := none, hostgaRules := none, key := none,
    chan := "Unknown".toList }

/-- what the host (and the disk) answer during one iteration -/
inductive StatusAnswer where
  | failed | doc (d : Doc)
  deriving Repr

structure Answers where
  status : StatusAnswer
  acquire : Option Key          -- none = request failed / malformed body
  storeOk : Bool
  attestOk : Bool
  deriving Repr

inductive Out where
  | policy (endpoint : String) (redirect : Bool)
  | acquired (g : Str)
  | attested (g : Str)
  deriving DecidableEq, Repr

/-- compare-and-set of a rule id; the rules are replaced only when the id changed -/
def casRules (curId : Str) (cur : Option RuleItem) (newItem : Option RuleItem) : Str × Option RuleItem :=
  if curId = idOf newItem then (curId, cur) else (idOf newItem, newItem)

/-- the state compare-and-set, redirect-policy emission and key clearing at the end of an iteration -/
def finishPoll (a : Agent) (d : Doc) : Agent × List Out :=
  let st := d.state
  if a.chan = st then (a, [])
  else
    let a' := { a with chan := st }
    let outs := [Out.policy "wireserver" (d.wsMode ≠ sDisabled), .policy "imds" (d.imdsMode ≠ sDisabled),
                 .policy "hostga" (d.hostgaMode ≠ sDisabled)]
    if st = sDisabled then ({ a' with key := none }, outs) else (a', outs)

/-- the three rule-id compare-and-sets at the top of an iteration -/
def applyRules (a : Agent) (d : Doc) : Agent :=
  { a with wsId := (casRules a.wsId a.wsRules (itemOf d d.ws)).1, wsRules := (casRules a.wsId a.wsRules (itemOf d d.ws)).2,
           imdsId := (casRules a.imdsId a.imdsRules (itemOf d d.imds)).1, imdsRules := (casRules a.imdsId a.imdsRules (itemOf d d.imds)).2,
           hostgaId := (casRules a.hostgaId a.hostgaRules (itemOf d d.hostga)).1,
           hostgaRules := (casRules a.hostgaId a.hostgaRules (itemOf d d.hostga)).2 }

def needKey (a : Agent) (d : Doc) : Bool :=
  d.state ≠ sDisabled && (d.keyGuid.isNone || d.keyGuid ≠ a.key.map (·.guid))

/-- the key part of an iteration: `some key` = go on holding `key`; `none` = the iteration is
abandoned (`continue`). Also the key directory afterwards and the host calls made. -/
def keyStage (a : Agent) (fs : KeyDir) (ans : Answers) (d : Doc) : Option (Option Key) × KeyDir × List Out :=
  if !needKey a d then (some a.key, fs, [])
  else
    match d.keyGuid.bind (fetchKey fs) with
    | some k => (some (some k), fs, [])
    | none =>
      match ans.acquire with
      | none => (none, fs, [])
      | some k =>
        if !ans.storeOk then (none, fs, [.acquired k.guid])
        else
          let fs' : KeyDir := { final := setF fs.final k.guid (.complete k), tmp := delF fs.tmp k.guid }
          -- read back and compare: `check_key`
          if fetchKey fs' k.guid ≠ some k then (none, fs', [.acquired k.guid])
          else if !ans.attestOk then (none, fs', [.acquired k.guid])
          else (some (some k), fs', [.acquired k.guid, .attested k.guid])

/-- one iteration of `loop_poll`; the Bool tells whether it ran to its end (no `continue`) -/
def poll (a : Agent) (fs : KeyDir) (ans : Answers) : Agent × KeyDir × List Out × Bool :=
  match ans.status with
  | .failed => (a, fs, [], false)
  | .doc d =>
    if !d.valid then (a, fs, [], false)
    else
      match keyStage a fs ans d with
      | (none, fs', outs) => (applyRules a d, fs', outs, false)
      | (some key, fs', outs) =>
        ((finishPoll { applyRules a d with key := key } d).1, fs', outs ++ (finishPoll { applyRules a d with key := key } d).2, true)

/-! ### the latch path at the granularity of single effects, with process death (C08) -/

/-- the host as far as the latch is concerned -/
structure Host where
  latched : Option Str                -- guid the host regards as attested
  issued : List Key                   -- keys handed out so far
  deriving Repr

/-- where the (single) key-keeper process is in its latch path; `none` = not running that path -/
inductive Pc where
  | idle                      -- before the status poll / after publishing
  | acquired (k : Key)        -- key received from the host, nothing on disk yet
  | tmpCreated (k : Key)      -- `<guid>.tmp` created (empty)
  | tmpWritten (k : Key) (n : Nat)   -- first `n` bytes of the document written to the temp file
  | renamed (k : Key)         -- temp file renamed to `<guid>.key`
  | checked (k : Key)         -- read back and compared equal
  | attestSent (k : Key)      -- attest request sent (the host may or may not have processed it)
  deriving Repr

structure Sys where
  host : Host
  fs : KeyDir
  pc : Pc
  mem : Option Key            -- key published in the agent's memory
  deriving Repr

def docLen : Nat := 100       -- length of a serialized key document (any positive number)

inductive Ev where
  | hostIssues (k : Key)      -- acquire answered
  | createTmp | writeMore (n : Nat) | rename | readBack | sendAttest | hostLatches | publish
  | crash                     -- the agent process dies; memory is lost, disk and host stay
  | useLocal                  -- restart path: status names a latched guid and the local file is used
  deriving Repr

def stepSys (s : Sys) : Ev → Sys
  | .hostIssues k =>
    match s.pc with
    | .idle =>
      -- the host never hands out two different keys under one guid
      if s.host.issued.all (fun k' => k'.guid ≠ k.guid || k' == k) then
        { s with host := { s.host with issued := k :: s.host.issued }, pc := .acquired k }
      else s
    | _ => s
  | .createTmp =>
    match s.pc with
    | .acquired k => { s with fs := { s.fs with tmp := setF s.fs.tmp k.guid (.partialWrite 0) }, pc := .tmpCreated k }
    | _ => s
  | .writeMore n =>
    match s.pc with
    | .tmpCreated k => { s with fs := { s.fs with tmp := setF s.fs.tmp k.guid (.partialWrite (min n docLen)) }, pc := .tmpWritten k (min n docLen) }
    | .tmpWritten k m => { s with fs := { s.fs with tmp := setF s.fs.tmp k.guid (.partialWrite (min (m + n) docLen)) }, pc := .tmpWritten k (min (m + n) docLen) }
    | _ => s
  | .rename =>
    match s.pc with
    | .tmpWritten k m =>
      if m = docLen then
        { s with fs := { final := setF s.fs.final k.guid (.complete k), tmp := delF s.fs.tmp k.guid }, pc := .renamed k }
      else s        -- the code renames only after the whole document was written
    | _ => s
  | .readBack =>
    match s.pc with
    | .renamed k => if fetchKey s.fs k.guid = some k then { s with pc := .checked k } else { s with pc := .idle }
    | _ => s
  | .sendAttest =>
    match s.pc with
    | .checked k => { s with pc := .attestSent k }
    | _ => s
  | .hostLatches =>
    match s.pc with
    | .attestSent k => { s with host := { s.host with latched := some k.guid } }
    | _ => s
  | .publish =>
    match s.pc with
    | .attestSent k => if s.host.latched = some k.guid then { s with mem := some k, pc := .idle } else { s with pc := .idle }
    | _ => s
  | .crash => { s with pc := .idle, mem := none }
  | .useLocal =>
    match s.pc, s.host.latched with
    | .idle, some g => (match fetchKey s.fs g with | some k => { s with mem := some k } | none => s)
    | _, _ => s

def Sys.init : Sys := { host := { latched := none, issued := [] }, fs := { final := [], tmp := [] }, pc := .idle, mem := none }

/-! ### a rule change as the separate messages the key keeper sends to its state actor -/

structure RuleCell where
  id : Str
  rules : Option RuleItem
  deriving DecidableEq, Repr

inductive RMsg where
  | setId (id : Str)
  | setRules (r : Option RuleItem)
  deriving DecidableEq, Repr

def rstep (c : RuleCell) : RMsg → RuleCell
  | .setId i => { c with id := i }
  | .setRules r => { c with rules := r }

/-- `update_*_rule_id` then, when it reports a change, `set_*_rules` -/
def changeProgram (c : RuleCell) (new : Option RuleItem) : List RMsg :=
  if c.id = idOf new then [] else [.setId (idOf new), .setRules new]

end Gpa.KeyKeeper
