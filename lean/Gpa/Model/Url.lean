/- Request-target handling: `http::Uri::path()/query()` and `hyper_client::query_pairs`. -/
import Gpa.Model.Text
namespace Gpa.Url
open Gpa.Text

/-- an origin-form request target, already split by `http::Uri` at the first `?`
(`path()`, `query()`); the fragment never reaches the server. -/
structure Uri where
  path : Str
  query : Option Str
  deriving DecidableEq, Repr

/-- split a raw origin-form target at the first `?` -/
def parseTarget (t : Str) : Uri :=
  let r := splitOnce '?' t
  { path := r.1, query := r.2 }

/-- `Uri::to_string()` for origin form -/
def Uri.toStr (u : Uri) : Str :=
  match u.query with
  | some q => u.path ++ ['?'] ++ q
  | none => u.path

/-- `hyper_client::query_pairs`: split on `&`, `splitn(2,'=')`, skip pairs with empty key -/
def queryPairs (u : Uri) : List (Str × Str) :=
  let q := u.query.getD []
  (splitOn '&' q).filterMap fun pair =>
    let r := splitOnce '=' pair
    if r.1.isEmpty then none else some (r.1, r.2.getD [])

end Gpa.Url
