/- token decoding / canonical printing for the pipeline engine -/
import Gpa.Model.Pipeline
import Gpa.Model.RbacWire
namespace Gpa.Pipeline
open Gpa.Tok Gpa.Text Gpa.Url Gpa.Headers

def pRulesState : P RulesState := do
  match (← next) with
  | "E" => pure .err
  | "N" => pure (.ok none)
  | "V" => do let it ← Gpa.Rbac.pItem; pure (.ok (some it))
  | _ => failure

def pEnv : P Env := do
  let ws ← pRulesState; let imds ← pRulesState; let hostga ← pRulesState
  let key ← opt (do let g ← str; let k ← str; pure (g, k))
  let now ← str
  pure { ws, imds, hostga, key, now }

def pBool : P Bool := do
  match (← next) with
  | "1" => pure true
  | "0" => pure false
  | _ => failure

def pConn : P Conn := do
  let caller ← opt (do let c ← Gpa.Rbac.pClaims; let e ← pBool; pure ({ claims := c, elevated := e } : Caller))
  let dest ← opt (do let ip ← str; let p ← nat; pure (ip, p))
  pure { caller, dest }

/-- header values travel as bytes; each byte becomes one `Char` -/
def byteStr : P Str := do let b ← bytes; pure (b.map fun x => Char.ofNat x.toNat)

def pReq : P Req := do
  let method ← str
  let uri ← Gpa.Rbac.pUri
  let headers ← list (do let n ← str; let v ← byteStr; pure (n, v))
  let body ← bytes
  let declared ← opt nat
  pure { method, uri, headers, body, declared }

def hexStr (s : Str) : String := Gpa.Hex.encode (s.map fun c => UInt8.ofNat c.toNat)

def showHeaders (hs : Headers) : String :=
  toString hs.length ++ String.join (hs.map fun kv => " " ++ hexStr kv.1 ++ " " ++ hexStr kv.2)

def showResult (r : Result) : String :=
  match r.outcome with
  | .respond s => s!"respond {s} {r.failedAuth}"
  | .provision => s!"provision {r.failedAuth}"
  | .panic => s!"panic {r.failedAuth}"
  | .forward u =>
    let sg := match u.signed with
      | none => "N"
      | some (g, si) => s!"V {hexStr g} {Gpa.Hex.encode si}"
    s!"forward {r.failedAuth} {hexStr u.method} {hexStr u.uri.toStr} {showHeaders u.headers} {Gpa.Hex.encode u.body} {sg}"

def macPlaceholder : Str → List UInt8 → Str := fun _ _ => "@MAC@".toList

end Gpa.Pipeline
