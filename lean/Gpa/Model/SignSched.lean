/-
Signing under concurrent key replacement (C10).
Source: proxy_agent/src/shared_state/key_keeper_wrapper.rs (the actor holds `key : Option<Key>`, one message at a
time; `SetKey`, `GetKey`); the signing routes: proxy_server.rs `handle_request_with_signature`,
wire_server_client.rs `get_goalstate` / `get_shared_config`, imds_client.rs `get_imds_instance_info`.
A signer reads the latched key through actor messages, then emits `(key id, secret used for the MAC)`.
-/
import Gpa.Model.KeyKeeper
namespace Gpa.SignSched
open Gpa.Text Gpa.KeyKeeper

/-- one actor message, in the order the actor handles them -/
inductive Op where
  | set (k : Key)                 -- key keeper latches / rotates
  | clear                         -- key keeper clears (channel disabled)
  | readPair (signer : Nat)       -- a signer reads id and value in ONE message
  | readValue (signer : Nat)      -- two-message program: the value …
  | readGuid (signer : Nat)       -- … and, separately, the id
  deriving Repr

structure St where
  cell : Option Key
  /-- per signer: value read so far (two-message program) -/
  pendingValue : List (Nat × Option Str)
  /-- emitted (key id, secret) pairs, `none` = request sent unsigned -/
  emitted : List (Nat × Option (Str × Str))
  deriving Repr

def St.init (k : Option Key) : St := { cell := k, pendingValue := [], emitted := [] }

def lookupPending (l : List (Nat × Option Str)) (i : Nat) : Option (Option Str) :=
  match l with
  | [] => none
  | (j, v) :: rest => if j = i then some v else lookupPending rest i

def step (s : St) : Op → St
  | .set k => { s with cell := some k }
  | .clear => { s with cell := none }
  | .readPair i => { s with emitted := s.emitted ++ [(i, s.cell.map fun k => (k.guid, k.key))] }
  | .readValue i => { s with pendingValue := (i, s.cell.map (·.key)) :: s.pendingValue }
  | .readGuid i =>
    match lookupPending s.pendingValue i with
    | some v =>
      let pair := match s.cell.map (·.guid), v with
        | some g, some secret => some (g, secret)
        | _, _ => none
      { s with emitted := s.emitted ++ [(i, pair)] }
    | none => s

def run (s : St) (ops : List Op) : St := ops.foldl step s

def setKey? : Op → Option Key
  | .set k => some k
  | _ => none

/-- the keys that were ever in the cell during a run -/
def everLatched (init : Option Key) (ops : List Op) : List Key := init.toList ++ ops.filterMap setKey?

/-- only single-message signers (the program the code has) -/
def onlyPairReads (ops : List Op) : Bool :=
  ops.all fun o => match o with | .readValue _ | .readGuid _ => false | _ => true

end Gpa.SignSched
