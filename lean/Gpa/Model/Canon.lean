/-
The canonical string that is signed (C04).
Source: proxy_agent/src/common/hyper_client.rs `as_sig_input`, `request_to_sign_input`,
`headers_to_canonicalized_string`, `get_path_and_canonicalized_parameters`, `should_skip_sig`.
-/
import Gpa.Model.Headers
import Gpa.Model.Url
import Gpa.Generated.Facts
namespace Gpa.Canon
open Gpa.Text Gpa.Url Gpa.Headers

def authHeader : Str := Gpa.Facts.authorizationHeaderName.toList
def claimsHeader : Str := Gpa.Facts.claimsHeaderName.toList
def dateHeader : Str := Gpa.Facts.dateHeaderName.toList

/-- `HeaderValue::to_str()` succeeds iff every byte is visible ASCII (32..126) or a tab -/
def valueIsStr (v : Str) : Bool := v.all fun c => (32 ≤ c.toNat ∧ c.toNat ≤ 126) ∨ c = '\t'

/-- `HashMap::insert(lower(name), value)` over the iteration: last value per name wins -/
def lastPerName : Headers → List (Str × Str)
  | [] => []
  | (n, v) :: rest =>
    if rest.any (fun kv => kv.1 = n) then lastPerName rest else (n, v) :: lastPerName rest

/-- header value bytes (one `Char` per byte) as the text the code signs:
`String::from_utf8_lossy(value.as_bytes())` then `str::trim` -/
def valueText (v : Str) : Str := trimUni (utf8DecodeLossy (v.map fun c => UInt8.ofNat c.toNat))

/-- the code before the fix: `value.to_str().unwrap()` — `none` is the panic -/
def valueTextStrict (v : Str) : Option Str := if valueIsStr v then some (trim v) else none

/-- `headers_to_canonicalized_string` -/
def canonHeaders (hs : Headers) : Str :=
  let m := sortBy (fun a b => strLt a.1 b.1) (lastPerName hs)
  (m.filter (fun kv => kv.1 ≠ authHeader)).flatMap fun kv => kv.1 ++ [':'] ++ valueText kv.2 ++ ['\n']

/-- de-duplicate on the map key `lower(key) ++ value`, later pair wins -/
def lastPerKey : List (Str × (Str × Str)) → List (Str × (Str × Str))
  | [] => []
  | (k, p) :: rest =>
    if rest.any (fun kv => kv.1 = k) then lastPerKey rest else (k, p) :: lastPerKey rest

/-- `get_path_and_canonicalized_parameters(..).1` -/
def canonParams (u : Uri) : Str :=
  let pairs := (queryPairs u).map fun kv => (lower kv.1 ++ kv.2, (lower kv.1, kv.2))
  let sorted := sortBy (fun a b => strLt a.1 b.1) (lastPerKey pairs)
  let parts := sorted.map fun kv => if kv.2.2.isEmpty then kv.1 else kv.2.1 ++ ['='] ++ kv.2.2
  match parts with
  | [] => []
  | p :: ps => ps.foldl (fun acc q => acc ++ ['&'] ++ q) p

/-- `as_sig_input(head, body)` — the proxy's route -/
def sigInput (method : Str) (body : List UInt8) (hs : Headers) (u : Uri) : List UInt8 :=
  utf8 method ++ [10] ++ body ++ [10] ++ utf8 (canonHeaders hs) ++ utf8 u.path ++ [10] ++ utf8 (canonParams u)

/-- `request_to_sign_input(builder, body)` — the agent's own calls -/
def sigInputBuilder (method : Str) (body : Option (List UInt8)) (hs : Headers) (u : Uri) : List UInt8 :=
  utf8 method ++ [10] ++ (body.getD []) ++ [10] ++ utf8 (canonHeaders hs) ++ utf8 u.path ++ [10] ++ utf8 (canonParams u)

/-- `should_skip_sig(method, uri)` -/
def shouldSkipSig (method : Str) (u : Uri) : Bool :=
  let url := lower u.toStr
  -- the two URL texts are the ones found in the source (generated facts)
  (method = "PUT".toList && url = Gpa.Facts.skipSigPutUrl.toList) ||
  (method = "POST".toList && url = Gpa.Facts.skipSigPostUrl.toList)

end Gpa.Canon
