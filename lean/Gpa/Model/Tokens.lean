/- Flat token decoding for structured values of the line protocol (shared by all engines). -/
import Gpa.Model.Hex
import Gpa.Model.Text
namespace Gpa.Tok
open Gpa.Text

abbrev P := StateT (List String) Option

def next : P String := do
  match (← get) with
  | [] => failure
  | t :: ts => set ts; pure t

def nat : P Nat := do
  match (← next).toNat? with
  | some n => pure n
  | none => failure

def str : P Str := do
  match Gpa.Hex.decodeString (← next) with
  | some s => pure s.toList
  | none => failure

def bytes : P (List UInt8) := do
  match Gpa.Hex.decode (← next) with
  | some b => pure b
  | none => failure

def many {α} (p : P α) : Nat → P (List α)
  | 0 => pure []
  | n + 1 => do let x ← p; let xs ← many p n; pure (x :: xs)

/-- `L n x1 … xn` -/
def list {α} (p : P α) : P (List α) := do let n ← nat; many p n

/-- `N` | `V x` -/
def opt {α} (p : P α) : P (Option α) := do
  match (← next) with
  | "N" => pure none
  | "V" => do let x ← p; pure (some x)
  | _ => failure

def run {α} (p : P α) (toks : List String) : Option α :=
  match p.run toks with
  | some (a, []) => some a
  | _ => none

end Gpa.Tok
