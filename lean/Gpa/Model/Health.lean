/-
Model of the VM extension's health hysteresis (C20).
Source: proxy_agent_extension/src/common.rs `StatusState::{new, update_state}` and
        proxy_agent_extension/src/service_main/service_state.rs `ServiceState::update_service_state_entry`.
Import-free (core Lean only) so that the line-protocol driver links as a native executable.
-/
namespace Gpa.Health

/-- `current_state` is a `String` in the source; the three status strings plus "anything else". -/
inductive St where
  | success | transitioning | error | other
  deriving DecidableEq, Repr

def St.toString : St → String
  | .success => "success"
  | .transitioning => "transitioning"
  | .error => "error"
  | .other => "other"

/-- `StatusState`; counters are `u32` saturating at `maxCount`, so `Nat` is exact as long as
`maxCount < 2^32` (a generated-fact obligation). -/
structure StatusState where
  cur : St
  fail : Nat
  succ : Nat
  thr : Nat        -- transition_to_error_threshold
  maxCount : Nat   -- StatusState::MAX_CONSECUTIVE_COUNT
  deriving DecidableEq, Repr

def StatusState.new (thr maxCount : Nat) : StatusState :=
  { cur := .transitioning, fail := 0, succ := 0, thr := thr, maxCount := maxCount }

/-- the `match self.current_state.as_str()` block, on the already updated counters -/
def nextCur (cur : St) (succ fail thr : Nat) : St :=
  match cur with
  | .success => if fail ≥ 1 then .transitioning else .success
  | .transitioning =>
      if succ ≥ 1 then .success
      else if fail ≥ thr then .error
      else .transitioning
  | .error => if succ ≥ 1 then .transitioning else .error
  | .other => .transitioning

/-- saturating increment `if c < MAX { c += 1 }` -/
def satInc (c maxCount : Nat) : Nat := if c < maxCount then c + 1 else c

/-- `update_state(&mut self, operation_success) -> String` as a pure step. -/
def StatusState.update (s : StatusState) (ok : Bool) : StatusState :=
  let succ' := if ok then satInc s.succ s.maxCount else 0
  let fail' := if ok then 0 else satInc s.fail s.maxCount
  { s with succ := succ', fail := fail', cur := nextCur s.cur succ' fail' s.thr }

def StatusState.run (s : StatusState) (obs : List Bool) : StatusState :=
  obs.foldl StatusState.update s

/-- the list of reports produced by a run (one per observation) -/
def StatusState.reports : StatusState → List Bool → List St
  | _, [] => []
  | s, o :: os => (s.update o).cur :: StatusState.reports (s.update o) os

/-- `ServiceState`: `HashMap<String,(String,u32)>` as an association list keyed by `String`. -/
abbrev ServiceState := List (String × (String × Nat))

def ServiceState.get (m : ServiceState) (k : String) : Option (String × Nat) :=
  match m with
  | [] => none
  | (k', v) :: rest => if k' = k then some v else ServiceState.get rest k

def ServiceState.set (m : ServiceState) (k : String) (v : String × Nat) : ServiceState :=
  match m with
  | [] => [(k, v)]
  | (k', v') :: rest => if k' = k then (k, v) :: rest else (k', v') :: ServiceState.set rest k v

/-- `update_service_state_entry(key, value, max_count) -> bool` -/
def ServiceState.note (m : ServiceState) (k v : String) (maxCount : Nat) : ServiceState × Bool :=
  match ServiceState.get m k with
  | some (value, count) =>
      if value ≠ v ∨ count ≥ maxCount then (ServiceState.set m k (v, 1), true)
      else (ServiceState.set m k (v, count + 1), false)
  | none => (ServiceState.set m k (v, 1), true)

end Gpa.Health
