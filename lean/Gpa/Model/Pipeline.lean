/-
Model of the proxy's request handling.
Source: proxy_agent/src/proxy/proxy_server.rs `handle_new_tcp_connection` (limit layer),
`handle_new_http_request`, `handle_request_with_signature`, `convert_request`, `forward_response`;
proxy_agent/src/proxy/proxy_authorizer.rs `get_authorizer`, `get_access_control_rules`, `authorize`;
proxy_agent/src/proxy/proxy_connection.rs `TcpConnectionContext::{new,get_audit_entry}`.
-/
import Gpa.Model.Rbac
import Gpa.Model.Canon
import Gpa.Generated.Facts
namespace Gpa.Pipeline
open Gpa.Text Gpa.Url Gpa.Headers Gpa.Canon Gpa.Rbac

inductive Endpoint where
  | wireServer | gaPlugin | imds | proxySelf | other
  deriving DecidableEq, Repr

/-- `get_authorizer` / `get_access_control_rules`: selection by original destination -/
def endpointOf (ip : Str) (port : Nat) : Endpoint :=
  if ip = Gpa.Facts.wireServerIp.toList ∧ port = Gpa.Facts.wireServerPort then .wireServer
  else if ip = Gpa.Facts.gaPluginIp.toList ∧ port = Gpa.Facts.gaPluginPort then .gaPlugin
  else if ip = Gpa.Facts.imdsIp.toList ∧ port = Gpa.Facts.imdsPort then .imds
  else if ip = Gpa.Facts.proxyAgentIp.toList ∧ port = Gpa.Facts.proxyAgentPort then .proxySelf
  else .other

structure Caller where
  claims : Claims
  elevated : Bool
  deriving DecidableEq, Repr

/-- what the proxy learned about the TCP connection at accept time -/
structure Conn where
  caller : Option Caller
  dest : Option (Str × Nat)
  deriving DecidableEq, Repr

def Conn.unattributed : Conn := { caller := none, dest := none }

/-- result of asking the key keeper for an endpoint's rules -/
inductive RulesState where
  | ok (r : Option Item)
  | err
  deriving Repr

structure Env where
  ws : RulesState
  imds : RulesState
  hostga : RulesState
  /-- latched key: (guid, hex key) -/
  key : Option (Str × Str)
  /-- RFC 1123 time string the proxy produces for this request -/
  now : Str
  deriving Repr

structure Req where
  method : Str
  uri : Uri
  /-- header lines as sent by the client (wire order, any case) -/
  headers : Headers
  body : List UInt8
  /-- `Content-Length` if the client declared one -/
  declared : Option Nat
  deriving Repr

inductive AuthResult where
  | ok | okWithAudit | forbidden
  deriving DecidableEq, Repr

def rulesDecision (rules : Option Item) (u : Uri) (c : Claims) : AuthResult :=
  match rules with
  | none => .ok
  | some it =>
    let comp := compute it
    if isAllowed comp u c then .ok
    else if comp.mode = .audit then .okWithAudit
    else .forbidden

/-- `proxy_authorizer::authorize` -/
def authorize (ep : Endpoint) (caller : Caller) (u : Uri) (rules : Option Item) : AuthResult :=
  match ep with
  | .wireServer => if !caller.elevated then .forbidden else rulesDecision rules u caller.claims
  | .gaPlugin => if !caller.elevated then .forbidden else rulesDecision rules u caller.claims
  | .imds => rulesDecision rules u caller.claims
  | .proxySelf => .forbidden
  | .other => .ok

def rulesFor (ep : Endpoint) (env : Env) : RulesState :=
  match ep with
  | .wireServer => env.ws
  | .gaPlugin => env.hostga
  | .imds => env.imds
  | _ => .ok none

structure UpReq where
  method : Str
  uri : Uri
  headers : Headers
  body : List UInt8
  /-- `(key id, canonical string that was signed)` when a signature was added -/
  signed : Option (Str × List UInt8)
  deriving Repr

inductive Outcome where
  | respond (status : Nat)
  | provision
  | forward (u : UpReq)
  | panic
  deriving Repr

structure Result where
  outcome : Outcome
  /-- records added to the failed-authorization summary (keyed by the caller) -/
  failedAuth : Nat
  deriving Repr

def claimsValue (elevated : Bool) : Str :=
  "{ \"isRoot\": \"".toList ++ (if elevated then "true".toList else "false".toList) ++ "\"}".toList

def containsSub (hay needle : Str) : Bool :=
  match hay with
  | [] => needle.isEmpty
  | _ :: t => startsWith hay needle || containsSub t needle

def isHexKey (k : Str) : Bool :=
  k.length % 2 = 0 && k.all fun c => ('0' ≤ c ∧ c ≤ '9') ∨ ('a' ≤ c ∧ c ≤ 'f') ∨ ('A' ≤ c ∧ c ≤ 'F')

def limitFor (r : Req) : Nat :=
  if shouldSkipSig r.method r.uri then Gpa.Facts.requestBodyLargeLimit else Gpa.Facts.requestBodyLowLimit

def authScheme : Str := Gpa.Facts.authorizationScheme.toList

def provisionUrl : Str := "/provision".toList

def mkForward (r : Req) (hm : Headers) (signed : Option (Str × List UInt8)) : Outcome :=
  .forward { method := r.method, uri := r.uri, headers := hm, body := r.body, signed := signed }

/-- `handle_request_with_signature`, after the body has been collected -/
def signStage (mac : Str → List UInt8 → Str) (env : Env) (r : Req) (hm : Headers) : Outcome :=
  match env.key with
  | none => mkForward r hm none
  | some (guid, key) =>
    let si := sigInput r.method r.body hm r.uri
    if isHexKey key then
      mkForward r (insert authHeader (authScheme ++ [' '] ++ guid ++ [' '] ++ mac key si) hm) (some (guid, si))
    else mkForward r hm none

def teHeader : Str := "transfer-encoding".toList

/-- the head that is signed and sent: hyper sends no `transfer-encoding` for an empty body, so the
proxy drops it from the head before signing -/
def signedHeaders (r : Req) (hm : Headers) : Headers :=
  if r.body.isEmpty then remove teHeader hm else hm

/-- everything after authorization passed: proxy-owned headers, body collection, signing -/
def forwardStage (mac : Str → List UInt8 → Str) (env : Env) (caller : Caller) (r : Req) : Outcome :=
  let hm := insert dateHeader env.now (insert claimsHeader (claimsValue caller.elevated) (ofWire r.headers))
  -- the body is collected (through the `Limited` wrapper) before anything goes upstream
  if r.body.length > limitFor r then .respond 400
  else if shouldSkipSig r.method r.uri then mkForward r hm none
  else signStage mac env r (signedHeaders r hm)

/-- authorization for an attributed connection -/
def authStage (mac : Str → List UInt8 → Str) (env : Env) (ip : Str) (port : Nat) (caller : Caller) (r : Req) : Result :=
  match rulesFor (endpointOf ip port) env with
  | .err => ⟨.respond 500, 0⟩
  | .ok rules =>
    let a := authorize (endpointOf ip port) caller r.uri rules
    let failed := if a = .ok then 0 else 1
    if a = .forbidden then ⟨.respond 403, failed⟩
    else ⟨forwardStage mac env caller r, failed⟩

/-- what the connection context allows -/
def connStage (mac : Str → List UInt8 → Str) (env : Env) (conn : Conn) (r : Req) : Result :=
  match conn.dest with
  | none => ⟨.respond 421, 0⟩
  | some (ip, port) =>
    match conn.caller with
    | none => ⟨.respond 421, 1⟩
    | some caller => authStage mac env ip port caller r

/-- the whole request path. `mac key input` is HMAC-SHA256 rendered as the code renders it. -/
def handle (mac : Str → List UInt8 → Str) (env : Env) (conn : Conn) (r : Req) : Result :=
  -- tower RequestBodyLimitLayer: a declared length above the limit is refused before the handler runs
  if (r.declared.getD 0) > limitFor r then ⟨.respond 413, 0⟩
  else if containsSub r.uri.path ['.', '.'] then ⟨.respond 404, 0⟩
  else if r.uri.toStr = provisionUrl then ⟨.provision, 0⟩
  else connStage mac env conn r

/-! ### the property's sentence (C01/C03): when may a request be relayed at all -/

def rulesPermit (rules : Option Item) (u : Uri) (c : Claims) : Bool :=
  match rules with
  | none => true
  | some it => specAllowed it u c || parseMode it.mode = .audit

/-- relayed only if the connection is attributed (destination and caller known), the path has no
`..`, and the policy in force authorizes that caller for that URL -/
def specMayRelay (env : Env) (conn : Conn) (r : Req) : Bool :=
  match conn.dest, conn.caller with
  | some (ip, port), some caller =>
    !containsSub r.uri.path ['.', '.'] &&
    (match endpointOf ip port, rulesFor (endpointOf ip port) env with
     | _, .err => false
     | .other, _ => true
     | .proxySelf, _ => false
     | .imds, .ok rules => rulesPermit rules r.uri caller.claims
     | _, .ok rules => caller.elevated && rulesPermit rules r.uri caller.claims)
  | _, _ => false

structure Resp where
  status : Nat
  headers : Headers
  body : List UInt8
  deriving Repr

/-- `forward_response`: head reused, frames mapped one-to-one (`u8::to_be` is the identity),
the marker header inserted -/
def relayResponse (resp : Resp) : Resp :=
  { status := resp.status, headers := insert authHeader "value".toList (ofWire resp.headers),
    body := resp.body.map fun b => b }

end Gpa.Pipeline
