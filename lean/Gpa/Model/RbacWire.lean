/- token decoding of rule documents / claims for the rbac engine -/
import Gpa.Model.Rbac
import Gpa.Model.Tokens
namespace Gpa.Rbac
open Gpa.Tok Gpa.Url

def pPrivilege : P Privilege := do
  let name ← str; let path ← str
  let q ← opt (list (do let k ← str; let v ← str; pure (k, v)))
  pure { name, path, query := q }

def pRole : P Role := do let name ← str; let ps ← list str; pure { name, privileges := ps }
def pIdentity : P Identity := do
  let name ← str
  let u ← opt str; let g ← opt str; let e ← opt str; let p ← opt str
  pure { name, userName := u, groupName := g, exePath := e, processName := p }
def pAssignment : P Assignment := do let r ← str; let ids ← list str; pure { role := r, identities := ids }

def pRules : P Rules := do
  let ps ← opt (list pPrivilege); let rs ← opt (list pRole)
  let ids ← opt (list pIdentity); let ras ← opt (list pAssignment)
  pure { privileges := ps, roles := rs, identities := ids, roleAssignments := ras }

def pItem : P Item := do
  let mode ← str; let dflt ← str; let rules ← opt pRules
  pure { defaultAccess := dflt, mode, rules }

def pUri : P Uri := do let p ← str; let q ← opt str; pure { path := p, query := q }

def pClaims : P Claims := do
  let u ← str; let gs ← list str; let pn ← str; let e ← str
  pure { userName := u, groups := gs, processName := pn, exePath := e }

end Gpa.Rbac
