/-
Where the key value can flow (C12).

Every text the agent writes is modelled as a list of pieces; the piece `secret k` stands for the
value of the `key` field of the k-th key document the host issued, `mac k` for a MAC computed with
it, `guid k` for its guid. A sink *leaks* when a `secret` piece reaches it.

Source: proxy_agent/src/key_keeper.rs `poll_secure_channel_status` (start-up: try_create_folder,
acl_directory; one loop iteration; `update_status_message`), key_keeper/key.rs `acquire_key`,
`attest_key`, common/helpers.rs `compute_signature`, common/hyper_client.rs `build_request`,
`read_response_body`, common/error.rs (the `#[error]` texts), proxy/proxy_server.rs
`handle_request_with_signature` (signing branch), shared_state/agent_status_wrapper.rs
`set_module_status_message`, proxy_agent_shared event_logger `write_event`, provision.rs
`get_provision_failed_state_message`, proxy_agent_status.rs (status.json).
-/
import Gpa.Generated.Facts
namespace Gpa.Secrets

inductive Piece where
  | lit (s : String)          -- text fixed by the program, or input that is not key material
  | guid (k : Nat)
  | secret (k : Nat)
  | mac (k : Nat)
  deriving DecidableEq, Repr

abbrev Text := List Piece

def isSecret : Piece → Bool
  | .secret _ => true
  | _ => false

/-- the text contains key material -/
def leaks (t : Text) : Bool := t.any isSecret

inductive Sink where
  | agentLog | connLog | console | serial | event | statusMsg
  | statusJson | statusTag | clientResp | rulesDump
  | upstreamAuth          -- the signature header sent to the host
  | hostReq               -- the attestation request
  | keyFile               -- `<guid>.key` inside the key directory
  deriving DecidableEq, Repr

structure Emit where
  sink : Sink
  tid : String            -- which statement of the program wrote it
  text : Text
  deriving DecidableEq, Repr

/-- how the code treats the two error texts that embed their input (read from the source by
tools/extract_facts.py: `hexKeyWithheldSites`, `acquireBodyWithheld`) -/
structure Variant where
  withholdHexKey : Bool
  withholdBody : Bool
  deriving DecidableEq, Repr

/-- the variant the source is in: every call site of `compute_signature` replaces the key in `Error::Hex`,
and the one `read_response_body` of the key module replaces the body text -/
def codeVariant : Variant :=
  { withholdHexKey := decide (Gpa.Facts.hexKeyWithheldSites = Gpa.Facts.computeSignatureCallSites),
    withholdBody := decide (Gpa.Facts.acquireBodyWithheld = Gpa.Facts.keyReadResponseBodySites) }

structure KeyVal where
  id : Nat
  hexOk : Bool            -- the value is a hex string (`hex::decode` succeeds)
  deriving DecidableEq, Repr

inductive Level where
  | trace | info | warn | error
  deriving DecidableEq, Repr

/-- common/logger.rs `log`: console unless Trace, then the agent's file log -/
def logAgent (lvl : Level) (tid : String) (t : Text) : List Emit :=
  (if lvl = .trace then [] else [⟨.console, tid, t⟩]) ++ [⟨.agentLog, tid, t⟩]

/-- event_logger `write_event`: the (truncated) message as an event, the message in the file log -/
def writeEvent (tid : String) (t : Text) : List Emit :=
  [⟨.event, tid, t⟩, ⟨.agentLog, tid, t⟩]

/-- helpers.rs `write_startup_event`: an event, and the serial console -/
def startupEvent (tid : String) (t : Text) : List Emit :=
  writeEvent tid t ++ [⟨.serial, tid, t⟩]

/-- `Error::Hex` as the two call sites of `compute_signature` pass it on -/
def hexErrText (v : Variant) (k : KeyVal) : Text :=
  if v.withholdHexKey then [.lit "Hex encoded key '<withheld>' is invalid"]
  else [.lit "Hex encoded key '", .secret k.id, .lit "' is invalid"]

inductive AcquireIn where
  | sendFail
  | http (code : Nat)
  | malformed (body : Text)      -- status 200, body is not a key document; the body is whatever the host sent
  | key (k : KeyVal)
  deriving Repr

inductive AttestIn where
  | ok | http (code : Nat) | sendFail
  deriving DecidableEq, Repr

/-- the error `acquire_key` returns, as text -/
def acquireErrText (v : Variant) : AcquireIn → Text
  | .sendFail => [.lit "Key(SendKeyRequest(acquire))"]
  | .http code => [.lit s!"Key(KeyResponse(acquire, {code}))"]
  | .malformed body =>
    if v.withholdBody then [.lit "Hyper(Deserialize(Failed to deserialize the acquire key response body (body withheld)))"]
    else [.lit "Hyper(Deserialize(Failed to json deserialize response body with json from: "] ++ body ++ [.lit " with error ..))"]
  | .key _ => []

inductive StatusIn where
  | failed (err : Text)
  /-- `desc` is `Display for KeyStatus`; `rules` the rule documents when they changed -/
  | ok (desc : Text) (guid : Option Nat) (state : String) (rules : Option Text)
  deriving Repr

structure PollIn where
  status : StatusIn
  acquire : AcquireIn
  storeOk : Bool
  attest : AttestIn
  deriving Repr

/-- what a file-system observer sees -/
inductive FsOp where
  | mkdirKeyDir | chownKeyDir | chmodKeyDir (mode : Nat) | createKeyFile (k : Nat)
  deriving DecidableEq, Repr

structure St where
  statusMsg : Text            -- the key keeper's module status message
  cur : Option KeyVal         -- the key in memory
  files : List KeyVal         -- key files in the key directory
  chan : String               -- current secure channel state
  started : Bool              -- the poll task ran its start-up section
  deriving Repr

def St.init : St := { statusMsg := [.lit "Status unknown."], cur := none, files := [], chan := "Unknown", started := false }

/-- `update_status_message` → `set_module_status_message`: when the text differs from the stored one it
is stored and written as a Warn event (event + file log); otherwise optionally logged at Trace -/
def setStatus (st : St) (tid : String) (t : Text) (logToFile : Bool) : St × List Emit :=
  if st.statusMsg = t then (st, if logToFile then logAgent .trace tid t else [])
  else ({ st with statusMsg := t }, ⟨.statusMsg, tid, t⟩ :: writeEvent tid t)

def findFile (files : List KeyVal) (g : Nat) : Option KeyVal := files.find? fun k => k.id = g

def disabledState : String := "disabled"

/-- the state compare-and-set at the end of an iteration -/
def finishPoll (st : St) (state : String) : St × List Emit :=
  if st.chan = state then (st, [])
  else
    let st1 := { st with chan := state }
    if state = disabledState then
      let t : Text := [.lit "Customer has not enforce the secure channel state."]
      let r := setStatus st1 "not-enforced" t false
      ({ r.1 with cur := none }, startupEvent "not-enforced" t ++ r.2)
    else (st1, [])

/-- latch `k`: memory, start-up event, status -/
def latch (st : St) (k : KeyVal) (tid : String) (t : Text) : St × List Emit :=
  let r := setStatus { st with cur := some k } tid t false
  (r.1, startupEvent tid t ++ r.2)

/-- the event written when the guid the host names has no readable key file -/
def fetchFailed : Option Nat → List Emit
  | some g => writeEvent "fetch-local-failed" [.lit "Failed to fetch local key details with error: Key file '", .guid g, .lit ".key' does not exist locally. Will try acquire the key details from Server."]
  | none => []

/-- after the key file is written and read back: attest, then latch -/
def attestStage (v : Variant) (st1 : St) (k : KeyVal) (a : AttestIn) : St × Bool × List Emit :=
  if !k.hexOk then
    -- `attest_key` → `build_request` → `compute_signature` fails before anything is sent
    (st1, false, logAgent .warn "attest-failed" ([.lit "Failed to attest the key: "] ++ hexErrText v k))
  else
    let req : Emit := ⟨.hostReq, "attest", [.guid k.id, .mac k.id]⟩
    match a with
    | .ok =>
      let r := latch st1 k "attested" [.lit "Successfully attest the key and ready to use."]
      (r.1, true, req :: r.2)
    | .http code =>
      (st1, false, req :: logAgent .warn "attest-failed" [.lit s!"Failed to attest the key: Key(KeyResponse(attest, {code}))"])
    | .sendFail =>
      -- the transport error names the attestation URL, which carries the guid
      (st1, false, req :: logAgent .warn "attest-failed" [.lit "Failed to attest the key: Key(SendKeyRequest(attest, /secure-channel/key/", .guid k.id, .lit "/key-attestation ..))"])

def storeEmits (k : KeyVal) : List Emit :=
  ⟨.keyFile, "store", [.guid k.id, .secret k.id]⟩ ::
    logAgent .info "acquired" [.lit "Successfully acquired the key '", .guid k.id, .lit "' details from server and saved locally."]

/-- acquire from the host, store, attest -/
def acquireStage (v : Variant) (st : St) (acq : AcquireIn) (storeOk : Bool) (att : AttestIn) : St × Bool × List Emit × List FsOp :=
  match acq with
  | .key k =>
    if !storeOk then
      -- the error names the file, `<key dir>/<guid>.key`
      let r := setStatus st "store-failed" [.lit "Failed to save key details to file: Key(StoreLocalKey(json_write_to_file '", .guid k.id, .lit ".key' failed ..))"] true
      (r.1, false, r.2, [])
    else
      let st1 := { st with files := k :: st.files.filter fun f => f.id ≠ k.id }
      let r := attestStage v st1 k att
      (r.1, r.2.1, storeEmits k ++ r.2.2, [.createKeyFile k.id])
  | other =>
    let r := setStatus st "acquire-failed" ([.lit "Failed to acquire key details: "] ++ acquireErrText v other) true
    (r.1, false, r.2, [])

/-- the key part of one iteration; the Bool is false when the iteration was abandoned (`continue`) -/
def keyStage (v : Variant) (st : St) (guid : Option Nat) (i : PollIn) : St × Bool × List Emit × List FsOp :=
  match guid.bind (findFile st.files) with
  | some k =>
    let r := latch st k "found-local" [.lit "Found key details from local and ready to use."]
    (r.1, true, r.2, [])
  | none =>
    let r := acquireStage v st i.acquire i.storeOk i.attest
    (r.1, r.2.1, fetchFailed guid ++ r.2.2.1, r.2.2.2)

def needKey (st : St) (guid : Option Nat) (state : String) : Bool :=
  state ≠ disabledState && (guid.isNone || guid ≠ st.cur.map (·.id))

/-- the rule documents of a status that changed them are dumped to the log directory -/
def rulesEmit : Option Text → List Emit
  | some r => [⟨.rulesDump, "rules", r⟩]
  | none => []

/-- one iteration of the poll loop (after start-up) -/
def poll (v : Variant) (st : St) (i : PollIn) : St × List Emit × List FsOp :=
  match i.status with
  | .failed err =>
    let r := setStatus st "status-failed" ([.lit "Failed to get key status - "] ++ err) true
    (r.1, r.2, [])
  | .ok desc guid state rules =>
    let r1 := setStatus st "status-ok" ([.lit "Got key status successfully: "] ++ desc ++ [.lit "."]) true
    let eR := rulesEmit rules
    if !needKey r1.1 guid state then
      let r2 := finishPoll r1.1 state
      (r2.1, r1.2 ++ eR ++ r2.2, [])
    else
      let ks := keyStage v r1.1 guid i
      if ks.2.1 then
        let r3 := finishPoll ks.1 state
        (r3.1, r1.2 ++ eR ++ ks.2.2.1 ++ r3.2, ks.2.2.2)
      else (ks.1, r1.2 ++ eR ++ ks.2.2.1, ks.2.2.2)

/-- operations of a run -/
inductive Op where
  | start                          -- the poll task starts (process start)
  | poll (i : PollIn)
  | request                        -- an authorized client request reaches the signing branch
  | provisionQuery                 -- a local client asks /provision
  | statusTick                     -- the status task writes status.json
  | timeup                         -- the provisioning deadline writes status.tag
  | restart                        -- the process is restarted: memory is lost, files stay
  deriving Repr

/-- the signing branch of `handle_request_with_signature` -/
def sign (v : Variant) (st : St) : List Emit :=
  match st.cur with
  | none => [⟨.connLog, "no-key", [.lit "current key is empty, skip computing the signature."]⟩]
  | some k =>
    if k.hexOk then
      [⟨.upstreamAuth, "auth", [.lit "Azure-HMAC-SHA256 ", .guid k.id, .lit " ", .mac k.id]⟩,
       ⟨.connLog, "added-auth", [.lit "Added authorization header Azure-HMAC-SHA256 ", .guid k.id, .lit " ", .mac k.id]⟩]
    else
      [⟨.connLog, "sig-failed", [.lit "compute_signature failed with error: "] ++ hexErrText v k⟩]

def startEmits : List Emit :=
  logAgent .trace "keydir-created" [.lit "key folder created if not exists before."] ++
  logAgent .trace "keydir-acl" [.lit "Folder ACLed if has not before."]

def step (v : Variant) (st : St) : Op → St × List Emit × List FsOp
  | .start =>
    if st.started then (st, [], [])
    else
      let r := setStatus { st with started := true } "task-started" [.lit "poll secure channel status task started."] true
      (r.1, r.2 ++ startEmits, [.mkdirKeyDir, .chownKeyDir, .chmodKeyDir Gpa.Facts.keyDirMode])
  | .poll i => if st.started then poll v st i else (st, [], [])
  | .request => (st, sign v st, [])
  | .provisionQuery =>
    -- the reply is also written to the connection log
    (st, [⟨.clientResp, "provision", [.lit "keyLatchStatus - "] ++ st.statusMsg⟩,
          ⟨.connLog, "provision-state", [.lit "Provision state: keyLatchStatus - "] ++ st.statusMsg⟩], [])
  | .statusTick => (st, [⟨.statusJson, "status-json", st.statusMsg ++ (match st.cur with | some k => [.guid k.id] | none => [])⟩], [])
  | .timeup =>
    -- provision.rs `write_provision_state`: the failed-state message goes to the serial console, an event (and
    -- with it the file log) and status.tag; it holds the key latch status message unless the latch is ready
    let t : Text := [.lit "keyLatchStatus - "] ++ st.statusMsg
    (st, [⟨.serial, "provision-failed-state", t⟩] ++ writeEvent "provision-failed-state" t ++ [⟨.statusTag, "provision-failed-state", t⟩], [])
  | .restart => ({ St.init with files := st.files }, [], [])

def run (v : Variant) : St → List Op → List Emit × List FsOp
  | _, [] => ([], [])
  | st, op :: rest =>
    let r := step v st op
    let r' := run v r.1 rest
    (r.2.1 ++ r'.1, r.2.2 ++ r'.2)

def finalState (v : Variant) : St → List Op → St
  | st, [] => st
  | st, op :: rest => finalState v (step v st op).1 rest

/-- the inputs do not themselves carry key material where the host never puts it: the status
document, status errors and rule documents -/
def StatusIn.clean : StatusIn → Bool
  | .failed err => !leaks err
  | .ok desc _ _ rules => !leaks desc && (match rules with | some r => !leaks r | none => true)

def Op.clean : Op → Bool
  | .poll i => i.status.clean
  | _ => true

end Gpa.Secrets
