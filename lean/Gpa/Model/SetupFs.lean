/-
The setup tool's file operations on Linux (C17).
Source: proxy_agent_setup/src/main.rs (commands), proxy_agent_setup/src/linux.rs
(`backup_files`, `copy_files`, `delete_files`, `setup_service`), backup.rs / running.rs / setup.rs (paths),
proxy_agent_shared/src/service/linux_service.rs (systemctl calls).
File contents are abstract values; `runs c` = "the executable with content `c` answers `--version`"
(the tool aborts when the package's or the backup's executable does not).
-/
namespace Gpa.SetupFs

inductive Path where
  | sysExe | sysCfg | sysEbpf | sysUnit          -- /usr/sbin/azure-proxy-agent, /etc/azure/proxy-agent.json, …/ebpf_cgroup.o, …/azure-proxy-agent.service
  | pkgExe | pkgCfg | pkgEbpf | pkgUnit          -- <tool dir>/ProxyAgent/*, <tool dir>/azure-proxy-agent.service
  | bakExe | bakCfg | bakEbpf | bakUnit          -- <tool dir>/ProxyAgent/Backup/Package/*, …/Backup/azure-proxy-agent.service
  | other (n : Nat)                              -- everything else on the machine
  deriving DecidableEq, Repr

abbrev Content := Nat
abbrev Fs := Path → Option Content

inductive Ev where
  | systemctl (what : String)
  | write (p : Path)
  | delete (p : Path)
  deriving DecidableEq, Repr

def put (fs : Fs) (p : Path) (c : Option Content) : Fs := fun q => if q = p then c else fs q

/-- `fs::copy(src, dst)` with the failure (missing source) only logged -/
def copyFile (st : Fs × List Ev) (src dst : Path) : Fs × List Ev :=
  match st.1 src with
  | some c => (put st.1 dst (some c), st.2 ++ [.write dst])
  | none => st

def deleteFile (st : Fs × List Ev) (p : Path) : Fs × List Ev :=
  match st.1 p with
  | some _ => (put st.1 p none, st.2 ++ [.delete p])
  | none => st

def sys (st : Fs × List Ev) (what : String) : Fs × List Ev := (st.1, st.2 ++ [.systemctl what])

/-- `backup`: config, eBPF object, executable into Backup/Package, unit file into Backup -/
def backup (fs : Fs) : Fs × List Ev :=
  copyFile (copyFile (copyFile (copyFile (fs, []) .sysCfg .bakCfg) .sysEbpf .bakEbpf) .sysExe .bakExe) .sysUnit .bakUnit

/-- copy a package (executable, config, eBPF object), install the unit file from `unit`, enable, start -/
def deploy (runs : Content → Bool) (st : Fs × List Ev) (exe cfg ebpf unit : Path) : Fs × List Ev :=
  match st.1 exe with
  | none => st                       -- version query fails: the tool aborts (service left stopped)
  | some c =>
    if !runs c then st
    else
      let st := copyFile (copyFile (copyFile st exe .sysExe) cfg .sysCfg) ebpf .sysEbpf
      match st.1 unit with
      | none => st                   -- unit file missing: exit(1) before enable/start
      | some _ =>
        sys (sys (sys (sys (copyFile st unit .sysUnit) "unmask") "daemon-reload") "enable") "start"

def install (runs : Content → Bool) (fs : Fs) : Fs × List Ev :=
  deploy runs (sys (fs, []) "stop") .pkgExe .pkgCfg .pkgEbpf .pkgUnit

def deleteBackup (st : Fs × List Ev) : Fs × List Ev :=
  deleteFile (deleteFile (deleteFile (deleteFile st .bakExe) .bakCfg) .bakEbpf) .bakUnit

def restore (runs : Content → Bool) (del : Bool) (fs : Fs) : Fs × List Ev :=
  match fs .bakExe with
  | none => (fs, [])                 -- "Backup check failed, skip the restore operation."
  | some _ =>
    let st := deploy runs (sys (fs, []) "stop") .bakExe .bakCfg .bakEbpf .bakUnit
    -- the tool reaches the deletion only if deploy went through to `start`
    if st.2.getLast? = some (.systemctl "start") ∧ del then deleteBackup st else st

def uninstall (package : Bool) (fs : Fs) : Fs × List Ev :=
  let st := sys (sys (fs, []) "stop") "disable"
  let st := match st.1 .sysUnit with
    | some _ => sys (deleteFile st .sysUnit) "daemon-reload"
    | none => st
  if package then deleteFile (deleteFile (deleteFile st .sysExe) .sysCfg) .sysEbpf else st

def purge (fs : Fs) : Fs × List Ev := deleteBackup (fs, [])

inductive Cmd where
  | backup | install | restore (del : Bool) | uninstall (package : Bool) | purge
  deriving DecidableEq, Repr

def run (runs : Content → Bool) (fs : Fs) : Cmd → Fs × List Ev
  | .backup => backup fs
  | .install => install runs fs
  | .restore d => restore runs d fs
  | .uninstall p => uninstall p fs
  | .purge => purge fs

end Gpa.SetupFs
