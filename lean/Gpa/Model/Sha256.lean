/-
SHA-256 (FIPS 180-4) and HMAC (RFC 2104), executable only: nothing is proved about them. They give the
model its own opinion on a MAC, independent of the `hmac-sha256` crate the agent links
(proxy_agent/src/common/helpers.rs `compute_signature` = hex(HMAC-SHA256(hex-decode key, input))).
-/
namespace Gpa.Sha256

def kTable : Array UInt32 := #[
  0x428a2f98, 0x71374491, 0xb5c0fbcf, 0xe9b5dba5, 0x3956c25b, 0x59f111f1, 0x923f82a4, 0xab1c5ed5,
  0xd807aa98, 0x12835b01, 0x243185be, 0x550c7dc3, 0x72be5d74, 0x80deb1fe, 0x9bdc06a7, 0xc19bf174,
  0xe49b69c1, 0xefbe4786, 0x0fc19dc6, 0x240ca1cc, 0x2de92c6f, 0x4a7484aa, 0x5cb0a9dc, 0x76f988da,
  0x983e5152, 0xa831c66d, 0xb00327c8, 0xbf597fc7, 0xc6e00bf3, 0xd5a79147, 0x06ca6351, 0x14292967,
  0x27b70a85, 0x2e1b2138, 0x4d2c6dfc, 0x53380d13, 0x650a7354, 0x766a0abb, 0x81c2c92e, 0x92722c85,
  0xa2bfe8a1, 0xa81a664b, 0xc24b8b70, 0xc76c51a3, 0xd192e819, 0xd6990624, 0xf40e3585, 0x106aa070,
  0x19a4c116, 0x1e376c08, 0x2748774c, 0x34b0bcb5, 0x391c0cb3, 0x4ed8aa4a, 0x5b9cca4f, 0x682e6ff3,
  0x748f82ee, 0x78a5636f, 0x84c87814, 0x8cc70208, 0x90befffa, 0xa4506ceb, 0xbef9a3f7, 0xc67178f2]

def h0 : Array UInt32 := #[0x6a09e667, 0xbb67ae85, 0x3c6ef372, 0xa54ff53a, 0x510e527f, 0x9b05688c, 0x1f83d9ab, 0x5be0cd19]

def rotr (x : UInt32) (n : UInt32) : UInt32 := (x >>> n) ||| (x <<< (32 - n))

def be64 (n : Nat) : List UInt8 :=
  [56, 48, 40, 32, 24, 16, 8, 0].map fun s => UInt8.ofNat ((n >>> s) % 256)

/-- message ++ 0x80 ++ zeros ++ 64-bit big-endian bit length, a multiple of 64 bytes -/
def pad (msg : List UInt8) : List UInt8 :=
  let l := msg.length
  let zeros := (119 - l % 64) % 64
  msg ++ [0x80] ++ List.replicate zeros 0 ++ be64 (l * 8)

def word (b : Array UInt8) (i : Nat) : UInt32 :=
  (b[i]!.toUInt32 <<< 24) ||| (b[i+1]!.toUInt32 <<< 16) ||| (b[i+2]!.toUInt32 <<< 8) ||| b[i+3]!.toUInt32

def schedule (block : Array UInt8) : Array UInt32 := Id.run do
  let mut w : Array UInt32 := Array.mkEmpty 64
  for t in [0:16] do
    w := w.push (word block (4 * t))
  for t in [16:64] do
    let w15 := w[t-15]!
    let w2 := w[t-2]!
    let s0 := rotr w15 7 ^^^ rotr w15 18 ^^^ (w15 >>> 3)
    let s1 := rotr w2 17 ^^^ rotr w2 19 ^^^ (w2 >>> 10)
    w := w.push (w[t-16]! + s0 + w[t-7]! + s1)
  return w

def compress (h : Array UInt32) (block : Array UInt8) : Array UInt32 := Id.run do
  let w := schedule block
  let mut a := h[0]!
  let mut b := h[1]!
  let mut c := h[2]!
  let mut d := h[3]!
  let mut e := h[4]!
  let mut f := h[5]!
  let mut g := h[6]!
  let mut hh := h[7]!
  for t in [0:64] do
    let s1 := rotr e 6 ^^^ rotr e 11 ^^^ rotr e 25
    let ch := (e &&& f) ^^^ ((~~~ e) &&& g)
    let t1 := hh + s1 + ch + kTable[t]! + w[t]!
    let s0 := rotr a 2 ^^^ rotr a 13 ^^^ rotr a 22
    let maj := (a &&& b) ^^^ (a &&& c) ^^^ (b &&& c)
    let t2 := s0 + maj
    hh := g; g := f; f := e; e := d + t1; d := c; c := b; b := a; a := t1 + t2
  return #[h[0]! + a, h[1]! + b, h[2]! + c, h[3]! + d, h[4]! + e, h[5]! + f, h[6]! + g, h[7]! + hh]

def wordBytes (x : UInt32) : List UInt8 :=
  [(x >>> 24).toUInt8, (x >>> 16).toUInt8, (x >>> 8).toUInt8, x.toUInt8]

def sha256 (msg : List UInt8) : List UInt8 := Id.run do
  let p := (pad msg).toArray
  let mut h := h0
  for i in [0:p.size / 64] do
    h := compress h (p.extract (64 * i) (64 * i + 64))
  return h.toList.flatMap wordBytes

/-- RFC 2104 with block size 64 -/
def hmac (key msg : List UInt8) : List UInt8 :=
  let k0 := if key.length > 64 then sha256 key else key
  let k := k0 ++ List.replicate (64 - k0.length) 0
  sha256 (k.map (· ^^^ 0x5c) ++ sha256 (k.map (· ^^^ 0x36) ++ msg))

end Gpa.Sha256
