/-
Disk usage of logs, events and rule dumps (C19).
Source: proxy_agent_shared/src/logger/rolling_logger.rs `write_many/write_line`, `roll_if_needed`,
`archive_file`; proxy_agent_shared/src/telemetry/event_logger.rs `start` (file-count cap);
proxy_agent/src/proxy/authorization_rules.rs `AuthorizationRulesForLogging::write_all`.
Archive / dump names embed a timestamp plus the nanosecond clock, so name order = creation order;
the model keeps the files of one logger oldest first.
-/
namespace Gpa.Logs

/-- the `for f in files { remove(f); count += 1; if count > file_count { break } }` loop:
returns the files that are left -/
def removeLoop (fileCount : Nat) : Nat → List Nat → List Nat
  | _, [] => []
  | count, _ :: rest => if count + 1 > fileCount then rest else removeLoop fileCount (count + 1) rest

/-- delete the oldest files when `len >= maxCount` (before adding a new one) -/
def prune (maxCount : Nat) (files : List Nat) : List Nat :=
  if files.length ≥ maxCount then removeLoop files.length maxCount files else files

/-- one rolling log: the current file's size (if it exists) and the archived files' sizes, oldest first -/
structure Rolling where
  cur : Option Nat
  archives : List Nat
  deriving DecidableEq, Repr

structure Settings where
  maxSize : Nat
  maxCount : Nat
  deriving Repr

/-- `roll_if_needed`: make sure the current file exists; archive it when it reached the size -/
def rollIfNeeded (cfg : Settings) (s : Rolling) : Rolling :=
  let size := s.cur.getD 0
  if size ≥ cfg.maxSize then
    { cur := some 0, archives := prune cfg.maxCount (s.archives ++ [size]) }
  else { s with cur := some size }

/-- one `write_many` / `write_line` of `bytes` bytes (terminators included) -/
def write (cfg : Settings) (s : Rolling) (bytes : Nat) : Rolling :=
  let s' := rollIfNeeded cfg s
  { s' with cur := some (s'.cur.getD 0 + bytes) }

def fileCount (s : Rolling) : Nat := s.archives.length + (if s.cur.isSome then 1 else 0)

/-- event directory: number of files; a flush of a non-empty queue adds one file unless the cap is reached -/
def flushEvents (cap : Nat) (n : Nat) : Nat := if n ≥ cap then n else n + 1

/-- rule dumps, oldest first (sizes irrelevant: identified by creation index) -/
def writeDump (maxCount : Nat) (dumps : List Nat) (newId : Nat) : List Nat := prune maxCount dumps ++ [newId]

/-- every listing of the dump directory that exists at some moment during one `write_all`: the old dumps go one at a time,
oldest first, and only then the new one appears -/
def dumpTrace (maxCount : Nat) (dumps : List Nat) (newId : Nat) : List (List Nat) :=
  (List.range (dumps.length - (prune maxCount dumps).length + 1)).map (fun j => dumps.drop j) ++ [prune maxCount dumps ++ [newId]]

end Gpa.Logs
