/-
Attribution of TCP connections (C07).
Source: proxy_agent/src/proxy/proxy_connection.rs `TcpConnectionContext::{new,get_audit_entry}`
(lookup then remove of the audit entry keyed by the client's source port, at accept time),
proxy_agent/src/proxy/proxy_server.rs `handle_new_tcp_connection` (the per-connection context is
cloned into every request handler of that connection).
-/
import Gpa.Model.Pipeline
namespace Gpa.Attribution
open Gpa.Pipeline Gpa.Text

/-- what the kernel recorded for a redirected connect, as the proxy decodes it -/
structure Record where
  caller : Caller
  dest : Str × Nat
  deriving DecidableEq, Repr

/-- the audit map: source port ↦ record -/
abbrev AuditMap := List (Nat × Record)

def lookup (m : AuditMap) (p : Nat) : Option Record :=
  match m with
  | [] => none
  | (q, r) :: rest => if q = p then some r else lookup rest p

def remove (m : AuditMap) (p : Nat) : AuditMap := m.filter fun kv => kv.1 ≠ p

/-- the kernel (hash map update): one record per key -/
def record (m : AuditMap) (p : Nat) (r : Record) : AuditMap := (p, r) :: remove m p

/-- `TcpConnectionContext::new`: lookup, and on success remove -/
def accept (m : AuditMap) (p : Nat) : AuditMap × Conn :=
  match lookup m p with
  | some r => (remove m p, { caller := some r.caller, dest := some r.dest })
  | none => (m, Conn.unattributed)

inductive Op where
  | kernelRecord (port : Nat) (r : Record)
  | accept (connId : Nat) (port : Nat)
  | request (connId : Nat) (req : Req)
  | close (connId : Nat)
  /-- the host ends the upstream connection that was opened for this client connection -/
  | hostCloses (connId : Nat)
  deriving Repr

/-- a client connection has ONE upstream connection, opened when it was accepted (`TcpConnectionContext::new`,
`build_http_sender`); once the host has closed it, whatever would have been relayed is answered 502 instead and nothing is
sent (`send_request` fails with `HostConnection`); refusals are what they would have been -/
def afterHostClose (r : Result) : Result :=
  match r.outcome with
  | .forward _ => { r with outcome := .respond 502 }
  | _ => r

structure Server where
  audit : AuditMap
  /-- live connections: id ↦ immutable context -/
  conns : List (Nat × Conn)
  /-- connections whose upstream connection the host has closed -/
  hostClosed : List Nat := []
  deriving Repr

def ctxOf (s : Server) (id : Nat) : Option Conn :=
  match s.conns.find? (fun kv => kv.1 = id) with
  | some kv => some kv.2
  | none => none

/-- one event; a request event yields the pipeline result computed with that connection's context -/
def step (mac : Str → List UInt8 → Str) (env : Env) (s : Server) : Op → Server × Option Result
  | .kernelRecord p r => ({ s with audit := record s.audit p r }, none)
  | .accept id p =>
    let (m', c) := accept s.audit p
    ({ audit := m', conns := (id, c) :: s.conns.filter (fun kv => kv.1 ≠ id), hostClosed := s.hostClosed.filter (· ≠ id) }, none)
  | .request id req =>
    match ctxOf s id with
    | some c => (s, some (if s.hostClosed.contains id then afterHostClose (handle mac env c req) else handle mac env c req))
    | none => (s, none)
  | .close id => ({ s with conns := s.conns.filter (fun kv => kv.1 ≠ id), hostClosed := s.hostClosed.filter (· ≠ id) }, none)
  | .hostCloses id => ({ s with hostClosed := id :: s.hostClosed }, none)

def run (mac : Str → List UInt8 → Str) (env : Env) (s : Server) : List Op → Server × List (Option Result)
  | [] => (s, [])
  | op :: ops =>
    let (s', o) := step mac env s op
    let (s'', os) := run mac env s' ops
    (s'', o :: os)

end Gpa.Attribution
