/- hex encoding of the line protocol (bytes <-> lower-case hex) -/
namespace Gpa.Hex

def hexVal (c : Char) : Option Nat :=
  if '0' ≤ c ∧ c ≤ '9' then some (c.toNat - '0'.toNat)
  else if 'a' ≤ c ∧ c ≤ 'f' then some (c.toNat - 'a'.toNat + 10)
  else if 'A' ≤ c ∧ c ≤ 'F' then some (c.toNat - 'A'.toNat + 10)
  else none

def decodeChars : List Char → Option (List UInt8)
  | [] => some []
  | [_] => none
  | a :: b :: rest =>
    match hexVal a, hexVal b, decodeChars rest with
    | some x, some y, some r => some (UInt8.ofNat (x * 16 + y) :: r)
    | _, _, _ => none

/-- "-" encodes the empty byte string -/
def decode (s : String) : Option (List UInt8) :=
  if s = "-" then some [] else decodeChars s.toList

def hexDigit (n : Nat) : Char :=
  if n < 10 then Char.ofNat ('0'.toNat + n) else Char.ofNat ('a'.toNat + n - 10)

def encode (bs : List UInt8) : String :=
  if bs.isEmpty then "-" else
  String.ofList (bs.flatMap fun b => [hexDigit (b.toNat / 16), hexDigit (b.toNat % 16)])

def decodeString (s : String) : Option String :=
  match decode s with
  | some bs => String.fromUTF8? (ByteArray.mk bs.toArray)
  | none => none

def encodeString (s : String) : String := encode s.toUTF8.toList

end Gpa.Hex
