/-
Telemetry upload (C18).
Source: proxy_agent/src/common/helpers.rs `xml_escape`; proxy_agent/src/telemetry/telemetry_event.rs
`TelemetryEvent::{from_event_log,to_xml_event}`, `TelemetryData::{to_xml,get_size}`;
proxy_agent/src/telemetry/event_reader.rs `send_events`, `send_data_to_wire_server`,
`process_events_and_clean`.
-/
import Gpa.Model.Text
import Gpa.Generated.Facts
namespace Gpa.Telemetry
open Gpa.Text

def eAmp : Str := ['&', 'a', 'm', 'p', ';']
def eApos : Str := ['&', 'a', 'p', 'o', 's', ';']
def eQuot : Str := ['&', 'q', 'u', 'o', 't', ';']
def eLt : Str := ['&', 'l', 't', ';']
def eGt : Str := ['&', 'g', 't', ';']

/-- `s.replace(c, r)` for a single character -/
def replaceChar (c : Char) (r : Str) (s : Str) : Str := s.flatMap fun x => if x = c then r else [x]

/-- `xml_escape`: five sequential replacements, `&` first -/
def xmlEscape (s : Str) : Str :=
  replaceChar '>' eGt
    (replaceChar '<' eLt
      (replaceChar '"' eQuot
        (replaceChar '\'' eApos
          (replaceChar '&' eAmp s))))

/-- the same thing, one character at a time -/
def escChar (c : Char) : Str :=
  if c = '&' then eAmp
  else if c = '\'' then eApos
  else if c = '"' then eQuot
  else if c = '<' then eLt
  else if c = '>' then eGt
  else [c]

/-- the entries of the event store (`proxy_agent_shared::telemetry::Event`) -/
structure Event where
  level : Str
  message : Str
  version : Str
  taskName : Str
  pid : Str
  tid : Str
  operationId : Str
  timeStamp : Str
  deriving DecidableEq, Repr

/-- values that do not come from the event: VM metadata and machine facts -/
structure Ctx where
  containerId : Str
  tenantName : Str
  roleName : Str
  roleInstanceName : Str
  subscriptionId : Str
  resourceGroupName : Str
  vmId : Str
  imageOrigin : Nat
  osVersion : Str
  keywordName : Str
  ram : Nat
  processors : Nat
  deriving Repr

def digitChar (d : Nat) : Char := Char.ofNat (48 + d)

/-- decimal rendering (`format!("{}", n)`) -/
def natStr (n : Nat) : Str :=
  if h : n < 10 then [digitChar n] else natStr (n / 10) ++ [digitChar (n % 10)]
termination_by n
decreasing_by omega

/-- `s.parse::<u64>().unwrap_or(0)` -/
def parseU64 (s : Str) : Nat :=
  match (String.ofList s).toNat? with
  | some n => if n < 2 ^ 64 ∧ !s.isEmpty ∧ s.all Char.isDigit then n else 0
  | none => if s.head? = some '+' then
              match (String.ofList s.tail).toNat? with
              | some n => if n < 2 ^ 64 ∧ s.tail.all Char.isDigit ∧ !s.tail.isEmpty then n else 0
              | none => 0
            else 0

def paramStr (name : String) (v : Str) : Str :=
  ("<Param Name=\"" ++ name ++ "\" Value=\"").toList ++ xmlEscape v ++ "\" T=\"mt:wstr\" />".toList

def paramNum (name : String) (n : Nat) : Str :=
  ("<Param Name=\"" ++ name ++ "\" Value=\"").toList ++ natStr n ++ "\" T=\"mt:uint64\" />".toList

def eventOpen : Str := "<Event id=\"7\"><![CDATA[".toList
def eventClose : Str := "]]></Event>".toList

/-- the parameters of one event, in source order: (name, value or number) -/
def params (c : Ctx) (e : Event) : List Str :=
  [ paramStr "OpcodeName" e.timeStamp, paramStr "KeywordName" c.keywordName, paramStr "TaskName" e.taskName,
    paramStr "TenantName" c.tenantName, paramStr "RoleName" c.roleName, paramStr "RoleInstanceName" c.roleInstanceName,
    paramStr "ContainerId" c.containerId, paramStr "ResourceGroupName" c.resourceGroupName,
    paramStr "SubscriptionId" c.subscriptionId, paramStr "VMId" c.vmId,
    paramNum "EventPid" (parseU64 e.pid), paramNum "EventTid" (parseU64 e.tid), paramNum "ImageOrigin" c.imageOrigin,
    paramStr "ExecutionMode" "ProxyAgent".toList, paramStr "OSVersion" c.osVersion, paramStr "GAVersion" e.version,
    paramNum "RAM" c.ram, paramNum "Processors" c.processors,
    paramStr "EventName" "MicrosoftAzureGuestProxyAgent".toList, paramStr "CapabilityUsed" e.level,
    paramStr "Context1" e.message, paramStr "Context2" e.timeStamp, paramStr "Context3" e.operationId ]

/-- `to_xml_event` -/
def eventXml (c : Ctx) (e : Event) : Str := eventOpen ++ (params c e).flatten ++ eventClose

def docOpen : Str :=
  "<?xml version=\"1.0\"?><TelemetryData version=\"1.0\"><Provider id=\"FFF0196F-EE4C-4EAF-9AA5-776F622DEB4F\">".toList
def docClose : Str := "</Provider></TelemetryData>".toList

/-- `TelemetryData::to_xml` -/
def toXml (c : Ctx) (evs : List Event) : Str := docOpen ++ evs.flatMap (eventXml c) ++ docClose

/-- `get_size`: bytes of the document -/
def size (c : Ctx) (evs : List Event) : Nat := (utf8 (toXml c evs)).length

def maxMessageSize : Nat := Gpa.Facts.telemetryMaxMessageSize

/-- inner loop of `send_events`: keep adding while the document stays below the cap; the event that
made it reach the cap is put back. `pending` is in pop order (the code pops from the end). -/
def fill (c : Ctx) (cur : List Event) : List Event → List Event × List Event
  | [] => (cur, [])
  | e :: rest =>
    if size c (cur ++ [e]) ≥ maxMessageSize then (cur, e :: rest)
    else fill c (cur ++ [e]) rest

structure Sent where
  batches : List (List Event)
  dropped : List Event
  deriving Repr

theorem fill_rest_le (c : Ctx) (cur pending : List Event) : (fill c cur pending).2.length ≤ pending.length := by
  induction pending generalizing cur with
  | nil => simp [fill]
  | cons e rest ih =>
    simp only [fill]
    split
    · simp
    · have := ih (cur ++ [e]); simp only [List.length_cons]; omega

/-- outer loop of `send_events` over the events in pop order -/
def sendEvents (c : Ctx) (pending : List Event) : Sent :=
  match pending with
  | [] => { batches := [], dropped := [] }
  | e :: rest =>
    if size c [e] ≥ maxMessageSize then
      -- an event too large for any batch is logged and dropped; the loop goes on
      let r := sendEvents c rest
      { r with dropped := e :: r.dropped }
    else
      have : (fill c [e] rest).2.length < (e :: rest).length := by
        have := fill_rest_le c [e] rest
        simp only [List.length_cons]; omega
      let r := sendEvents c (fill c [e] rest).2
      { r with batches := (fill c [e] rest).1 :: r.batches }
termination_by pending.length

/-- one file of the event store: `events.pop()` takes from the end -/
def sendFile (c : Ctx) (events : List Event) : Sent := sendEvents c events.reverse

/-- `send_data_to_wire_server`: up to `maxAttempts` tries, stop at the first success.
`plan` = outcome of successive upload attempts; returns (attempts made, delivered?) -/
def maxAttempts : Nat := 5

def upload : Nat → List Bool → Nat × Bool
  | 0, _ => (0, false)
  | _ + 1, [] => (1, false)        -- no more scripted answers: treat as failure once
  | n + 1, ok :: rest => if ok then (1, true) else let r := upload n rest; (r.1 + 1, r.2)

/-- decode the five entity references (inverse of `xml_escape`) -/
def unescape : Str → Str
  | '&' :: 'a' :: 'm' :: 'p' :: ';' :: rest => '&' :: unescape rest
  | '&' :: 'a' :: 'p' :: 'o' :: 's' :: ';' :: rest => '\'' :: unescape rest
  | '&' :: 'q' :: 'u' :: 'o' :: 't' :: ';' :: rest => '"' :: unescape rest
  | '&' :: 'l' :: 't' :: ';' :: rest => '<' :: unescape rest
  | '&' :: 'g' :: 't' :: ';' :: rest => '>' :: unescape rest
  | c :: rest => c :: unescape rest
  | [] => []

/-- the event store directory: `process_events_and_clean` removes every file it was given,
readable or not -/
def processFiles (dir : List String) (files : List String) : List String :=
  dir.filter fun f => !files.contains f

end Gpa.Telemetry
