import Gpa.Generated.Facts
import Gpa.Model.Health
import Gpa.Props.C20
