/-
Line-protocol driver: one operation per input line, one canonical output line per input line.
`<engine> <op> <args…>`; strings/bytes are hex. Import-free models only, so this links natively.
-/
import Gpa.Generated.Facts
import Gpa.Model.Hex
import Gpa.Model.Health
import Gpa.Model.RbacWire
import Gpa.Model.PipelineWire
import Gpa.Model.Attribution
import Gpa.Model.Truncate
import Gpa.Model.Telemetry
import Gpa.Model.Logs
import Gpa.Model.Ebpf
import Gpa.Model.Attach
import Gpa.Model.Provision
import Gpa.Model.TagInodes
import Gpa.Model.SetupFs
import Gpa.Model.KeyKeeper
import Gpa.Model.Secrets
import Gpa.Model.Sha256

open Gpa

structure DState where
  health : Health.StatusState :=
    Health.StatusState.new Facts.healthErrorThreshold Facts.healthMaxConsecutive
  svc : Health.ServiceState := []
  attr : Attribution.Server := { audit := [], conns := [] }
  roll : Logs.Rolling := { cur := none, archives := [] }
  ebpf : Ebpf.State := { policy := [], skip := [], localMap := [], audit := [] }
  prov : Provision.Global := Provision.Global.init
  kkAgent : KeyKeeper.Agent := KeyKeeper.Agent.init
  kkFs : KeyKeeper.KeyDir := { final := [], tmp := [] }
  rollCfg : Logs.Settings := { maxSize := 1, maxCount := 1 }
  sec : Secrets.St := Secrets.St.init

/-- the bounded maps as the C source declares them (kind and capacity from the generated facts) -/
def driverCaps : Ebpf.Caps :=
  { localKind := if Facts.localMapType = "BPF_MAP_TYPE_LRU_HASH" then .lru else .hash, localCap := Facts.localMapMaxEntries,
    auditKind := if Facts.auditMapType = "BPF_MAP_TYPE_LRU_HASH" then .lru else .hash, auditCap := Facts.auditMapMaxEntries }

def showRoll (r : Logs.Rolling) : String :=
  let c := match r.cur with | some v => toString v | none => "-"
  let a := if r.archives.isEmpty then "-" else ",".intercalate (r.archives.map toString)
  s!"cur={c} a={a}"

def natsOf (ts : List String) : Option (List Nat) := ts.mapM String.toNat?

def lexLt : List Nat → List Nat → Bool
  | [], [] => false
  | [], _ => true
  | _, [] => false
  | a :: as, b :: bs => if a < b then true else if b < a then false else lexLt as bs

def showEbpf (s : Ebpf.State) : String :=
  let au := Text.sortBy (fun a b => lexLt a.1 b.1)
    (s.audit.map fun kv => ([kv.1.1, kv.1.2], [kv.2.logonId, kv.2.processId, kv.2.isRoot, kv.2.destIp, kv.2.destPort]))
  let lo := Text.sortBy (fun a b => lexLt a.1 b.1)
    (s.localMap.map fun kv => ([kv.1 % 4294967296, kv.1 / 4294967296],
      [kv.2.logonId, kv.2.processId, kv.2.isRoot, kv.2.destIp, kv.2.destPort, kv.2.protocol]))
  let f := fun (kv : List Nat × List Nat) => " [" ++ ",".intercalate (kv.1.map toString) ++ "->" ++ ",".intercalate (kv.2.map toString) ++ "]"
  "audit" ++ String.join (au.map f) ++ " | local" ++ String.join (lo.map f)

def showFlags (f : Provision.Flags) : String :=
  (if f.redirector then "r" else "") ++ (if f.keyLatch then "k" else "") ++ (if f.listener then "l" else "") ++ "."

def showProv (g : Provision.Global) : String :=
  let ans := g.tasks.filterMap fun t => match t.kind, t.answer with
    | .query q _, some a => some s!"q{q}:{if a.finished then 1 else 0}:{showFlags a.notReady}"
    | _, _ => none
  s!"flags={showFlags g.actor.flags} fin={if g.actor.fin != 0 then 1 else 0} clock={g.clock} answers={",".intercalate ans}"

def parseFlag (s : String) : Option Provision.Flags :=
  match s with
  | "r" => some Provision.fRedirector
  | "k" => some Provision.fKeyLatch
  | "l" => some Provision.fListener
  | _ => none

def setupPaths : List SetupFs.Path :=
  [.sysExe, .sysCfg, .sysEbpf, .sysUnit, .pkgExe, .pkgCfg, .pkgEbpf, .pkgUnit, .bakExe, .bakCfg, .bakEbpf, .bakUnit]

def setupFsOf (vals : List (Option Nat)) : SetupFs.Fs := fun p =>
  match setupPaths.idxOf? p with
  | some i => (vals[i]?).join
  | none => none

def showEv : SetupFs.Ev → String
  | .systemctl w => "sys:" ++ w
  | .write p => "w:" ++ toString (setupPaths.idxOf p)
  | .delete p => "d:" ++ toString (setupPaths.idxOf p)

def pRuleItem : Tok.P KeyKeeper.RuleItem := do
  let id ← Tok.str; let mode ← Tok.str; let c ← Tok.nat
  pure { id, mode, content := c }

def pOptBool : Tok.P (Option Bool) := do
  match (← Tok.next) with
  | "N" => pure none
  | "1" => pure (some true)
  | "0" => pure (some false)
  | _ => failure

def pDoc : Tok.P KeyKeeper.Doc := do
  let version ← Tok.str
  let scs ← Tok.opt Tok.str
  let sce ← pOptBool
  let kg ← Tok.opt Tok.str
  let hasRules ← Pipeline.pBool
  let ws ← Tok.opt pRuleItem; let imds ← Tok.opt pRuleItem; let hostga ← Tok.opt pRuleItem
  pure { schemeOk := true, version, secureChannelState := scs, secureChannelEnabled := sce, keyGuid := kg, ws, imds, hostga, hasRules }

def pAnswers : Tok.P KeyKeeper.Answers := do
  let status ← (do match (← Tok.next) with
    | "F" => pure KeyKeeper.StatusAnswer.failed
    | "D" => do let d ← pDoc; pure (KeyKeeper.StatusAnswer.doc d)
    | _ => failure)
  let acquire ← Tok.opt (do let g ← Tok.str; let k ← Tok.str; pure ({ guid := g, key := k } : KeyKeeper.Key))
  let storeOk ← Pipeline.pBool
  let attestOk ← Pipeline.pBool
  pure { status, acquire, storeOk, attestOk }

def showRule (r : Option KeyKeeper.RuleItem) : String :=
  match r with
  | none => "none"
  | some i => s!"{Pipeline.hexStr i.id};{Pipeline.hexStr i.mode};{i.content}"

def showOut : KeyKeeper.Out → String
  | .policy e r => s!"{e}:{if r then 1 else 0}"
  | .acquired g => "acq:" ++ Pipeline.hexStr g
  | .attested g => "att:" ++ Pipeline.hexStr g

def showAgent (a : KeyKeeper.Agent) : String :=
  let kg := match a.key with | some k => Pipeline.hexStr k.guid | none => "-"
  let kv := match a.key with | some k => Pipeline.hexStr k.key | none => "-"
  s!"ids={Pipeline.hexStr a.wsId},{Pipeline.hexStr a.imdsId},{Pipeline.hexStr a.hostgaId} key={kg},{kv} chan={Pipeline.hexStr a.chan} ws={showRule a.wsRules} imds={showRule a.imdsRules} hostga={showRule a.hostgaRules}"

def showPieces (t : Secrets.Text) : String :=
  let fl := t.filterMap fun p => match p with
    | .guid k => some s!"g{k}" | .secret k => some s!"s{k}" | .mac k => some s!"m{k}" | .lit _ => none
  if fl.isEmpty then "-" else "+".intercalate fl.eraseDups

def showSink : Secrets.Sink → String
  | .agentLog => "agentLog" | .connLog => "connLog" | .console => "console" | .serial => "serial" | .event => "event"
  | .statusMsg => "statusMsg" | .statusJson => "statusJson" | .statusTag => "statusTag" | .clientResp => "clientResp"
  | .rulesDump => "rulesDump" | .upstreamAuth => "upstreamAuth" | .hostReq => "hostReq" | .keyFile => "keyFile"

def showSec (r : Secrets.St × List Secrets.Emit × List Secrets.FsOp) : String :=
  let es := r.2.1.map fun e => s!"{showSink e.sink}:{e.tid}:{showPieces e.text}"
  let fs := r.2.2.map fun o => match o with
    | .mkdirKeyDir => "mkdir" | .chownKeyDir => "chown" | .chmodKeyDir m => s!"chmod{m}" | .createKeyFile k => s!"create{k}"
  let cur := match r.1.cur with | some k => toString k.id | none => "-"
  let files := ",".intercalate (r.1.files.map fun k => toString k.id)
  s!"cur={cur} files={if files.isEmpty then "-" else files} emits={if es.isEmpty then "-" else ",".intercalate es} fs={if fs.isEmpty then "-" else ",".intercalate fs}"

def secStatus : List String → Option (Secrets.StatusIn × List String)
  | "F" :: n :: rest => some (.failed [.lit s!"status error {n}"], rest)
  | "K" :: g :: state :: rules :: rest =>
      let guid : Option (Option Nat) := if g = "N" then some none else g.toNat?.map some
      match guid, Hex.decodeString state with
      | some guid, some state =>
        let desc : Secrets.Text := [.lit s!"state {state} keyGuid: "] ++ (match guid with | some k => [.guid k] | none => [.lit "None"])
        some (.ok desc guid state (if rules = "1" then some [.lit "rules"] else none), rest)
      | _, _ => none
  | _ => none

def secAcquire : List String → Option (Secrets.AcquireIn × List String)
  | "S" :: rest => some (.sendFail, rest)
  | "H" :: c :: rest => c.toNat?.map fun c => (.http c, rest)
  | "M" :: k :: rest =>
      if k = "-" then some (.malformed [.lit "body"], rest)
      else k.toNat?.map fun k => (.malformed [.lit "{\"key\": \"", .secret k, .lit "\"}"], rest)
  | "K" :: k :: h :: rest => k.toNat?.map fun k => (.key { id := k, hexOk := h = "1" }, rest)
  | _ => none

def secAttest : List String → Option Secrets.AttestIn
  | ["O"] => some .ok
  | ["H", c] => c.toNat?.map .http
  | ["S"] => some .sendFail
  | _ => none

def secOp (toks : List String) : Option Secrets.Op :=
  match toks with
  | ["start"] => some .start
  | ["restart"] => some .restart
  | ["request"] => some .request
  | ["provq"] => some .provisionQuery
  | ["tick"] => some .statusTick
  | ["timeup"] => some .timeup
  | "poll" :: rest =>
      match secStatus rest with
      | some (s, rest) =>
        match secAcquire rest with
        | some (a, so :: rest) =>
          match secAttest rest with
          | some att => some (.poll { status := s, acquire := a, storeOk := so = "1", attest := att })
          | none => none
        | _ => none
      | none => none
  | _ => none

def stepLine (st : DState) (line : String) : DState × String :=
  match line.trimAscii.toString.splitOn " " with
  | ["health", "new"] => ({ st with health := ({} : DState).health }, "ok")
  | ["health", "obs", b] =>
      match b with
      | "1" => let h := st.health.update true; ({ st with health := h }, h.cur.toString)
      | "0" => let h := st.health.update false; ({ st with health := h }, h.cur.toString)
      | _ => (st, "bad-op")
  | ["svc", "new"] => ({ st with svc := [] }, "ok")
  | ["svc", "note", k, v] =>
      match Hex.decodeString k, Hex.decodeString v with
      | some k, some v =>
          let r := Health.ServiceState.note st.svc k v Facts.stateNoteMax
          ({ st with svc := r.1 }, if r.2 then "true" else "false")
      | _, _ => (st, "bad-op")
  | "rbac" :: toks =>
      match Tok.run (do let it ← Rbac.pItem; let u ← Rbac.pUri; let c ← Rbac.pClaims; pure (it, u, c)) toks with
      | some (it, u, c) =>
          let d := fun (b : Bool) => if b then "allow" else "deny"
          (st, s!"{d (Rbac.isAllowed (Rbac.compute it) u c)} {d (Rbac.specAllowed it u c)} {if Rbac.distinctNames it then 1 else 0}")
      | none => (st, "bad-op")
  | "pipe" :: toks =>
      match Tok.run (do let e ← Pipeline.pEnv; let c ← Pipeline.pConn; let r ← Pipeline.pReq; pure (e, c, r)) toks with
      | some (e, c, r) =>
          (st, s!"S{if Pipeline.specMayRelay e c r then 1 else 0} " ++ Pipeline.showResult (Pipeline.handle Pipeline.macPlaceholder e c r))
      | none => (st, "bad-op")
  | "pipec" :: toks =>
      -- the same request on a client connection whose upstream connection the host has closed
      match Tok.run (do let e ← Pipeline.pEnv; let c ← Pipeline.pConn; let r ← Pipeline.pReq; pure (e, c, r)) toks with
      | some (e, c, r) =>
          (st, s!"S{if Pipeline.specMayRelay e c r then 1 else 0} " ++
            Pipeline.showResult (Attribution.afterHostClose (Pipeline.handle Pipeline.macPlaceholder e c r)))
      | none => (st, "bad-op")
  | ["attr", "new"] => ({ st with attr := { audit := [], conns := [] } }, "ok")
  | ["attr", "record", p, e, ip, port] =>
      match p.toNat?, port.toNat?, Hex.decodeString ip with
      | some p, some port, some ip =>
          let rec_ : Attribution.Record := { caller := { claims := ⟨[], [], [], []⟩, elevated := e == "1" }, dest := (ip.toList, port) }
          let (s', _) := Attribution.step Pipeline.macPlaceholder ⟨.ok none, .ok none, .ok none, none, []⟩ st.attr (.kernelRecord p rec_)
          ({ st with attr := s' }, "ok")
      | _, _, _ => (st, "bad-op")
  | ["attr", "accept", id, p] =>
      match id.toNat?, p.toNat? with
      | some id, some p =>
          let (s', _) := Attribution.step Pipeline.macPlaceholder ⟨.ok none, .ok none, .ok none, none, []⟩ st.attr (.accept id p)
          let ctx := match Attribution.ctxOf s' id with
            | some { caller := some c, dest := some (ip, port) } => s!"A {if c.elevated then 1 else 0} {String.ofList ip} {port}"
            | _ => "U"
          ({ st with attr := s' }, ctx)
      | _, _ => (st, "bad-op")
  | ["attr", "ctx", id] =>
      match id.toNat? with
      | some id =>
          (st, match Attribution.ctxOf st.attr id with
            | some { caller := some c, dest := some (ip, port) } => s!"A {if c.elevated then 1 else 0} {String.ofList ip} {port}"
            | some _ => "U"
            | none => "closed")
      | none => (st, "bad-op")
  | ["attr", "close", id] =>
      match id.toNat? with
      | some id =>
          let (s', _) := Attribution.step Pipeline.macPlaceholder ⟨.ok none, .ok none, .ok none, none, []⟩ st.attr (.close id)
          ({ st with attr := s' }, "ok")
      | none => (st, "bad-op")
  | ["attr", "ports"] =>
      let ps := Text.sortBy (fun a b => decide (a < b)) (st.attr.audit.map (·.1))
      (st, if ps.isEmpty then "-" else ",".intercalate (ps.map toString))
  | ["trunc", "event", m] =>
      match Hex.decodeString m with
      | some t => (st, Hex.encode (Text.utf8 (Truncate.eventMessage t.toList)))
      | none => (st, "bad-op")
  | ["trunc", "status", m] =>
      match Hex.decodeString m with
      | some t => (st, Hex.encode (Text.utf8 (Truncate.statusMessage t.toList)))
      | none => (st, "bad-op")
  | ["trunc", "take", n, m] =>
      match n.toNat?, Hex.decodeString m with
      | some n, some t => (st, Hex.encode (Text.utf8 (Truncate.truncateTo n t.toList)))
      | _, _ => (st, "bad-op")
  | ["trunc", "utf16", b] =>
      match Hex.decode b with
      | some bs => (st, " ".intercalate ((Truncate.utf16Units bs).map toString))
      | none => (st, "bad-op")
  | ["xmlesc", t] =>
      match (if t = "-" then some "" else Hex.decodeString t) with
      | some str => (st, Hex.encode (Text.utf8 (Telemetry.xmlEscape str.toList)))
      | none => (st, "bad-op")
  | "telem" :: toks =>
      match Tok.run (do
          let cid ← Tok.str; let tn ← Tok.str; let rn ← Tok.str; let rin ← Tok.str; let sub ← Tok.str
          let rg ← Tok.str; let vm ← Tok.str; let io ← Tok.nat; let os ← Tok.str; let kw ← Tok.str
          let ram ← Tok.nat; let cpu ← Tok.nat
          let evs ← Tok.list (do
            let level ← Tok.str; let message ← Tok.str; let version ← Tok.str; let taskName ← Tok.str
            let pid ← Tok.str; let tid ← Tok.str; let operationId ← Tok.str; let timeStamp ← Tok.str
            pure ({ level, message, version, taskName, pid, tid, operationId, timeStamp } : Telemetry.Event))
          pure (({ containerId := cid, tenantName := tn, roleName := rn, roleInstanceName := rin, subscriptionId := sub,
                   resourceGroupName := rg, vmId := vm, imageOrigin := io, osVersion := os, keywordName := kw,
                   ram := ram, processors := cpu } : Telemetry.Ctx), evs)) toks with
      | some (c, evs) =>
          let r := Telemetry.sendFile c evs
          let bs := r.batches.map fun b => Hex.encode (Text.utf8 (Telemetry.toXml c b))
          (st, s!"{r.batches.length} {" ".intercalate bs} D {r.dropped.length}")
      | none => (st, "bad-op")
  | "logs" :: "new" :: ms :: mc :: cur :: archs =>
      match ms.toNat?, mc.toNat? with
      | some ms, some mc =>
          let r : Logs.Rolling := { cur := cur.toNat?, archives := archs.filterMap String.toNat? }
          ({ st with roll := r, rollCfg := { maxSize := ms, maxCount := mc } }, showRoll r)
      | _, _ => (st, "bad-op")
  | ["logs", "write", b] =>
      match b.toNat? with
      | some b => let r := Logs.write st.rollCfg st.roll b; ({ st with roll := r }, showRoll r)
      | none => (st, "bad-op")
  | ["logs", "ev", cap, n] =>
      match cap.toNat?, n.toNat? with
      | some cap, some n => (st, toString (Logs.flushEvents cap n))
      | _, _ => (st, "bad-op")
  | ["logs", "dumptrace", mx, n] =>
      -- the number of dumps in the directory at every moment of one write_all that finds n dumps there
      match mx.toNat?, n.toNat? with
      | some mx, some n => (st, ",".intercalate ((Logs.dumpTrace mx (List.range n) n).map fun l => toString l.length))
      | _, _ => (st, "bad-op")
  | "logs" :: "dump" :: mx :: newId :: ids =>
      match mx.toNat?, newId.toNat? with
      | some mx, some nid =>
          let r := Logs.writeDump mx (ids.filterMap String.toNat?) nid
          (st, if r.isEmpty then "-" else ",".intercalate (r.map toString))
      | _, _ => (st, "bad-op")
  | ["ebpf", "new"] => ({ st with ebpf := { policy := [], skip := [], localMap := [], audit := [] } }, "ok")
  | "ebpf" :: "policy" :: ws =>
      match natsOf ws with
      | some l => if l.length = 12 then
            ({ st with ebpf := { st.ebpf with policy := Ebpf.update st.ebpf.policy (l.take 6) (l.drop 6) } }, "ok 0")
          else (st, "bad-op")
      | none => (st, "bad-op")
  | "ebpf" :: "unpolicy" :: ws =>
      match natsOf ws with
      | some l =>
          let r := if (Ebpf.lookup st.ebpf.policy l).isSome then "ok 0" else "ok -2"
          ({ st with ebpf := { st.ebpf with policy := Ebpf.delete st.ebpf.policy l } }, r)
      | none => (st, "bad-op")
  | ["ebpf", "skip", p] =>
      match p.toNat? with
      | some p => ({ st with ebpf := { st.ebpf with skip := p :: st.ebpf.skip } }, "ok 0")
      | none => (st, "bad-op")
  | "ebpf" :: "c4" :: ws =>
      match natsOf ws with
      | some [pt, ug, ip, port, proto] =>
          let r := Ebpf.connect4B driverCaps st.ebpf ⟨pt, ug⟩ ip port proto
          ({ st with ebpf := r.1 }, s!"c4 1 {r.2.1} {r.2.2}")
      | _ => (st, "bad-op")
  | "ebpf" :: "tc" :: ws =>
      match natsOf ws with
      | some [pt, ug, fam, daddr, dport, lport] =>
          ({ st with ebpf := Ebpf.tcpConnectB driverCaps st.ebpf ⟨pt, ug⟩ fam daddr dport lport }, "tc 0")
      | _ => (st, "bad-op")
  | ["ebpf", "rmaudit", a, b] =>
      match a.toNat?, b.toNat? with
      | some a, some b =>
          let r := if (Ebpf.lookup st.ebpf.audit (a, b)).isSome then "ok 0" else "ok -2"
          ({ st with ebpf := { st.ebpf with audit := Ebpf.delete st.ebpf.audit (a, b) } }, r)
      | _, _ => (st, "bad-op")
  | ["ebpf", "dump"] => (st, showEbpf st.ebpf)
  | ["ebpf", "pdump"] =>
      -- the policy and the agent's process list, in the format the kernel-map dump of the harness uses
      let pol := Text.sortBy (fun a b => lexLt a.1 b.1) st.ebpf.policy
      let sk := Text.sortBy (fun a b => decide (a < b)) st.ebpf.skip.eraseDups
      let f := fun (kv : List Nat × List Nat) => " [" ++ ",".intercalate (kv.1.map toString) ++ "->" ++ ",".intercalate (kv.2.map toString) ++ "]"
      (st, "policy_map" ++ String.join (pol.map f) ++ " | skip_process_map" ++ String.join (sk.map fun p => s!" [{p}->{p}]"))
  | ["ebpf", "ldump"] =>
      let lo := Text.sortBy (fun a b => lexLt a.1 b.1)
        (st.ebpf.localMap.map fun kv => ([kv.1 % 4294967296, kv.1 / 4294967296],
          [kv.2.logonId, kv.2.processId, kv.2.isRoot, kv.2.destIp, kv.2.destPort, kv.2.protocol]))
      let f := fun (kv : List Nat × List Nat) => " [" ++ ",".intercalate (kv.1.map toString) ++ "->" ++ ",".intercalate (kv.2.map toString) ++ "]"
      (st, "local_map" ++ String.join (lo.map f))
  | ["ebpf", "enc", "policy", ip, port] =>
      match ip.toNat?, port.toNat? with
      | some ip, some port => (st, " ".intercalate ((Ebpf.rustPolicyEntry ip port).map toString))
      | _, _ => (st, "bad-op")
  | ["ebpf", "enc", "auditkey", port] =>
      match port.toNat? with
      | some port => (st, s!"{(Ebpf.rustAuditKey port).1} {(Ebpf.rustAuditKey port).2}")
      | none => (st, "bad-op")
  | "ebpf" :: "dec" :: ws =>
      match natsOf ws with
      | some [a, b, c, d, e] =>
          let r := Ebpf.rustDecode ⟨a, b, c, d, e⟩
          (st, s!"{r.1} {r.2.1} {r.2.2.1} {".".intercalate (r.2.2.2.1.map toString)} {r.2.2.2.2}")
      | _ => (st, "bad-op")
  | ["ebpf", "ipsegs", n] =>
      match n.toNat? with
      | some n => (st, ".".intercalate ((Ebpf.ipToSegs n).map toString) ++ s!" {Ebpf.segsToIp (Ebpf.ipToSegs n)}")
      | none => (st, "bad-op")
  | ["attach", "failed"] => (st, "err")
  | "attach" :: "listed" :: ts =>
      match ts.mapM Hex.decodeString with
      | some targets =>
          (st, match Attach.mountPath (.listed (targets.map fun t => ⟨t, []⟩)) with
            | some m => "ok " ++ Hex.encode (Text.utf8 m.target.toList)
            | none => "err")
      | none => (st, "bad-op")
  | ["rulechange", cur, new] =>
      -- the messages of one endpoint's rule change: current id, id of the new item ("-" = no item)
      match Hex.decodeString cur, (if new == "-" then some none else (Hex.decodeString new).map some) with
      | some c, some n =>
          let item : Option KeyKeeper.RuleItem := n.map fun i => ⟨i.toList, KeyKeeper.sEnforce, 0⟩
          let msgs := (KeyKeeper.changeProgram ⟨c.toList, none⟩ item).map fun
            | .setId _ => "setId"
            | .setRules _ => "setRules"
          (st, if msgs.isEmpty then "-" else ",".intercalate msgs)
      | _, _ => (st, "bad-op")
  | "taginodes" :: ts =>
      -- o<w> = open the temp file, w<w>:<hex> = write through the handle, r = rename; answer: safe flag, publications oldest first, tag
      let parse (t : String) : Option TagInodes.Op :=
        match t.toList with
        | ['r'] => some .rename
        | 'o' :: w => (String.ofList w).toNat?.map .openTmp
        | 'w' :: rest =>
            match (String.ofList rest).splitOn ":" with
            | [w, h] => match w.toNat?, Hex.decode h with
              | some w, some b => some (.write w b)
              | _, _ => none
            | _ => none
        | _ => none
      match ts.mapM parse with
      | some ops =>
          let s := TagInodes.run TagInodes.St.init ops
          let pubs := s.frozen.reverse.map fun p => s!"{p.1}:{Hex.encode p.2}"
          (st, s!"safe={if decide (TagInodes.Safe s) then 1 else 0} pubs={",".intercalate pubs} tag=" ++
            (match s.tagContent with | some c => "x" ++ Hex.encode c | none => "-"))
      | none => (st, "bad-op")
  | ["prov", "new"] => ({ st with prov := Provision.Global.init }, showProv Provision.Global.init)
  | ["prov", "spawn", "ready", f] =>
      match parseFlag f with
      | some f => let g := Provision.spawnTask st.prov (.ready f); ({ st with prov := g }, toString (g.tasks.length - 1))
      | none => (st, "bad-op")
  | ["prov", "spawn", "reset"] => let g := Provision.spawnTask st.prov .reset; ({ st with prov := g }, toString (g.tasks.length - 1))
  | ["prov", "spawn", "timeup"] => let g := Provision.spawnTask st.prov .timeup; ({ st with prov := g }, toString (g.tasks.length - 1))
  | ["prov", "spawn", "query", q, l] =>
      match q.toInt? with
      | some q => let g := Provision.spawnTask st.prov (.query q (l == "1")); ({ st with prov := g }, toString (g.tasks.length - 1))
      | none => (st, "bad-op")
  | ["prov", "spawn", "querynow", l] =>
      let g := Provision.spawnTask st.prov (.query st.prov.clock (l == "1")); ({ st with prov := g }, toString (g.tasks.length - 1))
  | ["prov", "run", i] =>
      match i.toNat? with
      | some i => let g := Provision.runIdx st.prov i; ({ st with prov := g }, showProv g)
      | none => (st, "bad-op")
  | ["prov", "show"] => (st, showProv st.prov)
  | "setup" :: cmd :: vals =>
      let c : Option SetupFs.Cmd := match cmd with
        | "backup" => some .backup | "install" => some .install | "restore1" => some (.restore true) | "restore0" => some (.restore false)
        | "uninstall_service" => some (.uninstall false) | "uninstall_package" => some (.uninstall true) | "purge" => some .purge
        | _ => none
      match c with
      | some c =>
          let fs := setupFsOf (vals.map String.toNat?)
          let r := SetupFs.run (fun x => x < 1000) fs c
          let out := setupPaths.map fun p => match r.1 p with | some v => toString v | none => "-"
          (st, " ".intercalate out ++ " | " ++ ",".intercalate (r.2.map showEv))
      | none => (st, "bad-op")
  | ["hmac", k, m] =>
      -- compute_signature: the key is itself a hex string; `bad-key` when it is not
      match Hex.decode k, (if m = "-" then some [] else Hex.decode m) with
      | some keyText, some msg =>
          match Hex.decodeChars (keyText.map fun b => Char.ofNat b.toNat) with
          | some key => (st, Hex.encode (Sha256.hmac key msg))
          | none => (st, "bad-key")
      | _, _ => (st, "bad-op")
  | ["sha256", m] =>
      match (if m = "-" then some [] else Hex.decode m) with
      | some msg => (st, Hex.encode (Sha256.sha256 msg))
      | none => (st, "bad-op")
  | ["sec", "new"] => ({ st with sec := Secrets.St.init }, s!"ok variant={if Secrets.codeVariant.withholdHexKey then 1 else 0}{if Secrets.codeVariant.withholdBody then 1 else 0}")
  | "sec" :: toks =>
      match secOp toks with
      | some op =>
          let r := Secrets.step Secrets.codeVariant st.sec op
          ({ st with sec := r.1 }, showSec r)
      | none => (st, "bad-op")
  | ["kk", "new"] => ({ st with kkAgent := KeyKeeper.Agent.init, kkFs := { final := [], tmp := [] } }, "ok")
  | ["kk", "file", g, "remove"] =>
      match Hex.decodeString g with
      | some g => ({ st with kkFs := { st.kkFs with final := KeyKeeper.delF st.kkFs.final g.toList } }, "ok")
      | none => (st, "bad-op")
  | ["kk", "file", g, "garbage"] =>
      match Hex.decodeString g with
      | some g => ({ st with kkFs := { st.kkFs with final := KeyKeeper.setF st.kkFs.final g.toList .garbage } }, "ok")
      | none => (st, "bad-op")
  | ["kk", "file", g, "complete", g2, k] =>
      match Hex.decodeString g, Hex.decodeString g2, Hex.decodeString k with
      | some g, some g2, some k =>
          ({ st with kkFs := { st.kkFs with final := KeyKeeper.setF st.kkFs.final g.toList (.complete { guid := g2.toList, key := k.toList }) } }, "ok")
      | _, _, _ => (st, "bad-op")
  | ["kk", "chan", c] =>
      match Hex.decodeString c with
      | some c => ({ st with kkAgent := { st.kkAgent with chan := c.toList } }, "ok")
      | none => (st, "bad-op")
  | "kk" :: "docspec" :: toks =>
      -- what a valid document demands, from the document alone (the right-hand sides of the C09 convergence theorems)
      match Tok.run pDoc toks with
      | some d =>
          let b := fun (x : Bool) => if x then "1" else "0"
          (st, s!"valid={b d.valid} state={Pipeline.hexStr d.state} policy=wireserver:{b (d.wsMode ≠ KeyKeeper.sDisabled)},imds:{b (d.imdsMode ≠ KeyKeeper.sDisabled)},hostga:{b (d.hostgaMode ≠ KeyKeeper.sDisabled)} ws={showRule (KeyKeeper.itemOf d d.ws)} imds={showRule (KeyKeeper.itemOf d d.imds)} hostga={showRule (KeyKeeper.itemOf d d.hostga)} guid={match d.keyGuid with | some g => Pipeline.hexStr g | none => "-"}")
      | none => (st, "bad-op")
  | "kk" :: "poll" :: toks =>
      match Tok.run pAnswers toks with
      | some ans =>
          let r := KeyKeeper.poll st.kkAgent st.kkFs ans
          let files := Text.sortBy (fun a b => Text.strLt a b) (r.2.1.final.filterMap fun kv => match kv.2 with
            | .complete _ => some kv.1 | _ => none)
          ({ st with kkAgent := r.1, kkFs := r.2.1 },
            showAgent r.1 ++ s!" done={if r.2.2.2 then 1 else 0} outs={",".intercalate (r.2.2.1.map showOut)} files={",".intercalate (files.map Pipeline.hexStr)}")
      | none => (st, "bad-op")
  | "authz" :: toks =>
      match Tok.run (do let ip ← Tok.str; let port ← Tok.nat; let e ← Pipeline.pBool
                        let rules ← Tok.opt Rbac.pItem; let u ← Rbac.pUri; let c ← Rbac.pClaims
                        pure (ip, port, e, rules, u, c)) toks with
      | some (ip, port, e, rules, u, c) =>
          let r := Pipeline.authorize (Pipeline.endpointOf ip port) { claims := c, elevated := e } u rules
          (st, match r with | .ok => "ok" | .okWithAudit => "audit" | .forbidden => "forbidden")
      | none => (st, "bad-op")
  | "canon" :: toks =>
      -- canon <method> <uri> <headers> <body>: both signing routes
      match Tok.run (do let m ← Tok.str; let u ← Rbac.pUri
                        let hs ← Tok.list (do let n ← Tok.str; let v ← Pipeline.byteStr; pure (n, v))
                        let b ← Tok.bytes; pure (m, u, hs, b)) toks with
      | some (m, u, hs, b) =>
          let hm := Headers.ofWire hs
          let a := Hex.encode (Canon.sigInput m b hm u)
          let bb := Hex.encode (Canon.sigInputBuilder m (some b) hm u)
          (st, s!"{a} {bb} {if Canon.shouldSkipSig m u then 1 else 0}")
      | none => (st, "bad-op")
  | _ => (st, "bad-op")

partial def loop (h : IO.FS.Stream) (out : IO.FS.Stream) (st : DState) : IO Unit := do
  let line ← h.getLine
  if line.isEmpty then return ()
  let (st', o) := stepLine st line
  out.putStrLn o
  loop h out st'

def main : IO Unit := do
  let out ← IO.getStdout
  loop (← IO.getStdin) out {}
