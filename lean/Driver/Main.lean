/-
Line-protocol driver: one operation per input line, one canonical output line per input line.
`<engine> <op> <args…>`; strings/bytes are hex. Import-free models only, so this links natively.
-/
import Gpa.Generated.Facts
import Gpa.Model.Hex
import Gpa.Model.Health
import Gpa.Model.RbacWire
import Gpa.Model.PipelineWire

open Gpa

structure DState where
  health : Health.StatusState :=
    Health.StatusState.new Facts.healthErrorThreshold Facts.healthMaxConsecutive
  svc : Health.ServiceState := []

def stepLine (st : DState) (line : String) : DState × String :=
  match line.trimAscii.toString.splitOn " " with
  | ["health", "new"] => ({ st with health := ({} : DState).health }, "ok")
  | ["health", "obs", b] =>
      match b with
      | "1" => let h := st.health.update true; ({ st with health := h }, h.cur.toString)
      | "0" => let h := st.health.update false; ({ st with health := h }, h.cur.toString)
      | _ => (st, "bad-op")
  | ["svc", "new"] => ({ st with svc := [] }, "ok")
  | ["svc", "note", k, v] =>
      match Hex.decodeString k, Hex.decodeString v with
      | some k, some v =>
          let r := Health.ServiceState.note st.svc k v Facts.stateNoteMax
          ({ st with svc := r.1 }, if r.2 then "true" else "false")
      | _, _ => (st, "bad-op")
  | "rbac" :: toks =>
      match Tok.run (do let it ← Rbac.pItem; let u ← Rbac.pUri; let c ← Rbac.pClaims; pure (it, u, c)) toks with
      | some (it, u, c) =>
          let d := fun (b : Bool) => if b then "allow" else "deny"
          (st, s!"{d (Rbac.isAllowed (Rbac.compute it) u c)} {d (Rbac.specAllowed it u c)} {if Rbac.distinctNames it then 1 else 0}")
      | none => (st, "bad-op")
  | "pipe" :: toks =>
      match Tok.run (do let e ← Pipeline.pEnv; let c ← Pipeline.pConn; let r ← Pipeline.pReq; pure (e, c, r)) toks with
      | some (e, c, r) =>
          (st, s!"S{if Pipeline.specMayRelay e c r then 1 else 0} " ++ Pipeline.showResult (Pipeline.handle Pipeline.macPlaceholder e c r))
      | none => (st, "bad-op")
  | "canon" :: toks =>
      -- canon <method> <uri> <headers> <body>: both signing routes
      match Tok.run (do let m ← Tok.str; let u ← Rbac.pUri
                        let hs ← Tok.list (do let n ← Tok.str; let v ← Pipeline.byteStr; pure (n, v))
                        let b ← Tok.bytes; pure (m, u, hs, b)) toks with
      | some (m, u, hs, b) =>
          let hm := Headers.ofWire hs
          let a := match Canon.sigInput m b hm u with | some x => Hex.encode x | none => "panic"
          let bb := match Canon.sigInputBuilder m (some b) hm u with | some x => Hex.encode x | none => "panic"
          (st, s!"{a} {bb} {if Canon.shouldSkipSig m u then 1 else 0}")
      | none => (st, "bad-op")
  | _ => (st, "bad-op")

partial def loop (h : IO.FS.Stream) (out : IO.FS.Stream) (st : DState) : IO Unit := do
  let line ← h.getLine
  if line.isEmpty then return ()
  let (st', o) := stepLine st line
  out.putStrLn o
  loop h out st'

def main : IO Unit := do
  let out ← IO.getStdout
  loop (← IO.getStdin) out {}
