/-
Line-protocol driver: one operation per input line, one canonical output line per input line.
`<engine> <op> <args…>`; strings/bytes are hex. Import-free models only, so this links natively.
-/
import Gpa.Generated.Facts
import Gpa.Model.Hex
import Gpa.Model.Health
import Gpa.Model.RbacWire

open Gpa

structure DState where
  health : Health.StatusState :=
    Health.StatusState.new Facts.healthErrorThreshold Facts.healthMaxConsecutive
  svc : Health.ServiceState := []

def stepLine (st : DState) (line : String) : DState × String :=
  match line.trimAscii.toString.splitOn " " with
  | ["health", "new"] => ({ st with health := ({} : DState).health }, "ok")
  | ["health", "obs", b] =>
      match b with
      | "1" => let h := st.health.update true; ({ st with health := h }, h.cur.toString)
      | "0" => let h := st.health.update false; ({ st with health := h }, h.cur.toString)
      | _ => (st, "bad-op")
  | ["svc", "new"] => ({ st with svc := [] }, "ok")
  | ["svc", "note", k, v] =>
      match Hex.decodeString k, Hex.decodeString v with
      | some k, some v =>
          let r := Health.ServiceState.note st.svc k v Facts.stateNoteMax
          ({ st with svc := r.1 }, if r.2 then "true" else "false")
      | _, _ => (st, "bad-op")
  | "rbac" :: toks =>
      match Tok.run (do let it ← Rbac.pItem; let u ← Rbac.pUri; let c ← Rbac.pClaims; pure (it, u, c)) toks with
      | some (it, u, c) =>
          let d := fun (b : Bool) => if b then "allow" else "deny"
          (st, s!"{d (Rbac.isAllowed (Rbac.compute it) u c)} {d (Rbac.specAllowed it u c)} {if Rbac.distinctNames it then 1 else 0}")
      | none => (st, "bad-op")
  | _ => (st, "bad-op")

partial def loop (h : IO.FS.Stream) (out : IO.FS.Stream) (st : DState) : IO Unit := do
  let line ← h.getLine
  if line.isEmpty then return ()
  let (st', o) := stepLine st line
  out.putStrLn o
  loop h out st'

def main : IO Unit := do
  let out ← IO.getStdout
  loop (← IO.getStdin) out {}
