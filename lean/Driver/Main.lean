/-
Line-protocol driver: one operation per input line, one canonical output line per input line.
`<engine> <op> <args…>`; strings/bytes are hex. Import-free models only, so this links natively.
-/
import Gpa.Generated.Facts
import Gpa.Model.Hex
import Gpa.Model.Health

open Gpa

structure DState where
  health : Health.StatusState :=
    Health.StatusState.new Facts.healthErrorThreshold Facts.healthMaxConsecutive
  svc : Health.ServiceState := []

def stepLine (st : DState) (line : String) : DState × String :=
  match line.trimAscii.toString.splitOn " " with
  | ["health", "new"] => ({ st with health := ({} : DState).health }, "ok")
  | ["health", "obs", b] =>
      match b with
      | "1" => let h := st.health.update true; ({ st with health := h }, h.cur.toString)
      | "0" => let h := st.health.update false; ({ st with health := h }, h.cur.toString)
      | _ => (st, "bad-op")
  | ["svc", "new"] => ({ st with svc := [] }, "ok")
  | ["svc", "note", k, v] =>
      match Hex.decodeString k, Hex.decodeString v with
      | some k, some v =>
          let r := Health.ServiceState.note st.svc k v Facts.stateNoteMax
          ({ st with svc := r.1 }, if r.2 then "true" else "false")
      | _, _ => (st, "bad-op")
  | _ => (st, "bad-op")

partial def loop (h : IO.FS.Stream) (out : IO.FS.Stream) (st : DState) : IO Unit := do
  let line ← h.getLine
  if line.isEmpty then return ()
  let (st', o) := stepLine st line
  out.putStrLn o
  loop h out st'

def main : IO Unit := do
  let out ← IO.getStdout
  loop (← IO.getStdin) out {}
