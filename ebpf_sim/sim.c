/* Simulator of the BPF helper/map semantics the program relies on (bpf-helpers(7)):
   HASH: update fails with -E2BIG when full and the key is new; LRU_HASH: evicts the least recently
   used entry instead (lookup and update refresh recency). One op per stdin line, decimal u32/u64. */
#include <stdio.h>
#include <stdlib.h>
#include <string.h>
#include <linux/bpf.h>
#include <asm/ptrace.h>
#include <linux/types.h>
#include "../../repo_socket.h"

#define MAXMAPS 8
#define MAXENT 4096
struct ent { unsigned char key[64]; unsigned char val[64]; unsigned long long used; int live; };
struct map { void *id; unsigned type, ksz, vsz, cap; struct ent e[MAXENT]; };
static struct map maps[MAXMAPS];
static int nmaps;
static unsigned long long tick;
static __u64 cur_pid_tgid, cur_uid_gid;

static struct map *getmap(void *id, unsigned type, unsigned ksz, unsigned vsz, unsigned cap) {
    for (int i = 0; i < nmaps; i++) if (maps[i].id == id) return &maps[i];
    struct map *m = &maps[nmaps++];
    m->id = id; m->type = type; m->ksz = ksz; m->vsz = vsz; m->cap = cap;
    return m;
}
static struct ent *find(struct map *m, const void *key) {
    for (unsigned i = 0; i < MAXENT; i++) if (m->e[i].live && !memcmp(m->e[i].key, key, m->ksz)) return &m->e[i];
    return NULL;
}
static unsigned count(struct map *m) { unsigned n = 0; for (unsigned i = 0; i < MAXENT; i++) n += m->e[i].live; return n; }

void *sim_map_lookup(void *id, unsigned type, unsigned ksz, unsigned vsz, unsigned cap, const void *key) {
    struct map *m = getmap(id, type, ksz, vsz, cap);
    struct ent *e = find(m, key);
    if (!e) return NULL;
    e->used = ++tick;
    return e->val;
}
long sim_map_update(void *id, unsigned type, unsigned ksz, unsigned vsz, unsigned cap, const void *key, const void *val, __u64 flags) {
    struct map *m = getmap(id, type, ksz, vsz, cap);
    struct ent *e = find(m, key);
    /* bpf-helpers(7): BPF_NOEXIST (1) - the entry must not exist yet; BPF_EXIST (2) - it must exist; BPF_ANY (0) - no condition */
    if (flags == 1 && e) return -17;  /* EEXIST */
    if (flags == 2 && !e) return -2;  /* ENOENT */
    if (flags > 2) return -22;        /* EINVAL */
    if (!e) {
        if (count(m) >= m->cap) {
            if (m->type != BPF_MAP_TYPE_LRU_HASH) return -7; /* E2BIG */
            struct ent *old = NULL;
            for (unsigned i = 0; i < MAXENT; i++) if (m->e[i].live && (!old || m->e[i].used < old->used)) old = &m->e[i];
            old->live = 0;
        }
        for (unsigned i = 0; i < MAXENT; i++) if (!m->e[i].live) { e = &m->e[i]; break; }
        memset(e, 0, sizeof *e);
        memcpy(e->key, key, m->ksz);
        e->live = 1;
    }
    memcpy(e->val, val, m->vsz);
    e->used = ++tick;
    return 0;
}
long sim_map_delete(void *id, unsigned type, unsigned ksz, unsigned vsz, unsigned cap, const void *key) {
    struct map *m = getmap(id, type, ksz, vsz, cap);
    struct ent *e = find(m, key);
    if (!e) return -2; /* ENOENT */
    e->live = 0;
    return 0;
}
__u64 bpf_get_current_pid_tgid(void) { return cur_pid_tgid; }
__u64 bpf_get_current_uid_gid(void) { return cur_uid_gid; }
__u64 bpf_get_socket_cookie(void *ctx) { (void)ctx; return 1; }

/* the program under test (unmodified source, compiled separately) */
int connect4(struct bpf_sock_addr *ctx);
int tcp_v4_connect(struct pt_regs *ctx, struct probe_sock *sk);
extern char skip_process_map, policy_map, audit_map, local_map; /* addresses only */

static int cmp_ent(const void *a, const void *b) {
    const __u32 *x = (const __u32 *)((const struct ent *)a)->key, *y = (const __u32 *)((const struct ent *)b)->key;
    for (int i = 0; i < 16; i++) { if (x[i] < y[i]) return -1; if (x[i] > y[i]) return 1; }
    return 0;
}

static void dump(void *id, const char *name) {
    struct map *m = NULL;
    for (int i = 0; i < nmaps; i++) if (maps[i].id == id) m = &maps[i];
    printf("%s", name);
    if (m) {
        static struct ent tmp[MAXENT];
        unsigned n = 0;
        for (unsigned i = 0; i < MAXENT; i++) if (m->e[i].live) tmp[n++] = m->e[i];
        qsort(tmp, n, sizeof tmp[0], cmp_ent);
        for (unsigned i = 0; i < n; i++) {
            printf(" [");
            for (unsigned k = 0; k < m->ksz / 4; k++) printf("%s%u", k ? "," : "", ((__u32 *)tmp[i].key)[k]);
            printf("->");
            for (unsigned k = 0; k < m->vsz / 4; k++) printf("%s%u", k ? "," : "", ((__u32 *)tmp[i].val)[k]);
            printf("]");
        }
    }
}

int main(void) {
    char line[1024];
    while (fgets(line, sizeof line, stdin)) {
        unsigned long long a[16] = {0};
        char op[32] = {0};
        int n = sscanf(line, "%31s %llu %llu %llu %llu %llu %llu %llu %llu %llu %llu %llu %llu", op, &a[0], &a[1], &a[2], &a[3], &a[4], &a[5],
                       &a[6], &a[7], &a[8], &a[9], &a[10], &a[11]);
        if (n < 1) continue;
        if (!strcmp(op, "policy")) {          /* key[6] value[6] as user space writes them */
            __u32 k[6], v[6];
            for (int i = 0; i < 6; i++) { k[i] = (__u32)a[i]; v[i] = (__u32)a[6 + i]; }
            long r = sim_map_update(&policy_map, BPF_MAP_TYPE_HASH, sizeof k, sizeof v, 10, k, v, 0);
            printf("ok %ld\n", r);
        } else if (!strcmp(op, "unpolicy")) {
            __u32 k[6];
            for (int i = 0; i < 6; i++) k[i] = (__u32)a[i];
            printf("ok %ld\n", sim_map_delete(&policy_map, BPF_MAP_TYPE_HASH, sizeof k, sizeof k, 10, k));
        } else if (!strcmp(op, "skip")) {
            __u32 k = (__u32)a[0];
            printf("ok %ld\n", sim_map_update(&skip_process_map, BPF_MAP_TYPE_HASH, 4, 4, 10, &k, &k, 0));
        } else if (!strcmp(op, "c4")) {        /* pid_tgid uid_gid user_ip4 user_port protocol */
            struct bpf_sock_addr ctx;
            memset(&ctx, 0, sizeof ctx);
            cur_pid_tgid = a[0]; cur_uid_gid = a[1];
            ctx.user_ip4 = (__u32)a[2]; ctx.user_port = (__u32)a[3]; ctx.protocol = (__u32)a[4]; ctx.family = 2;
            int v = connect4(&ctx);
            printf("c4 %d %u %u\n", v, ctx.user_ip4, ctx.user_port);
        } else if (!strcmp(op, "tc")) {        /* pid_tgid uid_gid family daddr dport_be16 lport */
            struct probe_sock sk;
            struct pt_regs regs;
            memset(&sk, 0, sizeof sk); memset(&regs, 0, sizeof regs);
            cur_pid_tgid = a[0]; cur_uid_gid = a[1];
            sk.__sk_common.skc_family = (unsigned short)a[2];
            sk.__sk_common.skc_daddr = (__u32)a[3];
            sk.__sk_common.skc_dport = (__u16)a[4];
            sk.__sk_common.skc_num = (__u16)a[5];
            int v = tcp_v4_connect(&regs, &sk);
            printf("tc %d\n", v);
        } else if (!strcmp(op, "rmaudit")) {   /* user space removes an audit entry: key[2] */
            __u32 k[2] = {(__u32)a[0], (__u32)a[1]};
            printf("ok %ld\n", sim_map_delete(&audit_map, BPF_MAP_TYPE_LRU_HASH, 8, 20, 200, k));
        } else if (!strcmp(op, "dump")) {
            dump(&audit_map, "audit"); printf(" | "); dump(&local_map, "local"); printf("\n");
        } else {
            printf("bad-op\n");
        }
        fflush(stdout);
    }
    return 0;
}
