#!/bin/sh
# builds the UNMODIFIED /repo/linux-ebpf/ebpf_cgroup.c in user space against the shim + simulator
set -e
REPO=${VERIF_REPO:-/repo}
OUT=${1:-/verif/.cache/ebpf_sim}
mkdir -p "$OUT"
HERE=$(cd "$(dirname "$0")" && pwd)
# socket.h is included by the program itself from its own directory; the simulator needs its struct layouts too
cp "$REPO/linux-ebpf/socket.h" "$OUT/repo_socket_body.h"
printf '#include <linux/types.h>\n#include "repo_socket_body.h"\n' > "$OUT/repo_socket.h"
clang -O0 -g -w -I"$HERE/shim" -c "$REPO/linux-ebpf/ebpf_cgroup.c" -o "$OUT/prog.o"
sed "s#\"../../repo_socket.h\"#\"$OUT/repo_socket.h\"#" "$HERE/sim.c" > "$OUT/sim_gen.c"
clang -O0 -g -w -I"$HERE/shim" -c "$OUT/sim_gen.c" -o "$OUT/sim.o"
clang "$OUT/prog.o" "$OUT/sim.o" -o "$OUT/ebpf_sim"
echo built "$OUT/ebpf_sim"
