/* Minimal stand-in for libbpf's <bpf/bpf_helpers.h> (not installed here), enough to compile /repo/linux-ebpf/ebpf_cgroup.c
   unmodified with `clang -target bpf` into an object the kernel can load: BTF map declaration macros, section macro, and
   the helper functions the program calls, by their kernel helper ids (include/uapi/linux/bpf.h). */
#ifndef VERIF_BPF_HELPERS_H
#define VERIF_BPF_HELPERS_H
#define __uint(name, val) int (*name)[val]
#define __type(name, val) typeof(val) *name
#define SEC(name) __attribute__((section(name), used))
#ifndef NULL
#define NULL ((void *)0)
#endif
#ifndef __always_inline
#define __always_inline inline __attribute__((always_inline))
#endif
static void *(*bpf_map_lookup_elem)(void *map, const void *key) = (void *) 1;
static long (*bpf_map_update_elem)(void *map, const void *key, const void *value, __u64 flags) = (void *) 2;
static long (*bpf_map_delete_elem)(void *map, const void *key) = (void *) 3;
static long (*bpf_probe_read)(void *dst, __u32 size, const void *unsafe_ptr) = (void *) 4;
static long (*bpf_trace_printk)(const char *fmt, __u32 fmt_size, ...) = (void *) 6;
static __u64 (*bpf_get_current_pid_tgid)(void) = (void *) 14;
static __u64 (*bpf_get_current_uid_gid)(void) = (void *) 15;
static __u64 (*bpf_get_socket_cookie)(void *ctx) = (void *) 46;
#define bpf_printk(fmt, ...) ({ char ____fmt[] = fmt; bpf_trace_printk(____fmt, sizeof(____fmt), ##__VA_ARGS__); })
#endif
