/* Minimal stand-in for libbpf's <bpf/bpf_tracing.h>: the one-argument form of BPF_KPROBE on x86-64. */
#ifndef VERIF_BPF_TRACING_H
#define VERIF_BPF_TRACING_H
#define PT_REGS_PARM1(x) ((x)->rdi)
#define BPF_KPROBE(name, arg1) \
name(struct pt_regs *ctx); \
static __always_inline int ____##name(struct pt_regs *ctx, arg1); \
int name(struct pt_regs *ctx) { return ____##name(ctx, (void *)PT_REGS_PARM1(ctx)); } \
static __always_inline int ____##name(struct pt_regs *ctx, arg1)
#endif
