#ifndef VERIF_BPF_TRACING_H
#define VERIF_BPF_TRACING_H
/* libbpf's BPF_KPROBE unpacks the probed function's arguments from pt_regs; here they are passed directly */
#define BPF_KPROBE(name, args...) name(struct pt_regs *ctx, ##args)
#endif
