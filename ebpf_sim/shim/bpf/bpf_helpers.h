/* User-space stand-in for libbpf's bpf_helpers.h: the map-definition macros are libbpf's own
   (BTF-style), the helpers are routed to a simulator of the documented semantics (sim.c). */
#ifndef VERIF_BPF_HELPERS_H
#define VERIF_BPF_HELPERS_H
#include <stddef.h>
#include <string.h>
#include <linux/types.h>

#define SEC(name)
#define __uint(name, val) int (*name)[val]
#define __type(name, val) typeof(val) *name
#define __always_inline inline __attribute__((always_inline))
#define bpf_printk(fmt, ...) ((void)0)

/* map operations: sizes, type and capacity are taken from the map definition itself */
#define VERIF_MAP_ARGS(m) (void *)(m), sizeof(*(m)->type) / sizeof(int), sizeof(*(m)->key), sizeof(*(m)->value), \
                          sizeof(*(m)->max_entries) / sizeof(int)
void *sim_map_lookup(void *map, unsigned type, unsigned ksz, unsigned vsz, unsigned cap, const void *key);
long sim_map_update(void *map, unsigned type, unsigned ksz, unsigned vsz, unsigned cap, const void *key, const void *val, __u64 flags);
long sim_map_delete(void *map, unsigned type, unsigned ksz, unsigned vsz, unsigned cap, const void *key);
#define bpf_map_lookup_elem(m, k) sim_map_lookup(VERIF_MAP_ARGS(m), (k))
#define bpf_map_update_elem(m, k, v, f) sim_map_update(VERIF_MAP_ARGS(m), (k), (v), (f))
#define bpf_map_delete_elem(m, k) sim_map_delete(VERIF_MAP_ARGS(m), (k))

__u64 bpf_get_current_pid_tgid(void);
__u64 bpf_get_current_uid_gid(void);
__u64 bpf_get_socket_cookie(void *ctx);
static inline long bpf_probe_read(void *dst, __u32 size, const void *src) { memcpy(dst, src, size); return 0; }
#endif
