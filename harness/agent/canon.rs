// C04 function level: both signing routes of the real code.
//  canonA <hex method> <hex uri> <n> (<hex name> <hex value>)*n <hex body>
//      -> hex(as_sig_input(head, body)) <skip 0|1>          | panic:<hex msg> | bad-input
//  canonB <hex method> <hex full url> <n> (<hex name> <hex value>)*n <hex body|N> <hex guid> <hex key>
//      -> <hex path_and_query> <n> (<hex name> <hex value>)*n <hex authorization value>   (headers of the built request, auth excluded)
//  mac <hex key text> <hex message|->  -> helpers::compute_signature | bad-key
use super::util::*;
use crate::common::hyper_client;
use std::collections::HashMap;

fn parse_headers(t: &[&str], at: usize) -> (Vec<(String, Vec<u8>)>, usize) {
    let n: usize = t[at].parse().unwrap();
    let mut hs = vec![];
    let mut i = at + 1;
    for _ in 0..n {
        hs.push((unhex_str(t[i]), unhex(t[i + 1])));
        i += 2;
    }
    (hs, i)
}

pub fn run() {
    proxy_agent_shared::logger::logger_manager::set_logger_level(proxy_agent_shared::logger::LoggerLevel::Error);
    std::panic::set_hook(Box::new(|_| {}));
    let mut out = Out::open();
    for line in stdin_lines() {
        let t: Vec<&str> = line.trim().split(' ').collect();
        match t[0] {
            "canonA" => {
                let method = unhex_str(t[1]);
                let uri = unhex_str(t[2]);
                let (hs, i) = parse_headers(&t, 3);
                let body = unhex(t[i]);
                let mut b = hyper::Request::builder().method(method.as_str()).uri(uri.as_str());
                let mut bad = false;
                for (n, v) in &hs {
                    match (hyper::header::HeaderName::from_bytes(n.as_bytes()), hyper::header::HeaderValue::from_bytes(v)) {
                        (Ok(n), Ok(v)) => b = b.header(n, v),
                        _ => bad = true,
                    }
                }
                let req = match b.body(()) {
                    Ok(r) if !bad => r,
                    _ => {
                        out.line("bad-input");
                        continue;
                    }
                };
                let (head, _) = req.into_parts();
                let skip = hyper_client::should_skip_sig(&head.method, &head.uri);
                let r = guarded(move || hyper_client::as_sig_input(head, hyper::body::Bytes::from(body)));
                match r {
                    Ok(v) => out.line(&format!("{} {}", hex(&v), if skip { 1 } else { 0 })),
                    Err(m) => out.line(&format!("panic:{}", hex(m.as_bytes()))),
                }
            }
            "canonB" => {
                let method = unhex_str(t[1]);
                let url: hyper::Uri = match unhex_str(t[2]).parse() {
                    Ok(u) => u,
                    Err(_) => {
                        out.line("bad-input");
                        continue;
                    }
                };
                let (hs, i) = parse_headers(&t, 3);
                let body: Option<Vec<u8>> = if t[i] == "N" { None } else { Some(unhex(t[i])) };
                let guid = unhex_str(t[i + 1]);
                let key = unhex_str(t[i + 2]);
                let mut headers: HashMap<String, String> = HashMap::new();
                for (n, v) in hs {
                    headers.insert(n, String::from_utf8_lossy(&v).to_string());
                }
                let m = match hyper::Method::from_bytes(method.as_bytes()) {
                    Ok(m) => m,
                    Err(_) => {
                        out.line("bad-input");
                        continue;
                    }
                };
                let r = guarded(move || {
                    hyper_client::build_request(m, &url, &headers, body.as_deref(), Some(guid), Some(key))
                });
                match r {
                    Ok(Ok(req)) => {
                        let pq = req.uri().to_string();
                        let mut items = vec![];
                        let mut auth = String::from("-");
                        for (n, v) in req.headers().iter() {
                            if n.as_str() == crate::common::constants::AUTHORIZATION_HEADER {
                                auth = hex(v.as_bytes());
                            } else {
                                items.push(format!("{} {}", hex(n.as_str().as_bytes()), hex(v.as_bytes())));
                            }
                        }
                        out.line(&format!("{} {} {} {}", hex(pq.as_bytes()), items.len(), items.join(" "), auth).replace("  ", " "));
                    }
                    Ok(Err(_)) => out.line("error"),
                    Err(m) => out.line(&format!("panic:{}", hex(m.as_bytes()))),
                }
            }
            "mac" => {
                // mac <hex key text> <hex message|->  -> compute_signature(key text, message) | error
                let key = unhex_str(t[1]);
                let msg = if t[2] == "-" { vec![] } else { unhex(t[2]) };
                match crate::common::helpers::compute_signature(&key, &msg) {
                    Ok(s) => out.line(&s),
                    Err(_) => out.line("bad-key"),
                }
            }
            _ => out.line("bad-op"),
        }
    }
    out.flush();
}
