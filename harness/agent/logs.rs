// C19: real RollingLogger, event logger file cap, rule dumps, in scratch directories (VERIF_SCRATCH).
use super::util::*;
use crate::proxy::authorization_rules::{AuthorizationRulesForLogging, ComputedAuthorizationRules};
use proxy_agent_shared::logger::rolling_logger::RollingLogger;
use proxy_agent_shared::telemetry::event_logger;
use std::collections::HashMap;
use std::io::BufRead;
use std::path::PathBuf;

const NAME: &str = "ProxyAgent.log";

fn listing(dir: &PathBuf) -> String {
    let mut cur = "-".to_string();
    let mut arch: Vec<(String, u64)> = vec![];
    if let Ok(rd) = std::fs::read_dir(dir) {
        for e in rd.flatten() {
            let n = e.file_name().to_string_lossy().to_string();
            let sz = e.metadata().map(|m| m.len()).unwrap_or(0);
            if n == NAME {
                cur = sz.to_string();
            } else if n.starts_with(NAME) {
                arch.push((n, sz));
            }
        }
    }
    arch.sort();
    format!("cur={} a={}", cur, if arch.is_empty() { "-".to_string() } else { arch.iter().map(|x| x.1.to_string()).collect::<Vec<_>>().join(",") })
}

fn count_files(dir: &PathBuf) -> usize {
    std::fs::read_dir(dir).map(|rd| rd.flatten().filter(|e| e.metadata().map(|m| m.is_file()).unwrap_or(false)).count()).unwrap_or(0)
}

fn sorted_names(dir: &PathBuf) -> Vec<String> {
    let mut v: Vec<String> = std::fs::read_dir(dir).map(|rd| rd.flatten().map(|e| e.file_name().to_string_lossy().to_string()).collect()).unwrap_or_default();
    v.sort();
    v
}

pub fn run() {
    proxy_agent_shared::logger::logger_manager::set_logger_level(proxy_agent_shared::logger::LoggerLevel::Error);
    let rt = tokio::runtime::Builder::new_multi_thread().enable_all().worker_threads(2).build().unwrap();
    rt.block_on(async {
        let mut out = Out::open();
        let base = PathBuf::from(std::env::var("VERIF_SCRATCH").unwrap());
        let mut loggers: HashMap<String, (RollingLogger, PathBuf)> = HashMap::new();
        let mut seq: u64 = 0;
        let mut evdir: Option<PathBuf> = None;
        let mut dump_ids: HashMap<String, u64> = HashMap::new();
        for line in std::io::stdin().lock().lines() {
            let line = line.unwrap();
            let t: Vec<&str> = line.trim().split(' ').collect();
            let r: String = match t.as_slice() {
                ["new", d, maxsize, maxcount] => {
                    let dir = base.join(d);
                    std::fs::create_dir_all(&dir).unwrap();
                    let l = RollingLogger::create_new(dir.clone(), NAME.to_string(), maxsize.parse().unwrap(), maxcount.parse().unwrap());
                    loggers.insert(d.to_string(), (l, dir.clone()));
                    listing(&dir)
                }
                ["pre", d, kind, size] => {
                    let dir = base.join(d);
                    std::fs::create_dir_all(&dir).unwrap();
                    seq += 1;
                    let name = if *kind == "cur" { NAME.to_string() } else { format!("{}.2020-01-01T00.00.00.000-{:019}.log", NAME, seq) };
                    std::fs::write(dir.join(name), vec![b'p'; size.parse().unwrap()]).unwrap();
                    listing(&dir)
                }
                ["write", d, bytes] => {
                    let (l, dir) = loggers.get(*d).unwrap();
                    let n: usize = bytes.parse().unwrap();
                    let msgs = if n == 0 { vec![] } else { vec!["x".repeat(n - 1)] };
                    let _ = l.write_many(msgs);
                    listing(dir)
                }
                ["evstart", d, cap] => {
                    let dir = base.join(d);
                    std::fs::create_dir_all(&dir).unwrap();
                    let d2 = dir.clone();
                    let cap: usize = cap.parse().unwrap();
                    tokio::spawn(async move {
                        event_logger::start(d2, std::time::Duration::from_millis(15), cap, |_s: String| async {}).await;
                    });
                    evdir = Some(dir);
                    "ok".into()
                }
                ["evstartcfg", d] => {
                    // the cap as the agent itself reads it: common::config (proxy-agent.json next to the executable)
                    let dir = base.join(d);
                    std::fs::create_dir_all(&dir).unwrap();
                    let d2 = dir.clone();
                    let cap = crate::common::config::get_max_event_file_count();
                    tokio::spawn(async move {
                        event_logger::start(d2, std::time::Duration::from_millis(15), cap, |_s: String| async {}).await;
                    });
                    evdir = Some(dir);
                    cap.to_string()
                }
                ["evpretmp", k] => {
                    // what a run killed between creating and renaming an event file leaves behind
                    let dir = evdir.clone().unwrap();
                    for _ in 0..k.parse::<u64>().unwrap() {
                        seq += 1;
                        std::fs::write(dir.join(format!("{:019}.tmp", seq)), b"[").unwrap();
                    }
                    count_files(&dir).to_string()
                }
                ["evpre", k] => {
                    let dir = evdir.clone().unwrap();
                    for _ in 0..k.parse::<u64>().unwrap() {
                        seq += 1;
                        std::fs::write(dir.join(format!("{:019}.json", seq)), b"[]").unwrap();
                    }
                    count_files(&dir).to_string()
                }
                ["evwrite", k] => {
                    let t0 = std::time::Instant::now();
                    for i in 0..k.parse::<u64>().unwrap() {
                        event_logger::write_event(proxy_agent_shared::logger::LoggerLevel::Info, format!("event {}", i), "m", "mod", "none");
                    }
                    let ms = t0.elapsed().as_millis();
                    tokio::time::sleep(std::time::Duration::from_millis(90)).await;
                    // file count, and how long the burst took to enqueue (a burst longer than the 15 ms flush interval spans several flushes)
                    format!("{} {}", count_files(&evdir.clone().unwrap()), ms)
                }
                ["evstop", k] => {
                    // shutdown with events still queued: enqueue k events and signal stop in the same flush interval
                    for i in 0..k.parse::<u64>().unwrap() {
                        event_logger::write_event(proxy_agent_shared::logger::LoggerLevel::Info, format!("late event {}", i), "m", "mod", "none");
                    }
                    event_logger::stop();
                    tokio::time::sleep(std::time::Duration::from_millis(150)).await;
                    count_files(&evdir.clone().unwrap()).to_string()
                }
                ["evrm", k] => {
                    let dir = evdir.clone().unwrap();
                    for n in sorted_names(&dir).into_iter().take(k.parse().unwrap()) {
                        let _ = std::fs::remove_file(dir.join(n));
                    }
                    count_files(&dir).to_string()
                }
                ["dumppre", d, k] => {
                    let dir = base.join(d);
                    std::fs::create_dir_all(&dir).unwrap();
                    for _ in 0..k.parse::<u64>().unwrap() {
                        seq += 1;
                        let name = format!("AuthorizationRules_2020-01-01T00.00.00.000-{:019}.json", seq);
                        std::fs::write(dir.join(&name), b"{}").unwrap();
                    }
                    std::fs::write(dir.join("unrelated.txt"), b"x").unwrap();
                    "ok".into()
                }
                ["dump", d, max] => {
                    let dir = base.join(d);
                    std::fs::create_dir_all(&dir).unwrap();
                    let rules = AuthorizationRulesForLogging::new(None, ComputedAuthorizationRules { imds: None, wireserver: None, hostga: None });
                    rules.write_all(&dir, max.parse().unwrap());
                    // ids in creation (= name) order
                    let mut ids = vec![];
                    for n in sorted_names(&dir) {
                        if !n.starts_with("AuthorizationRules_") {
                            continue;
                        }
                        let key = format!("{}/{}", d, n);
                        let next = dump_ids.len() as u64;
                        let id = *dump_ids.entry(key).or_insert(next);
                        ids.push(id.to_string());
                    }
                    if ids.is_empty() { "-".into() } else { ids.join(",") }
                }
                ["dumplist", d] => {
                    let dir = base.join(d);
                    let mut ids = vec![];
                    for n in sorted_names(&dir) {
                        if !n.starts_with("AuthorizationRules_") {
                            continue;
                        }
                        let key = format!("{}/{}", d, n);
                        let next = dump_ids.len() as u64;
                        let id = *dump_ids.entry(key).or_insert(next);
                        ids.push(id.to_string());
                    }
                    if ids.is_empty() { "-".into() } else { ids.join(",") }
                }
                _ => "bad-op".into(),
            };
            out.line(&r);
            out.flush();
        }
    });
    std::process::exit(0);
}
