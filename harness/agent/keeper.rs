// C08/C09/C10/C12: the REAL KeyKeeper loop against a mock host (VERIF_HOST_IP/PORT), key/log dirs in scratch.
// stdin ops: state | notify | quit     (one reply line each on VERIF_OUT)
use super::util::*;
use crate::key_keeper::KeyKeeper;
use crate::redirector::verif_hooks;
use crate::shared_state::SharedState;
use std::io::BufRead;

fn rules_line(r: Option<crate::proxy::authorization_rules::ComputedAuthorizationItem>) -> String {
    match r {
        None => "none".to_string(),
        Some(c) => {
            let mut names: Vec<String> = c.privileges.keys().cloned().collect();
            names.sort();
            format!("{};{};{};{}", hex(c.id.as_bytes()), c.mode, if c.defaultAllowed { "allow" } else { "deny" }, hex(names.join(",").as_bytes()))
        }
    }
}

pub fn run() {
    let level = std::env::var("VERIF_LOG_LEVEL").unwrap_or("Error".to_string());
    if let Ok(l) = level.parse::<proxy_agent_shared::logger::LoggerLevel>() {
        proxy_agent_shared::logger::logger_manager::set_logger_level(l);
    }
    let rt = tokio::runtime::Builder::new_multi_thread().enable_all().worker_threads(3).build().unwrap();
    rt.block_on(async {
        let mut out = Out::open();
        let ip = std::env::var("VERIF_HOST_IP").unwrap();
        let port = std::env::var("VERIF_HOST_PORT").unwrap();
        let key_dir = std::path::PathBuf::from(std::env::var("VERIF_KEY_DIR").unwrap());
        let log_dir = std::path::PathBuf::from(std::env::var("VERIF_LOG_DIR").unwrap());
        let interval: u64 = std::env::var("VERIF_INTERVAL_MS").ok().and_then(|v| v.parse().ok()).unwrap_or(20);
        let shared_state = SharedState::start_all();
        let kk = shared_state.get_key_keeper_shared_state();
        let base: hyper::Uri = format!("http://{}:{}/", ip, port).parse().unwrap();
        let keeper = KeyKeeper::new(base, key_dir, log_dir, std::time::Duration::from_millis(interval), &shared_state);
        tokio::spawn(async move { keeper.poll_secure_channel_status().await });
        out.line("ready");
        out.flush();
        for line in std::io::stdin().lock().lines() {
            let line = line.unwrap();
            let r: String = match line.trim() {
                "state" => {
                    let pol = verif_hooks::take_policy_trace();
                    format!(
                        "ids={},{},{} key={},{} chan={} ws={} imds={} hostga={} policy={}",
                        hex(kk.get_wireserver_rule_id().await.unwrap_or_default().as_bytes()),
                        hex(kk.get_imds_rule_id().await.unwrap_or_default().as_bytes()),
                        hex(kk.get_hostga_rule_id().await.unwrap_or_default().as_bytes()),
                        hex(kk.get_current_key_guid().await.unwrap_or(None).unwrap_or_default().as_bytes()),
                        hex(kk.get_current_key_value().await.unwrap_or(None).unwrap_or_default().as_bytes()),
                        hex(kk.get_current_secure_channel_state().await.unwrap_or_default().as_bytes()),
                        rules_line(kk.get_wireserver_rules().await.unwrap_or(None)),
                        rules_line(kk.get_imds_rules().await.unwrap_or(None)),
                        rules_line(kk.get_hostga_rules().await.unwrap_or(None)),
                        if pol.is_empty() { "-".to_string() } else { pol.iter().map(|(e, r)| format!("{}:{}", e, if *r { 1 } else { 0 })).collect::<Vec<_>>().join(",") }
                    )
                }
                "notify" => {
                    let _ = kk.notify().await;
                    "ok".to_string()
                }
                "quit" => break,
                _ => "bad-op".to_string(),
            };
            out.line(&r);
            out.flush();
        }
        shared_state.cancel_cancellation_token();
    });
    std::process::exit(0);
}
