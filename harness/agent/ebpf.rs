// C06 user-space half: the real key/value encoders and decoders (hook H4) and the ip string helpers.
use super::util::*;
use crate::redirector::{ip_to_string, string_to_ip, verif_encoders};

pub fn run() {
    let mut out = Out::open();
    for line in stdin_lines() {
        let t: Vec<&str> = line.trim().split(' ').collect();
        let r: String = match t.as_slice() {
            ["policy", ip, port] => verif_encoders::policy_entry(ip.parse().unwrap(), port.parse().unwrap())
                .iter().map(|x| x.to_string()).collect::<Vec<_>>().join(" "),
            ["skip", pid] => verif_encoders::skip_entry(pid.parse().unwrap())[0].to_string(),
            ["auditkey", port] => {
                let k = verif_encoders::audit_key(port.parse().unwrap());
                format!("{} {}", k[0], k[1])
            }
            ["dec", a, b, c, d, e] => {
                let v: [u32; 5] = [a.parse().unwrap(), b.parse().unwrap(), c.parse().unwrap(), d.parse().unwrap(), e.parse().unwrap()];
                let en = verif_encoders::audit_entry(v);
                format!("{} {} {} {} {}", en.logon_id, en.process_id, en.is_admin, en.destination_ipv4_addr(), en.destination_port_in_host_byte_order())
            }
            ["ipsegs", n] => {
                let n: u32 = n.parse().unwrap();
                let s = ip_to_string(n);
                format!("{} {}", s, string_to_ip(&s))
            }
            ["consts"] => format!(
                "{} {} {} {} {} {} {}",
                crate::common::constants::WIRE_SERVER_IP_NETWORK_BYTE_ORDER, crate::common::constants::WIRE_SERVER_PORT,
                crate::common::constants::GA_PLUGIN_IP_NETWORK_BYTE_ORDER, crate::common::constants::GA_PLUGIN_PORT,
                crate::common::constants::IMDS_IP_NETWORK_BYTE_ORDER, crate::common::constants::IMDS_PORT,
                string_to_ip(crate::common::constants::PROXY_AGENT_IP)
            ),
            ["cgmount", bindir] => {
                // where the connect hook gets attached: the real lookup, run against a stand-in `findmnt` found first on PATH
                std::env::set_var("PATH", bindir);
                match proxy_agent_shared::linux::get_cgroup2_mount_path() {
                    Ok(p) => format!("ok {}", hex(p.to_string_lossy().as_bytes())),
                    Err(_) => "err".into(),
                }
            }
            _ => "bad-op".into(),
        };
        out.line(&r);
    }
    out.flush();
}
