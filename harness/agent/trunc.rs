// C13 function level: the truncation sites, with panics caught and reported.
//   event <hex msg>      -> ok | panic:<hex>
//   eventburst <n> <hex msg> -> ok | panic:<hex>   (n events in a tight loop: the queue overflows)
//   flush                -> <hex message>,<hex message>,... (messages of the events written to disk since the last flush)
//   status <hex msg>     -> <hex reported message> | panic:<hex>
//   xmlesc <hex text|-> -> <hex escaped>|panic:<hex>
//   utf16 <hex content-type> <hex body|-> [split offset] -> ok:<hex json>|err|panic:<hex>   (read_response_body through a local one-shot server)
use super::util::*;
use crate::shared_state::agent_status_wrapper::{AgentStatusModule, AgentStatusSharedState};
use proxy_agent_shared::logger::LoggerLevel;
use proxy_agent_shared::telemetry::event_logger;
use std::io::BufRead;

pub fn run() {
    proxy_agent_shared::logger::logger_manager::set_logger_level(LoggerLevel::Error);
    std::panic::set_hook(Box::new(|_| {}));
    let rt = tokio::runtime::Builder::new_multi_thread().enable_all().worker_threads(2).build().unwrap();
    rt.block_on(async {
        let mut out = Out::open();
        let dir = std::path::PathBuf::from(std::env::var("VERIF_EVENT_DIR").expect("VERIF_EVENT_DIR"));
        let d2 = dir.clone();
        tokio::spawn(async move {
            event_logger::start(d2, std::time::Duration::from_millis(20), 100000, |_s: String| async {}).await;
        });
        let status = AgentStatusSharedState::start_new();
        let stdin = std::io::stdin();
        for line in stdin.lock().lines() {
            let line = line.unwrap();
            let t: Vec<&str> = line.trim().split(' ').collect();
            let r: String = match t.as_slice() {
                ["event", m] => {
                    let msg = unhex_str(m);
                    match guarded(move || event_logger::write_event(LoggerLevel::Info, msg, "verif", "verif", "none")) {
                        Ok(()) => "ok".into(),
                        Err(e) => format!("panic:{}", hex(e.as_bytes())),
                    }
                }
                ["eventburst", n, m] => {
                    // more events than the queue holds, written faster than it is drained: the writer's "queue is full" path runs
                    // with this message too
                    let msg = unhex_str(m);
                    let n: usize = n.parse().unwrap();
                    let mut first: Option<String> = None;
                    for _ in 0..n {
                        let mm = msg.clone();
                        if let Err(e) = guarded(move || event_logger::write_event(LoggerLevel::Info, mm, "verif", "verif", "none")) {
                            first = Some(e);
                            break;
                        }
                    }
                    match first {
                        None => "ok".into(),
                        Some(e) => format!("panic:{}", hex(e.as_bytes())),
                    }
                }
                ["eventrace", rounds] => {
                    // the queue (capacity 1000) is filled to one below its capacity, then eight writers write at the same moment: all
                    // but one find it full. Repeated; reports the first panic of a writer.
                    let rounds: usize = rounds.parse().unwrap();
                    let mut first: Option<String> = None;
                    for _ in 0..rounds {
                        // drain what is queued (the logger drains every 20 ms), then fill quickly
                        tokio::time::sleep(std::time::Duration::from_millis(45)).await;
                        for _ in 0..999 {
                            event_logger::write_event(LoggerLevel::Info, "fill".to_string(), "verif", "verif", "none");
                        }
                        let barrier = std::sync::Arc::new(std::sync::Barrier::new(8));
                        let hs: Vec<_> = (0..8).map(|i| {
                            let b = barrier.clone();
                            std::thread::spawn(move || {
                                b.wait();
                                guarded(move || event_logger::write_event(LoggerLevel::Info, format!("racer {}", i), "verif", "verif", "none"))
                            })
                        }).collect();
                        for h in hs {
                            match h.join() {
                                Ok(Err(e)) => { if first.is_none() { first = Some(e); } }
                                Err(_) => { if first.is_none() { first = Some("writer thread died".to_string()); } }
                                _ => {}
                            }
                        }
                        if first.is_some() {
                            break;
                        }
                    }
                    match first {
                        None => "ok".into(),
                        Some(e) => format!("panic:{}", hex(e.as_bytes())),
                    }
                }
                ["evdrain"] => {
                    // forget what is queued / written so far (after a burst)
                    tokio::time::sleep(std::time::Duration::from_millis(150)).await;
                    let mut n = 0;
                    if let Ok(files) = proxy_agent_shared::misc_helpers::get_files(&dir) {
                        for f in files {
                            let _ = std::fs::remove_file(&f);
                            n += 1;
                        }
                    }
                    n.to_string()
                }
                ["flush", rest @ ..] => {
                    // collect the event files until the expected number of events has been seen (they may be spread over several
                    // flush intervals when the machine is busy), at most 10 s
                    let want: usize = rest.first().and_then(|x| x.parse().ok()).unwrap_or(0);
                    let mut msgs = vec![];
                    let t0 = std::time::Instant::now();
                    loop {
                        tokio::time::sleep(std::time::Duration::from_millis(120)).await;
                        if let Ok(files) = proxy_agent_shared::misc_helpers::get_files(&dir) {
                            for f in files {
                                if f.extension().map(|e| e == "json").unwrap_or(false) {
                                    if let Ok(evs) = proxy_agent_shared::misc_helpers::json_read_from_file::<Vec<proxy_agent_shared::telemetry::Event>>(&f) {
                                        for e in evs {
                                            msgs.push(hex(e.Message.as_bytes()));
                                        }
                                    }
                                    let _ = std::fs::remove_file(&f);
                                }
                            }
                        }
                        if msgs.len() >= want || t0.elapsed().as_secs() >= 10 {
                            break;
                        }
                    }
                    if msgs.is_empty() { "-".into() } else { msgs.join(",") }
                }
                ["status", m] => {
                    let msg = unhex_str(m);
                    let st = status.clone();
                    let h = tokio::spawn(async move {
                        let _ = st.set_module_status_message(msg, AgentStatusModule::KeyKeeper).await;
                        st.get_module_status(AgentStatusModule::KeyKeeper).await.message
                    });
                    match h.await {
                        Ok(m) => hex(m.as_bytes()),
                        Err(e) => format!("panic:{}", hex(e.to_string().as_bytes())),
                    }
                }
                ["xmlesc", t] => {
                    // helpers::xml_escape on any text (it runs on the telemetry reader task and in the provisioning deadline handler)
                    let text = if *t == "-" { String::new() } else { unhex_str(t) };
                    match guarded(move || crate::common::helpers::xml_escape(text)) {
                        Ok(v) => hex(v.as_bytes()),
                        Err(m) => format!("panic:{}", hex(m.as_bytes())),
                    }
                }
                ["utf16", ct, body, rest @ ..] => {
                    let ct = unhex_str(ct);
                    let body = if *body == "-" { vec![] } else { unhex(body) };
                    // optional: the offset at which the host's write is split (so that the first data frame is that short)
                    let split: Option<usize> = rest.first().and_then(|x| x.parse().ok());
                    let listener = std::net::TcpListener::bind("127.0.0.1:0").unwrap();
                    let port = listener.local_addr().unwrap().port();
                    std::thread::spawn(move || {
                        use std::io::{Read, Write};
                        if let Ok((mut s, _)) = listener.accept() {
                            let mut buf = [0u8; 2048];
                            let _ = s.read(&mut buf);
                            let head = format!("HTTP/1.1 200 OK\r\ncontent-type: {}\r\ncontent-length: {}\r\n\r\n", ct, body.len());
                            let _ = s.write_all(head.as_bytes());
                            match split {
                                Some(k) if k < body.len() => {
                                    let _ = s.flush();
                                    std::thread::sleep(std::time::Duration::from_millis(15));
                                    let _ = s.write_all(&body[..k]);
                                    let _ = s.flush();
                                    std::thread::sleep(std::time::Duration::from_millis(15));
                                    let _ = s.write_all(&body[k..]);
                                }
                                _ => {
                                    let _ = s.write_all(&body);
                                }
                            }
                        }
                    });
                    let h = tokio::spawn(async move {
                        let url: hyper::Uri = format!("http://127.0.0.1:{}/x", port).parse().unwrap();
                        crate::common::hyper_client::get::<serde_json::Value, _>(&url, &std::collections::HashMap::new(), None, None, |_| {}).await
                    });
                    match h.await {
                        Ok(Ok(v)) => format!("ok:{}", hex(v.to_string().as_bytes())),
                        Ok(Err(e)) => format!("err:{}", hex(e.to_string().as_bytes())),
                        Err(e) => format!("panic:{}", hex(e.to_string().as_bytes())),
                    }
                }
                _ => "bad-op".into(),
            };
            out.line(&r);
            out.flush();
        }
    });
    std::process::exit(0);
}
