// e2e engine: the REAL ProxyServer (listener 127.0.0.1:3080) with the REAL shared-state actors, in
// this process; a control loop on stdin injects what the kernel / key keeper would provide
// (attribution records through hook H1, rule documents and keys through the public setters, users
// through the user cache) and dumps observable state. Mock hosts and clients live in the Python
// driver, in the same private network namespace.
use super::util::*;
use crate::key_keeper::key::{AuthorizationItem, Key};
use crate::proxy::proxy_server::ProxyServer;
use crate::proxy::User;
use crate::redirector::{verif_hooks, AuditEntry};
use crate::shared_state::SharedState;
use std::io::BufRead;

fn ip_to_be_u32(ip: &str) -> u32 {
    let p: Vec<u32> = ip.split('.').map(|x| x.parse().unwrap()).collect();
    p[0] | (p[1] << 8) | (p[2] << 16) | (p[3] << 24)
}

fn summaries(v: Vec<proxy_agent_shared::proxy_agent_aggregate_status::ProxyConnectionSummary>) -> String {
    let mut items: Vec<String> = v
        .iter()
        .map(|s| {
            format!(
                "{}|{}|{}|{}|{}|{}|{}",
                hex(s.userName.as_bytes()),
                s.ip,
                s.port,
                hex(s.processFullPath.clone().unwrap_or_default().as_bytes()),
                hex(s.processCmdLine.as_bytes()),
                hex(s.responseStatus.as_bytes()),
                s.count
            )
        })
        .collect();
    items.sort();
    if items.is_empty() {
        "-".to_string()
    } else {
        items.join(",")
    }
}

pub fn run() {
    let level = std::env::var("VERIF_LOG_LEVEL").unwrap_or("Error".to_string());
    if let Ok(l) = level.parse::<proxy_agent_shared::logger::LoggerLevel>() {
        proxy_agent_shared::logger::logger_manager::set_logger_level(l);
    }
    std::panic::set_hook(Box::new(|info| {
        eprintln!("VERIF-PANIC {}", info);
        if let Ok(p) = std::env::var("VERIF_PANIC_LOG") {
            use std::io::Write;
            if let Ok(mut f) = std::fs::OpenOptions::new().create(true).append(true).open(p) {
                let _ = writeln!(f, "{}", info.to_string().replace('\n', " "));
            }
        }
    }));
    let rt = tokio::runtime::Builder::new_multi_thread()
        .enable_all()
        .worker_threads(4)
        .build()
        .unwrap();
    rt.block_on(async {
        let mut out = Out::open();
        verif_hooks::enable();
        let shared_state = SharedState::start_all();
        let kk = shared_state.get_key_keeper_shared_state();
        let st = shared_state.get_agent_status_shared_state();
        let ps = shared_state.get_proxy_server_shared_state();
        let port: u16 = std::env::var("VERIF_PROXY_PORT")
            .ok()
            .and_then(|p| p.parse().ok())
            .unwrap_or(crate::common::constants::PROXY_AGENT_PORT);
        let server = ProxyServer::new(port, &shared_state);
        tokio::spawn({
            let server = server.clone();
            async move { server.start().await }
        });
        // wait for the listener
        for _ in 0..200 {
            if std::net::TcpStream::connect(("127.0.0.1", port)).is_ok() {
                break;
            }
            tokio::time::sleep(std::time::Duration::from_millis(10)).await;
        }
        // the probe connection above was a direct (unattributed) one; forget its trace
        tokio::time::sleep(std::time::Duration::from_millis(30)).await;
        let _ = verif_hooks::take_trace();
        out.line("ready");
        out.flush();
        let stdin = std::io::stdin();
        for line in stdin.lock().lines() {
            let line = line.unwrap();
            let t: Vec<&str> = line.trim().split(' ').collect();
            let r: String = match t.as_slice() {
                ["rules", ep, doc] => {
                    let item: Option<AuthorizationItem> = if *doc == "none" {
                        None
                    } else {
                        match serde_json::from_str(&unhex_str(doc)) {
                            Ok(i) => Some(i),
                            Err(e) => {
                                out.line(&format!("json-error {}", hex(e.to_string().as_bytes())));
                                out.flush();
                                continue;
                            }
                        }
                    };
                    let r = match *ep {
                        "ws" => kk.set_wireserver_rules(item).await,
                        "imds" => kk.set_imds_rules(item).await,
                        "hostga" => kk.set_hostga_rules(item).await,
                        _ => Ok(()),
                    };
                    if r.is_ok() { "ok".into() } else { "err".into() }
                }
                ["key", "none"] => {
                    let _ = kk.clear_key().await;
                    "ok".into()
                }
                ["key", guid, key] => {
                    let json = format!(
                        "{{\"authorizationScheme\":\"Azure-HMAC-SHA256\",\"guid\":\"{}\",\"issued\":\"2024-01-01T00:00:00Z\",\"key\":\"{}\"}}",
                        unhex_str(guid),
                        unhex_str(key)
                    );
                    match serde_json::from_str::<Key>(&json) {
                        Ok(k) => {
                            let _ = kk.update_key(k).await;
                            "ok".into()
                        }
                        Err(_) => "json-error".into(),
                    }
                }
                ["user", id, name, rest @ ..] => {
                    let groups: Vec<String> = rest.iter().map(|g| unhex_str(g)).collect();
                    let _ = ps
                        .add_user(User {
                            logon_id: id.parse().unwrap(),
                            user_name: unhex_str(name),
                            user_groups: groups,
                        })
                        .await;
                    "ok".into()
                }
                ["audit", sport, logon, pid, admin, ip, dport] => {
                    let dport: u16 = dport.parse().unwrap();
                    verif_hooks::inject(
                        sport.parse().unwrap(),
                        AuditEntry {
                            logon_id: logon.parse().unwrap(),
                            process_id: pid.parse().unwrap(),
                            is_admin: admin.parse().unwrap(),
                            destination_ipv4: ip_to_be_u32(ip),
                            destination_port: dport.to_be(),
                        },
                    );
                    "ok".into()
                }
                ["auditclear"] => {
                    for p in verif_hooks::ports() {
                        let _ = verif_hooks::remove(p);
                    }
                    let _ = verif_hooks::take_trace();
                    "ok".into()
                }
                ["ports"] => {
                    let p = verif_hooks::ports();
                    if p.is_empty() { "-".into() } else { p.iter().map(|x| x.to_string()).collect::<Vec<_>>().join(",") }
                }
                ["trace"] => {
                    let tr = verif_hooks::take_trace();
                    if tr.is_empty() { "-".into() } else {
                        tr.iter().map(|(k, p, f)| format!("{}:{}:{}", k, p, if *f { 1 } else { 0 })).collect::<Vec<_>>().join(",")
                    }
                }
                ["failed"] => match st.get_all_failed_connection_summary().await {
                    Ok(v) => summaries(v),
                    Err(_) => "err".into(),
                },
                ["conns"] => match st.get_all_connection_summary().await {
                    Ok(v) => summaries(v),
                    Err(_) => "err".into(),
                },
                ["clear"] => {
                    let _ = st.clear_all_summary().await;
                    "ok".into()
                }
                ["keyinfo"] => {
                    let g = kk.get_current_key_guid().await.unwrap_or(None).unwrap_or("none".into());
                    g
                }
                ["prov", "call", what, rest @ ..] => {
                    let ct = shared_state.get_cancellation_token();
                    let tl = shared_state.get_telemetry_shared_state();
                    let pv = shared_state.get_provision_shared_state();
                    match (*what, rest) {
                        ("ready", ["r"]) => crate::provision::redirector_ready(ct, kk.clone(), tl, pv, st.clone()).await,
                        ("ready", ["k"]) => crate::provision::key_latched(ct, kk.clone(), tl, pv, st.clone()).await,
                        ("ready", ["l"]) => crate::provision::listener_started(ct, kk.clone(), tl, pv, st.clone()).await,
                        ("reset", _) => crate::provision::key_latch_ready_state_reset(pv).await,
                        ("timeup", _) => crate::provision::provision_timeup(None, pv, st.clone()).await,
                        _ => {}
                    }
                    "ok".into()
                }
                ["prov", "overlap", before] => {
                    // two writers of status.tag overlap: the deadline handler (with the subsystems in `before` ready) is held, by a slow
                    // status actor, at the last status it reads; meanwhile the remaining subsystems report ready, the last of them
                    // publishes; then the deadline handler goes on and publishes what it collected
                    let ct = shared_state.get_cancellation_token();
                    let tl = shared_state.get_telemetry_shared_state();
                    let pv = shared_state.get_provision_shared_state();
                    for f in before.chars() {
                        match f {
                            'r' => crate::provision::redirector_ready(ct.clone(), kk.clone(), tl.clone(), pv.clone(), st.clone()).await,
                            'k' => crate::provision::key_latched(ct.clone(), kk.clone(), tl.clone(), pv.clone(), st.clone()).await,
                            'l' => crate::provision::listener_started(ct.clone(), kk.clone(), tl.clone(), pv.clone(), st.clone()).await,
                            _ => {}
                        }
                    }
                    use crate::provision::ProvisionFlags;
                    let have = pv.get_state().await.unwrap_or(ProvisionFlags::NONE);
                    let missing: Vec<char> = [('r', ProvisionFlags::REDIRECTOR_READY), ('k', ProvisionFlags::KEY_LATCH_READY), ('l', ProvisionFlags::LISTENER_READY)]
                        .iter().filter(|(_, f)| !have.contains(f.clone())).map(|(c, _)| *c).collect();
                    if missing.is_empty() {
                        "nothing-missing".to_string()
                    } else {
                    // the status actor is held once, at the first status read after this point: the deadline handler's
                    let mut held = false;
                    crate::shared_state::verif_actor::set_hook(Some(Box::new(move |actor, kind| {
                        if actor == "agent_status" && kind == "other" && !held {
                            held = true;
                            std::thread::sleep(std::time::Duration::from_millis(400));
                        }
                    })));
                    let (pv1, st1) = (pv.clone(), st.clone());
                    let w1 = tokio::spawn(async move { crate::provision::provision_timeup(None, pv1, st1).await });
                    tokio::time::sleep(std::time::Duration::from_millis(120)).await;
                    for f in missing {
                        match f {
                            'r' => crate::provision::redirector_ready(ct.clone(), kk.clone(), tl.clone(), pv.clone(), st.clone()).await,
                            'k' => crate::provision::key_latched(ct.clone(), kk.clone(), tl.clone(), pv.clone(), st.clone()).await,
                            _ => crate::provision::listener_started(ct.clone(), kk.clone(), tl.clone(), pv.clone(), st.clone()).await,
                        }
                    }
                    let second_done_first = !w1.is_finished();
                    let _ = w1.await;
                    crate::shared_state::verif_actor::set_hook(None);
                    format!("{}", if second_done_first { "overlapped" } else { "sequential" })
                    }
                }
                ["prov", "msg", what, rest @ ..] => {
                    use crate::provision::ProvisionFlags;
                    let pv = shared_state.get_provision_shared_state();
                    let flag = |s: &str| match s {
                        "r" => ProvisionFlags::REDIRECTOR_READY,
                        "k" => ProvisionFlags::KEY_LATCH_READY,
                        _ => ProvisionFlags::LISTENER_READY,
                    };
                    let show = |f: ProvisionFlags| {
                        format!(
                            "{}{}{}.",
                            if f.contains(ProvisionFlags::REDIRECTOR_READY) { "r" } else { "" },
                            if f.contains(ProvisionFlags::KEY_LATCH_READY) { "k" } else { "" },
                            if f.contains(ProvisionFlags::LISTENER_READY) { "l" } else { "" }
                        )
                    };
                    match (*what, rest) {
                        ("update", [f]) => pv.update_one_state(flag(f)).await.map(show).unwrap_or("err".into()),
                        ("reset", [f]) => pv.reset_one_state(flag(f)).await.map(show).unwrap_or("err".into()),
                        ("getstate", _) => pv.get_state().await.map(show).unwrap_or("err".into()),
                        ("setfin", [b]) => pv.set_provision_finished(*b == "1").await.map(|t| t.to_string()).unwrap_or("err".into()),
                        ("getfin", _) => pv.get_provision_finished().await.map(|t| t.to_string()).unwrap_or("err".into()),
                        _ => "bad-op".into(),
                    }
                }
                ["prov", "trace"] => {
                    let tr = crate::shared_state::verif_actor::take_trace();
                    let v: Vec<String> = tr.iter().filter(|(a, _)| *a == "provision").map(|(_, k)| k.to_string()).collect();
                    if v.is_empty() { "-".into() } else { v.join(",") }
                }
                ["chan", state] => {
                    let _ = kk.update_current_secure_channel_state(unhex_str(state)).await;
                    "ok".into()
                }
                ["sign", what, ip, port] => {
                    // the agent's own signed host calls, through the real clients
                    let port: u16 = port.parse().unwrap();
                    let r = match *what {
                        "goalstate" => crate::host_clients::wire_server_client::WireServerClient::new(ip, port, kk.clone())
                            .get_goalstate().await.map(|_| ()).map_err(|e| e.to_string()),
                        "sharedconfig" => crate::host_clients::wire_server_client::WireServerClient::new(ip, port, kk.clone())
                            .get_shared_config(format!("http://{}:{}/machine/x?comp=config&type=sharedConfig&incarnation=1", ip, port))
                            .await.map(|_| ()).map_err(|e| e.to_string()),
                        "imds" => crate::host_clients::imds_client::ImdsClient::new(ip, port, kk.clone())
                            .get_imds_instance_info().await.map(|_| ()).map_err(|e| e.to_string()),
                        _ => Err("bad".to_string()),
                    };
                    match r { Ok(()) => "ok".into(), Err(e) => format!("err:{}", hex(e.as_bytes())) }
                }
                ["khook", nth, guid, key] => {
                    // on the n-th GetKey message handled by the key-keeper actor from now on: latch another key
                    // (sent from another task while the actor is held for a moment, so that it is queued before the signer's next read)
                    let nth: usize = nth.parse().unwrap();
                    let json = format!(
                        "{{\"authorizationScheme\":\"Azure-HMAC-SHA256\",\"guid\":\"{}\",\"issued\":\"2024-01-01T00:00:00Z\",\"key\":\"{}\"}}",
                        unhex_str(guid), unhex_str(key));
                    let clear = *guid == "-";
                    let kk2 = kk.clone();
                    let handle = tokio::runtime::Handle::current();
                    let mut seen = 0usize;
                    crate::shared_state::verif_actor::set_hook(Some(Box::new(move |actor, kind| {
                        if actor == "key_keeper" && kind == "GetKey" {
                            seen += 1;
                            if seen == nth {
                                let kk3 = kk2.clone();
                                let json = json.clone();
                                handle.spawn(async move {
                                    if clear {
                                        let _ = kk3.clear_key().await;
                                    } else if let Ok(k) = serde_json::from_str::<Key>(&json) {
                                        let _ = kk3.update_key(k).await;
                                    }
                                });
                                std::thread::sleep(std::time::Duration::from_millis(40));
                            }
                        }
                    })));
                    "ok".into()
                }
                ["floodactor", kind, n, after_us] => {
                    // when the key-keeper state actor next handles a message of the given kind: `n` readers (what request handlers
                    // are) send it a message each while it is held for a moment, so that its mailbox is full behind it; from then on
                    // it is slow by `after_us` per message (the readers keep it full for a while)
                    let kind_w = kind.to_string();
                    let n: usize = n.parse().unwrap();
                    let after_us: u64 = after_us.parse().unwrap();
                    let kk2 = kk.clone();
                    let handle = tokio::runtime::Handle::current();
                    let mut fired = false;
                    crate::shared_state::verif_actor::set_hook(Some(Box::new(move |actor, kind| {
                        if actor == "key_keeper" {
                            if !fired && kind == kind_w {
                                fired = true;
                                for _ in 0..n {
                                    let kk3 = kk2.clone();
                                    handle.spawn(async move {
                                        let _ = kk3.get_current_key_guid().await;
                                    });
                                }
                                std::thread::sleep(std::time::Duration::from_millis(400));
                            } else if fired {
                                std::thread::sleep(std::time::Duration::from_micros(after_us));
                            }
                        }
                    })));
                    "ok".into()
                }
                ["sumburst", n] => {
                    // n tasks report one identical denial each to the real status actor, all at once (what n request handlers do)
                    let n: usize = n.parse().unwrap();
                    let mut hs = vec![];
                    for i in 0..n {
                        let st2 = st.clone();
                        hs.push(tokio::spawn(async move {
                            let mk = || crate::proxy::proxy_summary::ProxySummary {
                                id: i as u128,
                                method: "GET".into(),
                                url: "/metadata/instance".into(),
                                clientIp: "127.0.0.1".into(),
                                clientPort: 1,
                                ip: "169.254.169.254".into(),
                                port: 80,
                                userId: 1000,
                                userName: "burst-user".into(),
                                userGroups: vec![],
                                processFullPath: std::path::PathBuf::from("/bin/burst"),
                                processCmdLine: "burst".into(),
                                runAsElevated: false,
                                responseStatus: "403 Forbidden".into(),
                                elapsedTime: 0,
                                errorDetails: String::new(),
                            };
                            let _ = st2.add_one_failed_connection_summary(mk()).await;
                            let _ = st2.add_one_connection_summary(mk()).await;
                        }));
                    }
                    for h in hs {
                        let _ = h.await;
                    }
                    let count = |v: Vec<proxy_agent_shared::proxy_agent_aggregate_status::ProxyConnectionSummary>| -> u64 {
                        v.iter().filter(|s| s.userName == "burst-user").map(|s| s.count).sum()
                    };
                    format!(
                        "{} {}",
                        st.get_all_failed_connection_summary().await.map(count).unwrap_or(0),
                        st.get_all_connection_summary().await.map(count).unwrap_or(0)
                    )
                }
                ["pqhook", f] => {
                    // on the next read a provisioning query makes (GetProvisionFinished / GetState): a readiness report from another
                    // task arrives while the actor is held for a moment, so that it is handled before the query's next read
                    let what = f.to_string();
                    let ct = shared_state.get_cancellation_token();
                    let tl = shared_state.get_telemetry_shared_state();
                    let pv = shared_state.get_provision_shared_state();
                    let kk2 = kk.clone();
                    let st2 = st.clone();
                    let handle = tokio::runtime::Handle::current();
                    let mut fired = false;
                    crate::shared_state::verif_actor::set_hook(Some(Box::new(move |actor, kind| {
                        if actor == "provision" && !fired && (kind == "GetProvisionFinished" || kind == "GetState") {
                            fired = true;
                            let (ct, tl, pv, kk3, st3, what) = (ct.clone(), tl.clone(), pv.clone(), kk2.clone(), st2.clone(), what.clone());
                            handle.spawn(async move {
                                match what.as_str() {
                                    "r" => crate::provision::redirector_ready(ct, kk3, tl, pv, st3).await,
                                    "k" => crate::provision::key_latched(ct, kk3, tl, pv, st3).await,
                                    _ => crate::provision::listener_started(ct, kk3, tl, pv, st3).await,
                                }
                            });
                            std::thread::sleep(std::time::Duration::from_millis(40));
                        }
                    })));
                    "ok".into()
                }
                ["pqhook2", nth, ready, reset] => {
                    // at the nth read of the flags (GetState) from now on, while the actor is held: first `ready` is reported, then `reset`
                    // is cleared - two messages queued in that order before the actor goes on, so both are handled before the next read
                    use crate::provision::ProvisionFlags;
                    let nth: usize = nth.parse().unwrap();
                    let flag = |s: &str| match s {
                        "r" => ProvisionFlags::REDIRECTOR_READY,
                        "k" => ProvisionFlags::KEY_LATCH_READY,
                        _ => ProvisionFlags::LISTENER_READY,
                    };
                    let (fa, fb) = (flag(ready), flag(reset));
                    let pv = shared_state.get_provision_shared_state();
                    let handle = tokio::runtime::Handle::current();
                    let mut seen = 0usize;
                    crate::shared_state::verif_actor::set_hook(Some(Box::new(move |actor, kind| {
                        if actor == "provision" && kind == "GetState" {
                            seen += 1;
                            if seen == nth {
                                let (pv1, pv2, fa, fb) = (pv.clone(), pv.clone(), fa.clone(), fb.clone());
                                handle.spawn(async move {
                                    // polled in this order: the first message is in the mailbox before the second
                                    let _ = tokio::join!(pv1.update_one_state(fa), pv2.reset_one_state(fb));
                                });
                                std::thread::sleep(std::time::Duration::from_millis(150));
                            }
                        }
                    })));
                    "ok".into()
                }
                ["slowall", us] => {
                    // a schedule in which every actor is slow: each message any of them handles takes `us` microseconds longer
                    let us: u64 = us.parse().unwrap();
                    crate::shared_state::verif_actor::set_hook(Some(Box::new(move |_actor, _kind| {
                        std::thread::sleep(std::time::Duration::from_micros(us));
                    })));
                    "ok".into()
                }
                ["stallactor", which, kind, stall_ms, after_us] => {
                    // the named actor stalls once, for `stall_ms`, when it handles its next message of the given kind (its mailbox
                    // fills up behind it under load), and is slow by `after_us` per message from then on
                    let which = which.to_string();
                    let kind_w = kind.to_string();
                    let stall_ms: u64 = stall_ms.parse().unwrap();
                    let after_us: u64 = after_us.parse().unwrap();
                    let mut stalled = false;
                    crate::shared_state::verif_actor::set_hook(Some(Box::new(move |actor, kind| {
                        if actor == which {
                            if !stalled && kind == kind_w {
                                stalled = true;
                                std::thread::sleep(std::time::Duration::from_millis(stall_ms));
                            } else if stalled {
                                std::thread::sleep(std::time::Duration::from_micros(after_us));
                            }
                        }
                    })));
                    "ok".into()
                }
                ["slowactor", which, us] => {
                    // one actor is slow (each message it handles takes `us` microseconds longer): its mailbox fills up under load
                    let us: u64 = us.parse().unwrap();
                    let which = which.to_string();
                    crate::shared_state::verif_actor::set_hook(Some(Box::new(move |actor, _kind| {
                        if actor == which {
                            std::thread::sleep(std::time::Duration::from_micros(us));
                        }
                    })));
                    "ok".into()
                }
                ["shook", us] => {
                    // a schedule in which the status actor is a slow consumer of connection summaries: each takes `us` microseconds longer
                    let us: u64 = us.parse().unwrap();
                    crate::shared_state::verif_actor::set_hook(Some(Box::new(move |actor, kind| {
                        if actor == "agent_status" && kind != "other" {
                            std::thread::sleep(std::time::Duration::from_micros(us));
                        }
                    })));
                    "ok".into()
                }
                ["phook", ms] => {
                    // a schedule in which the provision actor is slow: every message it handles takes `ms` milliseconds longer
                    let ms: u64 = ms.parse().unwrap();
                    crate::shared_state::verif_actor::set_hook(Some(Box::new(move |actor, _kind| {
                        if actor == "provision" {
                            std::thread::sleep(std::time::Duration::from_millis(ms));
                        }
                    })));
                    "ok".into()
                }
                ["actorkill", which] => {
                    // the named actor dies while handling its next message (a panic inside its task): its channel is closed from then
                    // on and nobody gets an answer from it any more
                    let which = which.to_string();
                    crate::shared_state::verif_actor::set_hook(Some(Box::new(move |actor, _kind| {
                        if actor == which {
                            panic!("verif: actor {} killed", which);
                        }
                    })));
                    "ok".into()
                }
                ["cancel"] => {
                    // the agent's shutdown signal; the process (and this control loop) stays, as do connections already accepted
                    shared_state.cancel_cancellation_token();
                    "ok".into()
                }
                ["khook", "off"] => {
                    crate::shared_state::verif_actor::set_hook(None);
                    "ok".into()
                }
                ["ktrace"] => {
                    let tr = crate::shared_state::verif_actor::take_trace();
                    let v: Vec<String> = tr.iter().filter(|(a, _)| *a == "key_keeper").map(|(_, k)| k.to_string()).collect();
                    if v.is_empty() { "-".into() } else { v.join(",") }
                }
                ["sinks", logdir, eventsdir, statusdir, status_ms] => {
                    // C12: the real file loggers (as service.rs setup_loggers builds them), the real event logger and the real
                    // status task, all writing under scratch directories
                    use proxy_agent_shared::logger::rolling_logger::RollingLogger;
                    let log_folder = std::path::PathBuf::from(unhex_str(logdir));
                    let mut loggers = std::collections::HashMap::new();
                    loggers.insert(
                        crate::common::logger::AGENT_LOGGER_KEY.to_string(),
                        RollingLogger::create_new(log_folder.clone(), "ProxyAgent.log".to_string(), crate::common::constants::MAX_LOG_FILE_SIZE, crate::common::constants::MAX_LOG_FILE_COUNT as u16),
                    );
                    loggers.insert(
                        crate::proxy::proxy_connection::ConnectionLogger::CONNECTION_LOGGER_KEY.to_string(),
                        RollingLogger::create_new(log_folder.clone(), "ProxyAgent.Connection.log".to_string(), crate::common::constants::MAX_LOG_FILE_SIZE, crate::common::constants::MAX_LOG_FILE_COUNT as u16),
                    );
                    proxy_agent_shared::logger::logger_manager::set_loggers(loggers, crate::common::logger::AGENT_LOGGER_KEY.to_string());
                    let events_dir = std::path::PathBuf::from(unhex_str(eventsdir));
                    let st2 = st.clone();
                    tokio::spawn(async move {
                        proxy_agent_shared::telemetry::event_logger::start(events_dir, std::time::Duration::from_millis(50), 1000, move |status: String| {
                            let st3 = st2.clone();
                            async move {
                                let _ = st3.set_module_status_message(status, crate::shared_state::agent_status_wrapper::AgentStatusModule::TelemetryLogger).await;
                            }
                        })
                        .await;
                    });
                    let task = crate::proxy_agent_status::ProxyAgentStatusTask::new(
                        std::time::Duration::from_millis(status_ms.parse().unwrap()),
                        std::path::PathBuf::from(unhex_str(statusdir)),
                        shared_state.get_cancellation_token(),
                        kk.clone(),
                        st.clone(),
                    );
                    tokio::spawn(async move { task.start().await });
                    "ok".into()
                }
                ["keeper", ip, port, keydir, logdir, interval_ms] => {
                    // C12: the real key keeper loop in this process, against the mock host
                    let base: hyper::Uri = format!("http://{}:{}/", ip, port).parse().unwrap();
                    let keeper = crate::key_keeper::KeyKeeper::new(
                        base,
                        std::path::PathBuf::from(unhex_str(keydir)),
                        std::path::PathBuf::from(unhex_str(logdir)),
                        std::time::Duration::from_millis(interval_ms.parse().unwrap()),
                        &shared_state,
                    );
                    tokio::spawn(async move { keeper.poll_secure_channel_status().await });
                    "ok".into()
                }
                ["notify"] => {
                    let _ = kk.notify().await;
                    "ok".into()
                }
                ["kstate"] => {
                    // guid and state only: the key value is never printed on this channel
                    format!(
                        "guid={} chan={} haskey={}",
                        hex(kk.get_current_key_guid().await.unwrap_or(None).unwrap_or_default().as_bytes()),
                        hex(kk.get_current_secure_channel_state().await.unwrap_or_default().as_bytes()),
                        if kk.get_current_key_value().await.unwrap_or(None).is_some() { 1 } else { 0 }
                    )
                }
                ["now"] => proxy_agent_shared::misc_helpers::get_date_time_unix_nano().to_string(),
                ["quit"] => {
                    out.line("bye");
                    out.flush();
                    break;
                }
                _ => "bad-op".into(),
            };
            out.line(&r);
            out.flush();
        }
        shared_state.cancel_cancellation_token();
    });
    std::process::exit(0);
}
