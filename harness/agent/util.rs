use std::io::{BufRead, Write};

pub fn unhex(s: &str) -> Vec<u8> {
    if s == "-" {
        return vec![];
    }
    (0..s.len() / 2)
        .map(|i| u8::from_str_radix(&s[2 * i..2 * i + 2], 16).expect("hex"))
        .collect()
}

pub fn unhex_str(s: &str) -> String {
    String::from_utf8(unhex(s)).expect("utf8")
}

pub fn hex(b: &[u8]) -> String {
    if b.is_empty() {
        return "-".to_string();
    }
    b.iter().map(|x| format!("{:02x}", x)).collect()
}

pub struct Out {
    w: std::io::BufWriter<std::fs::File>,
}

impl Out {
    pub fn open() -> Out {
        let p = std::env::var("VERIF_OUT").expect("VERIF_OUT");
        Out {
            w: std::io::BufWriter::new(std::fs::File::create(p).expect("create VERIF_OUT")),
        }
    }
    pub fn line(&mut self, s: &str) {
        writeln!(self.w, "{}", s).unwrap();
    }
    pub fn flush(&mut self) {
        self.w.flush().unwrap();
    }
}

pub fn stdin_lines() -> Vec<String> {
    std::io::stdin().lock().lines().map(|l| l.unwrap()).collect()
}

/// run `f`, mapping a panic to Err(message) (panic = observable outcome for C13)
pub fn guarded<T>(f: impl FnOnce() -> T) -> Result<T, String> {
    match std::panic::catch_unwind(std::panic::AssertUnwindSafe(f)) {
        Ok(v) => Ok(v),
        Err(e) => {
            let msg = if let Some(s) = e.downcast_ref::<&str>() {
                s.to_string()
            } else if let Some(s) = e.downcast_ref::<String>() {
                s.clone()
            } else {
                "panic".to_string()
            };
            Err(msg)
        }
    }
}
