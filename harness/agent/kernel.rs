// C06 in the real kernel: the agent's own BpfObject (aya) loads the program built from the unmodified ebpf_cgroup.c, attaches
// cgroup/connect4 to a test cgroup, and maintains the real kernel maps through the agent's own methods.
use super::util::*;
use crate::redirector::BpfObject;
use aya::maps::{HashMap, MapData};
use std::path::PathBuf;

fn words(v: &[u32]) -> String {
    v.iter().map(|x| x.to_string()).collect::<Vec<_>>().join(",")
}

fn dump_map<const K: usize, const V: usize>(bpf: &BpfObject, name: &str) -> String {
    let map = match bpf.get_bpf().map(name) {
        Some(m) => m,
        None => return format!("{}=missing", name),
    };
    let m: HashMap<&MapData, [u32; K], [u32; V]> = match HashMap::try_from(map) {
        Ok(m) => m,
        Err(e) => return format!("{}=layout-mismatch:{}", name, hex(e.to_string().as_bytes())),
    };
    let mut ents: Vec<(Vec<u32>, Vec<u32>)> = m.iter().filter_map(|kv| kv.ok()).map(|(k, v)| (k.to_vec(), v.to_vec())).collect();
    ents.sort();
    format!("{}{}", name, ents.iter().map(|(k, v)| format!(" [{}->{}]", words(k), words(v))).collect::<String>())
}

pub fn run() {
    let mut out = Out::open();
    let mut bpf: Option<BpfObject> = None;
    use std::io::BufRead;
    for line in std::io::stdin().lock().lines() {
        let line = line.unwrap();
        let t: Vec<&str> = line.trim().split(' ').collect();
        let r: String = match t.as_slice() {
            ["load", path] => match BpfObject::from_ebpf_file(&PathBuf::from(unhex_str(path))) {
                Ok(b) => {
                    bpf = Some(b);
                    "ok".into()
                }
                Err(e) => format!("err {}", hex(e.to_string().as_bytes())),
            },
            ["attach", cg] => match bpf.as_mut().unwrap().attach_cgroup_program(PathBuf::from(unhex_str(cg))) {
                Ok(()) => "ok".into(),
                Err(e) => format!("err {}", hex(e.to_string().as_bytes())),
            },
            ["kprobe"] => match bpf.as_mut().unwrap().attach_kprobe_program() {
                Ok(()) => "ok".into(),
                // the verifier's verdict on the kprobe program is in the kind of error: loading comes before attaching
                Err(crate::common::error::Error::Bpf(crate::common::error::BpfErrorType::AttachBpfProgram(_, e))) => format!("loaded-not-attached {}", hex(e.as_bytes())),
                Err(e) => format!("err {}", hex(e.to_string().as_bytes())),
            },
            ["policy", ip, port, lport] => match bpf.as_mut().unwrap().update_policy_elem_bpf_map("verif", lport.parse().unwrap(), ip.parse().unwrap(), port.parse().unwrap()) {
                Ok(()) => "ok".into(),
                Err(e) => format!("err {}", hex(e.to_string().as_bytes())),
            },
            ["redirect", ip, port, lport, on] => {
                bpf.as_mut().unwrap().update_redirect_policy(ip.parse().unwrap(), port.parse().unwrap(), lport.parse().unwrap(), *on == "1");
                "ok".into()
            }
            ["skip", pid] => match bpf.as_mut().unwrap().update_skip_process_map(pid.parse().unwrap()) {
                Ok(()) => "ok".into(),
                Err(e) => format!("err {}", hex(e.to_string().as_bytes())),
            },
            ["putaudit", lport, a, b, c, d, e] => {
                // what the kprobe would write (it cannot be attached in a kernel built without kprobes): a record under a source
                // port, put into the real kernel map through its file descriptor
                let key = crate::redirector::verif_encoders::audit_key(lport.parse().unwrap());
                let val: [u32; 5] = [a.parse().unwrap(), b.parse().unwrap(), c.parse().unwrap(), d.parse().unwrap(), e.parse().unwrap()];
                match bpf.as_ref().unwrap().get_bpf().map("audit_map") {
                    Some(aya::maps::Map::LruHashMap(md)) | Some(aya::maps::Map::HashMap(md)) => {
                        use std::os::fd::{AsFd, AsRawFd};
                        let fd = md.fd().as_fd().as_raw_fd();
                        #[repr(C)]
                        struct Attr {
                            map_fd: u32,
                            pad: u32,
                            key: u64,
                            value: u64,
                            flags: u64,
                        }
                        let attr = Attr { map_fd: fd as u32, pad: 0, key: key.as_ptr() as u64, value: val.as_ptr() as u64, flags: 0 };
                        let rc = unsafe { libc::syscall(libc::SYS_bpf, 2 /* BPF_MAP_UPDATE_ELEM */, &attr as *const Attr, std::mem::size_of::<Attr>()) };
                        if rc == 0 { "ok".into() } else { format!("err {}", std::io::Error::last_os_error()) }
                    }
                    _ => "err no-audit-map".into(),
                }
            }
            ["lookup", lport] => match bpf.as_ref().unwrap().lookup_audit(lport.parse().unwrap()) {
                Ok(en) => format!("{} {} {} {} {}", en.logon_id, en.process_id, en.is_admin, en.destination_ipv4_addr(), en.destination_port_in_host_byte_order()),
                Err(_) => "none".into(),
            },
            ["rmaudit", lport] => match bpf.as_mut().unwrap().remove_audit_map_entry(lport.parse().unwrap()) {
                Ok(()) => "ok".into(),
                Err(_) => "err".into(),
            },
            ["contend", lport, rounds, readers] => {
                // C09 in the running kernel: the three redirect policies are switched through the agent's own update_*_redirect_policy
                // (shared redirector state, the object behind its mutex) while proxy connections look their callers up in the audit map
                // (redirector::lookup_audit, the same mutex); after every switch the kernel policy map must say what was asked for
                use std::sync::atomic::{AtomicBool, AtomicU64, Ordering};
                use std::sync::{Arc, Mutex};
                let lport: u16 = lport.parse().unwrap();
                let rounds: u32 = rounds.parse().unwrap();
                let readers: u32 = readers.parse().unwrap();
                let obj = Arc::new(Mutex::new(bpf.take().unwrap()));
                let rt = tokio::runtime::Builder::new_multi_thread().enable_all().worker_threads(4).build().unwrap();
                let obj2 = obj.clone();
                let res = rt.block_on(async move {
                    let rs = crate::shared_state::redirector_wrapper::RedirectorSharedState::start_new();
                    let _ = rs.update_bpf_object(obj2.clone()).await;
                    let _ = rs.set_local_port(lport).await;
                    let stop = Arc::new(AtomicBool::new(false));
                    let lookups = Arc::new(AtomicU64::new(0));
                    let mut hs = vec![];
                    for i in 0..readers {
                        let (rs, stop, lookups) = (rs.clone(), stop.clone(), lookups.clone());
                        hs.push(tokio::spawn(async move {
                            let mut port = 20000u16 + i as u16;
                            while !stop.load(Ordering::Relaxed) {
                                let _ = crate::redirector::lookup_audit(port, &rs).await;
                                port = 20000 + (port.wrapping_add(7) % 20000);
                                lookups.fetch_add(1, Ordering::Relaxed);
                            }
                        }));
                    }
                    let mut wrong: Vec<String> = vec![];
                    for n in 0..rounds {
                        let on = n % 2 == 0;
                        match n % 3 {
                            0 => crate::redirector::update_wire_server_redirect_policy(on, rs.clone()).await,
                            1 => crate::redirector::update_imds_redirect_policy(on, rs.clone()).await,
                            _ => crate::redirector::update_hostga_redirect_policy(on, rs.clone()).await,
                        }
                        let (ip, port) = match n % 3 {
                            0 => (crate::common::constants::WIRE_SERVER_IP_NETWORK_BYTE_ORDER, crate::common::constants::WIRE_SERVER_PORT),
                            1 => (crate::common::constants::IMDS_IP_NETWORK_BYTE_ORDER, crate::common::constants::IMDS_PORT),
                            _ => (crate::common::constants::GA_PLUGIN_IP_NETWORK_BYTE_ORDER, crate::common::constants::GA_PLUGIN_PORT),
                        };
                        let dump = dump_map::<6, 6>(&obj2.lock().unwrap(), "policy_map");
                        let present = dump.contains(&format!("[{},0,0,0,{},", ip, (port as u16).to_be() as u32));
                        if present != on && wrong.len() < 4 {
                            wrong.push(format!("{}:{}:{}", n, ["wireserver", "imds", "hostga"][(n % 3) as usize], if on { "on" } else { "off" }));
                        }
                    }
                    stop.store(true, Ordering::Relaxed);
                    for h in hs {
                        let _ = h.await;
                    }
                    let _ = rs.clear_bpf_object().await;
                    format!("lookups={} wrong={}", lookups.load(Ordering::Relaxed), if wrong.is_empty() { "-".to_string() } else { wrong.join(",") })
                });
                drop(rt);
                match Arc::try_unwrap(obj) {
                    Ok(m) => {
                        bpf = Some(m.into_inner().unwrap_or_else(|e| e.into_inner()));
                        res
                    }
                    Err(_) => "err object-still-shared".into(),
                }
            }
            ["attachagent", bindir, lport] => {
                // the agent's own attach step (Redirector::attach_bpf_prog: both programs, in its order, at the cgroup2 mount it looks
                // up itself) with a stand-in `findmnt` first on PATH that names the test cgroup
                std::env::set_var("PATH", format!("{}:{}", unhex_str(bindir), std::env::var("PATH").unwrap_or_default()));
                let lport: u16 = lport.parse().unwrap();
                let rt = tokio::runtime::Builder::new_multi_thread().enable_all().worker_threads(2).build().unwrap();
                let b = bpf.as_mut().unwrap();
                let r = rt.block_on(async {
                    let ss = crate::shared_state::SharedState::start_all();
                    let red = crate::redirector::Redirector::new(lport, &ss);
                    red.attach_bpf_prog(b)
                });
                drop(rt);
                match r {
                    Ok(()) => "ok".into(),
                    Err(e) => format!("err {}", hex(e.to_string().as_bytes())),
                }
            }
            ["dump"] => {
                let b = bpf.as_ref().unwrap();
                format!("{} | {} | {} | {}", dump_map::<6, 6>(b, "policy_map"), dump_map::<1, 1>(b, "skip_process_map"), dump_map::<2, 5>(b, "audit_map"),
                        dump_map::<2, 6>(b, "local_map"))
            }
            _ => "bad-op".into(),
        };
        out.line(&r);
        out.flush();
    }
    out.flush();
}
