// C02: the real serde_json -> AuthorizationItem -> ComputedAuthorizationItem -> is_allowed path.
// line: rbac <hex json item> <hex uri> <hex user> <n> <hex group>*n <hex process name> <hex exe path>
use super::util::*;
use crate::key_keeper::key::AuthorizationItem;
use crate::proxy::authorization_rules::ComputedAuthorizationItem;
use crate::proxy::proxy_connection::ConnectionLogger;
use crate::proxy::Claims;

pub fn run() {
    proxy_agent_shared::logger::logger_manager::set_logger_level(proxy_agent_shared::logger::LoggerLevel::Error);
    let mut out = Out::open();
    for line in stdin_lines() {
        let t: Vec<&str> = line.trim().split(' ').collect();
        if t.len() >= 8 && t[0] == "authz" {
            // authz <ip> <port> <elevated> <none|hex json item> <hex uri> <hex user> <n> <hex group>*n <hex proc> <hex exe>
            let ip = t[1].to_string();
            let port: u16 = t[2].parse().unwrap();
            let elevated = t[3] == "1";
            let rules = if t[4] == "none" {
                None
            } else {
                match serde_json::from_str::<AuthorizationItem>(&unhex_str(t[4])) {
                    Ok(i) => Some(ComputedAuthorizationItem::from_authorization_item(i)),
                    Err(_) => {
                        out.line("json-error");
                        continue;
                    }
                }
            };
            let uri: hyper::Uri = match unhex_str(t[5]).parse() {
                Ok(u) => u,
                Err(_) => {
                    out.line("uri-error");
                    continue;
                }
            };
            let n: usize = t[7].parse().unwrap();
            let claims = Claims {
                userId: 1000,
                userName: unhex_str(t[6]),
                userGroups: (0..n).map(|i| unhex_str(t[8 + i])).collect(),
                processId: 4242,
                processName: unhex_str(t[8 + n]).into(),
                processFullPath: unhex_str(t[9 + n]).into(),
                processCmdLine: "cmd".to_string(),
                runAsElevated: elevated,
                clientIp: "127.0.0.1".to_string(),
                clientPort: 0,
            };
            let mut logger = ConnectionLogger::new(0, 0);
            let r = crate::proxy::proxy_authorizer::authorize(ip, port, &mut logger, uri, claims, rules);
            use crate::proxy::proxy_authorizer::AuthorizeResult;
            out.line(if r == AuthorizeResult::Ok {
                "ok"
            } else if r == AuthorizeResult::OkWithAudit {
                "audit"
            } else {
                "forbidden"
            });
            continue;
        }
        if t.len() < 4 || t[0] != "rbac" {
            out.line("bad-op");
            continue;
        }
        let json = unhex_str(t[1]);
        let uri_s = unhex_str(t[2]);
        let user = unhex_str(t[3]);
        let n: usize = t[4].parse().unwrap();
        let groups: Vec<String> = (0..n).map(|i| unhex_str(t[5 + i])).collect();
        let pname = unhex_str(t[5 + n]);
        let exe = unhex_str(t[6 + n]);
        // the production path: the item arrives inside a key status document and is handed on by KeyStatus::get_imds_rules()
        let ks_json = format!(
            r#"{{"authorizationScheme":"Azure-HMAC-SHA256","keyDeliveryMethod":"http","keyGuid":null,"requiredClaimsHeaderPairs":null,"secureChannelEnabled":true,"version":"2.0","authorizationRules":{{"imds":{}}}}}"#,
            json
        );
        let item: AuthorizationItem = match serde_json::from_str::<crate::key_keeper::key::KeyStatus>(&ks_json).map(|s| s.get_imds_rules()) {
            Ok(Some(i)) => i,
            _ => {
                out.line("json-error");
                continue;
            }
        };
        let uri: hyper::Uri = match uri_s.parse() {
            Ok(u) => u,
            Err(_) => {
                out.line("uri-error");
                continue;
            }
        };
        let claims = Claims {
            userId: 1000,
            userName: user,
            userGroups: groups,
            processId: 4242,
            processName: pname.into(),
            processFullPath: exe.into(),
            processCmdLine: "cmd".to_string(),
            runAsElevated: false,
            clientIp: "127.0.0.1".to_string(),
            clientPort: 0,
        };
        let r = guarded(move || {
            let computed = ComputedAuthorizationItem::from_authorization_item(item);
            let mut logger = ConnectionLogger::new(0, 0);
            computed.is_allowed(&mut logger, uri, claims)
        });
        match r {
            Ok(true) => out.line("allow"),
            Ok(false) => out.line("deny"),
            Err(m) => out.line(&format!("panic:{}", hex(m.as_bytes()))),
        }
    }
    out.flush();
}
