// C18: the REAL EventReader over a directory of event files, uploading to a mock host.
// env: VERIF_EVENT_DIR, VERIF_HOST_IP, VERIF_HOST_PORT, VERIF_INTERVAL_MS. Prints machine facts, then waits for "quit".
use super::util::*;
use crate::shared_state::SharedState;
use crate::telemetry::event_reader::EventReader;
use std::io::BufRead;

pub fn run() {
    proxy_agent_shared::logger::logger_manager::set_logger_level(proxy_agent_shared::logger::LoggerLevel::Error);
    let rt = tokio::runtime::Builder::new_multi_thread().enable_all().worker_threads(2).build().unwrap();
    rt.block_on(async {
        let mut out = Out::open();
        let dir = std::path::PathBuf::from(std::env::var("VERIF_EVENT_DIR").unwrap());
        let ip = std::env::var("VERIF_HOST_IP").unwrap();
        let port: u16 = std::env::var("VERIF_HOST_PORT").unwrap().parse().unwrap();
        let interval: u64 = std::env::var("VERIF_INTERVAL_MS").ok().and_then(|v| v.parse().ok()).unwrap_or(100);
        let shared_state = SharedState::start_all();
        let reader = EventReader::new(
            dir,
            false,
            shared_state.get_cancellation_token(),
            shared_state.get_key_keeper_shared_state(),
            shared_state.get_telemetry_shared_state(),
            shared_state.get_agent_status_shared_state(),
        );
        tokio::spawn(async move {
            reader.start(Some(std::time::Duration::from_millis(interval)), Some(&ip), Some(port)).await;
        });
        out.line(&format!(
            "ready {} {} {} {}",
            hex(crate::common::helpers::get_long_os_version().as_bytes()),
            hex(crate::common::helpers::get_cpu_arch().as_bytes()),
            crate::common::helpers::get_ram_in_mb(),
            crate::common::helpers::get_cpu_count()
        ));
        out.flush();
        for line in std::io::stdin().lock().lines() {
            let line = line.unwrap();
            if line.trim() == "quit" {
                break;
            }
            if line.trim() == "cancel" {
                // the agent's shutdown signal, with the process staying for a while as it does while other tasks wind down
                shared_state.cancel_cancellation_token();
                tokio::time::sleep(std::time::Duration::from_millis(3000)).await;
                out.line("cancelled");
                out.flush();
            }
        }
        shared_state.cancel_cancellation_token();
    });
    std::process::exit(0);
}
