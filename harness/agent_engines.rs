// Engines run against the REAL agent code (compiled from /repo through the symlink farm).
// No argv (the agent's clap CLI parses argv lazily); engine chosen by VERIF_ENGINE; ops on stdin;
// results go to the file named by VERIF_OUT (the agent's own logging prints to stdout).
use std::io::Write;

#[path = "agent/util.rs"]
pub mod util;
#[path = "agent/rbac.rs"]
pub mod rbac;
#[path = "agent/proxy.rs"]
pub mod proxy;
#[path = "agent/canon.rs"]
pub mod canon;
#[path = "agent/trunc.rs"]
pub mod trunc;
#[path = "agent/telemetry.rs"]
pub mod telemetry;
#[path = "agent/logs.rs"]
pub mod logs;
#[path = "agent/ebpf.rs"]
pub mod ebpf;
#[path = "agent/keeper.rs"]
pub mod keeper;
#[path = "agent/kernel.rs"]
pub mod kernel;

pub fn main() {
    let engine = std::env::var("VERIF_ENGINE").unwrap_or_default();
    // keep the agent's own logging quiet unless an engine sets loggers up itself
    match engine.as_str() {
        "rbac" => rbac::run(),
        "proxy" => proxy::run(),
        "canon" => canon::run(),
        "trunc" => trunc::run(),
        "telemetry" => telemetry::run(),
        "logs" => logs::run(),
        "ebpf" => ebpf::run(),
        "keeper" => keeper::run(),
        "kernel" => kernel::run(),
        _ => {
            eprintln!("unknown engine {:?}", engine);
            std::process::exit(2);
        }
    }
}
