// Child module of the extension's `service_main` (added to the farm's copy of service_main.rs by one `mod` line), so that it can call
// the private functions through which the monitor loop feeds the health automaton:
//   extension_substatus(status file content, version in extension, ...)   -> one observation (success iff the versions agree)
//   report_proxy_agent_service_status(outcome of the setup tool, ...)       -> one failed observation, and a status file
use super::*;
use proxy_agent_shared::proxy_agent_aggregate_status::*;

fn detail() -> ProxyAgentDetailStatus {
    ProxyAgentDetailStatus { status: ModuleState::RUNNING, message: "ok".to_string(), states: None }
}

fn summary(i: usize) -> ProxyConnectionSummary {
    ProxyConnectionSummary {
        userName: format!("user{}", i), ip: "168.63.129.16".to_string(), port: 80, processCmdLine: "curl".to_string(),
        responseStatus: "200 OK".to_string(), count: 1 + i as u64, processFullPath: Some("/usr/bin/curl".to_string()),
        userGroups: Some(vec!["users".to_string()]),
    }
}

pub struct Driver {
    pub status: StatusObj,
    pub state: common::StatusState,
    pub svc: ServiceState,
    pub seq: u64,
}

impl Driver {
    pub fn new() -> Self {
        Driver {
            status: StatusObj {
                name: constants::PLUGIN_NAME.to_string(),
                operation: constants::ENABLE_OPERATION.to_string(),
                configurationAppliedTime: proxy_agent_shared::misc_helpers::get_date_time_string(),
                code: constants::STATUS_CODE_OK,
                status: constants::SUCCESS_STATUS.to_string(),
                formattedMessage: FormattedMessage { lang: constants::LANG_EN_US.to_string(), message: "".to_string() },
                substatus: Default::default(),
            },
            state: common::StatusState::new(),
            svc: ServiceState::default(),
            seq: 0,
        }
    }

    /// the monitor loop read the agent's status file: versions agree or not, `nconn`/`nfail` summary entries
    pub fn substatus(&mut self, file_version: &str, ext_version: &str, nconn: usize, nfail: usize) -> String {
        let top = GuestProxyAgentAggregateStatus {
            timestamp: proxy_agent_shared::misc_helpers::get_date_time_string(),
            proxyAgentStatus: ProxyAgentStatus {
                version: file_version.to_string(), status: OverallState::SUCCESS, monitorStatus: detail(), keyLatchStatus: detail(),
                ebpfProgramStatus: detail(), proxyListenerStatus: detail(), telemetryLoggerStatus: detail(), proxyConnectionsCount: nconn as u128,
            },
            proxyConnectionSummary: (0..nconn).map(summary).collect(),
            failedAuthenticateSummary: (0..nfail).map(summary).collect(),
        };
        extension_substatus(top, &ext_version.to_string(), &mut self.status, &mut self.state, &mut self.svc);
        format!("{} {}", self.status.status, self.status.substatus.len())
    }

    /// the setup tool was run to update the agent: it exited with `code`, or could not be run at all
    pub fn service_status(&mut self, outcome: &str, folder: &std::path::Path) -> String {
        use std::os::unix::process::ExitStatusExt;
        let output = match outcome {
            "spawn-error" => Err(std::io::Error::new(std::io::ErrorKind::NotFound, "No such file or directory (os error 2)")),
            code => Ok(std::process::Output {
                status: std::process::ExitStatus::from_raw(code.parse::<i32>().unwrap_or(1) << 8),
                stdout: b"out".to_vec(), stderr: b"err".to_vec(),
            }),
        };
        self.seq += 1;
        let seq = self.seq.to_string();
        report_proxy_agent_service_status(output, folder.to_path_buf(), &seq, &mut self.status, &mut self.state);
        // what was written for the platform to read
        let written = proxy_agent_shared::misc_helpers::json_read_from_file::<Vec<TopLevelStatus>>(&folder.join(format!("{}.status", seq)))
            .map(|v| v.first().map(|t| t.status.status.clone()).unwrap_or_default()).unwrap_or_else(|_| "unreadable".to_string());
        format!("{} {}", self.status.status, written)
    }
}
