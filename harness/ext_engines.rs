// Engines run against the REAL extension code (compiled from /repo through the symlink farm).
// No argv; engine chosen by VERIF_ENGINE; ops on stdin, one canonical line out per op.
use std::io::{self, BufRead, Write};

fn unhex(s: &str) -> Option<Vec<u8>> {
    if s == "-" {
        return Some(vec![]);
    }
    if s.len() % 2 != 0 {
        return None;
    }
    (0..s.len() / 2)
        .map(|i| u8::from_str_radix(&s[2 * i..2 * i + 2], 16).ok())
        .collect()
}

fn canon_state(s: &str) -> String {
    // constants::{SUCCESS,TRANSITIONING,ERROR}_STATUS are the strings the extension reports
    if s == crate::constants::SUCCESS_STATUS {
        "success".to_string()
    } else if s == crate::constants::TRANSITIONING_STATUS {
        "transitioning".to_string()
    } else if s == crate::constants::ERROR_STATUS {
        "error".to_string()
    } else {
        format!("other:{}", s)
    }
}

fn health() {
    let stdin = io::stdin();
    let stdout = io::stdout();
    let mut out = io::BufWriter::new(stdout.lock());
    let mut st = crate::common::StatusState::new();
    let mut svc = crate::service_main::service_state::ServiceState::default();
    let mut drv = crate::service_main::verif_child::Driver::new();
    let scratch = std::env::var("VERIF_SCRATCH").map(std::path::PathBuf::from).unwrap_or_else(|_| std::env::temp_dir());
    // the monitor functions log through the extension's logger, as set up by the handler
    crate::logger::init_logger(scratch.join("log").to_string_lossy().to_string(), "ProxyAgentExt-verif.log");
    for line in stdin.lock().lines() {
        let line = line.unwrap();
        let t: Vec<&str> = line.trim().split(' ').collect();
        let r = match t.as_slice() {
            ["health", "new"] => {
                st = crate::common::StatusState::new();
                "ok".to_string()
            }
            ["health", "obs", b] => canon_state(&st.update_state(*b == "1")),
            ["mon", "new"] => {
                drv = crate::service_main::verif_child::Driver::new();
                "ok".to_string()
            }
            // the monitor loop's own functions (private to service_main, reached through a child module)
            ["mon", "substatus", filev, extv, nconn, nfail] => {
                let r = drv.substatus(filev, extv, nconn.parse().unwrap(), nfail.parse().unwrap());
                let mut it = r.splitn(2, ' ');
                format!("{} {}", canon_state(it.next().unwrap_or("")), it.next().unwrap_or(""))
            }
            ["mon", "service", outcome] => {
                let r = drv.service_status(outcome, &scratch.join("status"));
                let mut it = r.splitn(2, ' ');
                format!("{} {}", canon_state(it.next().unwrap_or("")), canon_state(it.next().unwrap_or("")))
            }
            ["svc", "new"] => {
                svc = crate::service_main::service_state::ServiceState::default();
                "ok".to_string()
            }
            ["svc", "note", k, v, max] => {
                let k = String::from_utf8(unhex(k).unwrap()).unwrap();
                let v = String::from_utf8(unhex(v).unwrap()).unwrap();
                let r = svc.update_service_state_entry(&k, &v, max.parse().unwrap());
                r.to_string()
            }
            ["svc", "stream", which, v, max] => {
                // the two notification streams of the monitor loop, under the keys the code itself uses for them
                let k = if *which == "status" { crate::constants::STATE_KEY_READ_PROXY_AGENT_STATUS_FILE } else { crate::constants::STATE_KEY_FILE_VERSION };
                let v = String::from_utf8(unhex(v).unwrap()).unwrap();
                svc.update_service_state_entry(k, &v, max.parse().unwrap()).to_string()
            }
            _ => "bad-op".to_string(),
        };
        writeln!(out, "{}", r).unwrap();
    }
}

pub fn main() {
    let engine = std::env::var("VERIF_ENGINE").unwrap_or_default();
    match engine.as_str() {
        "health" => health(),
        _ => {
            eprintln!("unknown engine {:?}", engine);
            std::process::exit(2);
        }
    }
}
