#!/usr/bin/env python3
"""Writes MANIFEST.json from the table below (kept in one place so it is always valid)."""
import json, os
VERIF = os.path.dirname(os.path.dirname(os.path.abspath(__file__)))
ALL = [f"C{i:02d}" for i in range(1, 21)]

TB = ("Lean 4.33.0 kernel (thorough: + leanchecker); axioms ⊆ {propext, Classical.choice, Quot.sound}; "
      "hand-written model tied to /repo by regenerated Facts.lean and by the differential correspondence "
      "check (testing); external crates/kernel/fs as listed in DESIGN.md §5")

CLAIMED = {
    "C01": dict(
        text="Lean theorems over the model of handle_new_http_request/authorize for every request, identity, destination, "
             "rule set/mode/default and attribution state: relayed => attributed, no '..', rules readable, authorizer not "
             "Forbidden (and, with C02's theorem, => the declared policy authorizes the caller); direct connections are never "
             "relayed; each refusal yields exactly 404/421/421/500/403 with no upstream request. The model is tied to the real "
             "ProxyServer (listener, hyper, tower limit layer, actors) running in a private network namespace against "
             "byte-recording mock metadata hosts; attribution records are injected through hook H1.",
        design="§7 C01",
        technique="Lean 4 proof over a hand-written pipeline model + e2e differential correspondence in a netns"),
    "C02": dict(
        text="Lean theorem isAllowed_eq_spec: for every rule document with pairwise-distinct privilege/role/identity names "
             "(dangling names, missing sections, any mode/default strings included), every URL and caller, the model of "
             "from_authorization_item + is_allowed equals the property's sentence evaluated on the document; plus "
             "order-independence (document lists and hash-iteration order), letter-case congruences, disabled/default/deny "
             "clauses, and a kernel-checked negative witness for duplicate names (known finding F2). The model is tied to "
             "the real serde_json -> ComputedAuthorizationItem -> is_allowed path by seeded structured documents, each also "
             "evaluated on a permuted copy; the implementation's decision is compared with both the model and the spec.",
        design="§7 C02, §8 F1 F2",
        technique="Lean 4 proof (refinement of the flattening to the declared semantics) + differential correspondence"),
    "C20": dict(
        text="Lean theorems over all finite observation/notification histories (induction, invariant) about the "
             "model of StatusState/ServiceState instantiated with constants regenerated from the source; the model "
             "is tied to the real extension code by exhaustive short sequences, failure runs across the saturation "
             "point and random histories, and the property's decidable form is evaluated on the implementation's "
             "own outputs.",
        design="§7 C20",
        technique="Lean 4 proof by induction over histories + generated facts + differential correspondence"),
}

def main():
    checks = []
    for pid, c in CLAIMED.items():
        checks.append({
            "property_id": pid,
            "quick_cmd": f"python3 tools/run_check.py {pid} quick",
            "thorough_cmd": f"python3 tools/run_check.py {pid} thorough",
            "evidence_file": f"/verif/evidence/{pid}.json",
            "replay_cmd_template": f"python3 tools/run_check.py {pid} quick  # replay file {{path}} lists the failing ops",
            "engine": "lean-proof+correspondence",
            "level_claimed": {"category": "proof", "text": c["text"], "design_ref": c["design"]},
            "level_note": c.get("note", TB),
            "technique": c["technique"],
        })
    checks.sort(key=lambda c: c["property_id"])
    na = [{"property_id": p, "reason": NA.get(p, "machinery for this property is not built yet in this round; planned in DESIGN.md §7 (the technique applies)")}
          for p in ALL if p not in CLAIMED]
    m = {
        "version": 1,
        "setup_cmd": "python3 tools/setup.py",
        "hooks": {
            "guard": "azure_guestproxyagent_verif",
            "enable": "RUSTFLAGS='--cfg azure_guestproxyagent_verif' (set by tools/vlib.py when it builds the symlink-farm harness over /repo's sources)",
            "baseline_off_cmd": "cd /repo && cargo test --workspace --no-fail-fast --offline",
            "source_commits": HOOK_COMMITS,
            "add_only": True,
        },
        "engines": [
            {"name": "lean-proof+correspondence", "path": "tools/run_check.py",
             "serves_properties": sorted(CLAIMED), "kind_free_text": "Lean 4 theorems (lean/Gpa/Props) + Facts regenerated from /repo + Rust/C harnesses over /repo's unmodified sources diffed against the compiled Lean model driver"},
        ],
        "checks": checks,
        "not_applicable": na,
        "notes": "See DESIGN.md. Every check regenerates Facts.lean from /repo, rebuilds the property's Lean module, rebuilds the harness from /repo's working tree, then runs corpus + seeded cases.",
    }
    json.dump(m, open(os.path.join(VERIF, "MANIFEST.json"), "w"), indent=1)

NA = {}
HOOK_COMMITS = []
if __name__ == "__main__":
    main()
