#!/usr/bin/env python3
"""Writes MANIFEST.json from the table below (kept in one place so it is always valid)."""
import json, os
VERIF = os.path.dirname(os.path.dirname(os.path.abspath(__file__)))
ALL = [f"C{i:02d}" for i in range(1, 21)]

TB = ("Lean 4.33.0 kernel (thorough: + leanchecker); axioms ⊆ {propext, Classical.choice, Quot.sound}; "
      "hand-written model tied to /repo by regenerated Facts.lean and by the differential correspondence "
      "check (testing); external crates/kernel/fs as listed in DESIGN.md §5")

E2E_TECH = "Lean 4 proof over a hand-written pipeline model + e2e differential correspondence in a netns"
CLAIMED = {
    "C03": dict(
        text="Lean theorems: a non-elevated caller is Forbidden on WireServer/HostGAPlugin for every rule set, mode, default and URL; the "
             "proxy's own address is always Forbidden; composed with the pipeline such requests are never relayed and get 403. Generated "
             "endpoint constants are proof obligations. Tied to the real proxy_authorizer::authorize (direct calls) and to the real listener "
             "(mock WireServer/HostGA stay silent).",
        design="§7 C03", technique=E2E_TECH),
    "C04": dict(
        text="Lean theorems: both signing routes give the same canonical string; what is signed is what is sent (the host, applying the "
             "same canonicalisation to the method/URL/headers/body it receives, obtains exactly the signed string; the authorization "
             "header is excluded); header value format and key id; signed unless one of the two exempt method/URL pairs; layout and "
             "header coverage; kernel-checked negative witnesses for the two uncovered shapes (known findings F3). The order lemmas "
             "(strict weak order, insertion sort commutes with filtering) are proved, not assumed. Tied to the real as_sig_input and "
             "build_request (function level, with a removal-based coverage oracle) and e2e: the mock host's received bytes are "
             "re-canonicalised by the Lean model and the MAC recomputed with hashlib.",
        design="§7 C04, §8 F3 F9", technique=E2E_TECH),
    "C05": dict(
        text="Lean theorems for every client header list (any number of copies of the proxy-owned names, any case): exactly one claims "
             "header with the attributed elevation, exactly one date header with the proxy clock, and on signed requests exactly the "
             "proxy's authorization header. Tied to the real listener: raw upstream header lines inspected for spoofed requests.",
        design="§7 C05", technique=E2E_TECH),
    "C06": dict(
        text="Lean theorems about the model of the two kernel hooks and four maps: redirect iff (destination in policy and caller not the "
             "agent), untouched otherwise; for a redirected attempt the audit record under the local source port states uid = low half of "
             "uid_gid, pid = high half of pid_tgid, is_root iff uid = 0 and the ORIGINAL destination, under any interleaving of other "
             "threads' hook invocations between the two hook points; user-space key/value encoders agree with the kernel program's "
             "layout and byte order (bswap16 involutive, address bytes, ip string round trip); generated address constants are proof "
             "obligations. Tied to the UNMODIFIED ebpf_cgroup.c compiled in user space against a simulator of the documented BPF "
             "helper/map semantics, fed with the arrays the real Rust encoders produce and decoded by the real Rust decoder (hook H4). "
             "Verifier/attach/LRU eviction are the kernel's (partial).",
        design="§7 C06, §8 F4", technique="Lean 4 proof over a model of the hooks + differential correspondence with the C program in user space"),
    "C07": dict(
        text="Lean theorems about the attribution model (lookup-then-remove at accept, immutable per-connection context): context = own "
             "record, record consumed, port reuse without a fresh record is unattributed and refused, requests use their own context under "
             "any interleaving of other connections' events. Tied to the real listener through hook H1: histories with port reuse, "
             "keep-alive, a later record for a live connection's port, and concurrent accepts.",
        design="§7 C07", technique=E2E_TECH),
    "C08": dict(
        text="Lean theorems over a transition system of single effects of the latch path (host issues, create temp, partial writes, rename, "
             "read back, send attest, host latches, publish) with process death possible after every effect: an invariant proved for every "
             "reachable state gives latched_implies_recoverable, attest_only_after_verified_store, final_name_never_partial and "
             "restart_uses_local_key (no new key requested). Tied to the real key keeper: every N-th file-system/socket syscall after the "
             "first status poll is turned into SIGKILL (strace inject) until the process survives; after each kill the key directory and "
             "the mock host's acquire/attest log are checked and a fresh process on the same directory must converge. Durability across "
             "power loss is not claimed (no fsync).",
        design="§7 C08", technique="Lean 4 proof (invariant over a crash transition system) + syscall-level crash injection on the real code"),
    "C09": dict(
        text="Lean theorems about the model of one poll iteration for every prior agent state, key directory and host answer: failed/invalid "
             "status is a no-op; a completed iteration leaves rule ids, channel state and (under the stated host contract) rules exactly as "
             "the document says, emits the redirect policy iff the state string changed with redirect = (mode != disabled) per endpoint, "
             "holds no key when disabled and otherwise the named local key or the freshly acquired+stored+verified+attested key; the "
             "invariant 'disabled => no key' holds over all histories including abandoned iterations. Tied to the real key-keeper loop in "
             "lock-step with a gated mock host: getters, H2 policy trace and host call log compared after every iteration.",
        design="§7 C09", technique="Lean 4 proof over a model of the poll iteration + lock-step differential correspondence"),
    "C10": dict(
        text="Lean theorem pair_consistent: for every interleaving of any number of signers with key rotation, clearing and re-latching, "
             "when each signer reads the key in one actor message every emitted pair is (guid, secret) of one key that was latched at "
             "some instant, or nothing; kernel-checked negative witness for the two-message program (the pre-fix code). Tied to the real "
             "actor: the H3 message trace of each of the four signing routes must be the model's single-read program; rotations/clears "
             "placed during the signer's messages through H3's inject point and free-running concurrent rounds; the mock host checks "
             "every MAC against the key registered for the announced id.",
        design="§7 C10, §8 F5", technique="Lean 4 proof over all interleavings of a message-level model + schedule injection on the real actor"),
    "C11": dict(
        text="Lean theorems: enforce denial = 403 + one record, audit denial = relayed exactly as an allowed request + one record, disabled "
             "mode never consults the document, summary counts = number of denials per key, order-independent. Tied to the real listener: "
             "sequences and concurrent bursts of requests, get_all_failed_connection_summary() compared per key.",
        design="§7 C11", technique=E2E_TECH),
    "C12": dict(
        text="Lean theorem key_never_leaves_store: in a taint model of the key keeper's iteration, the signing branch, the status message "
             "and everything derived from it (status.json, status.tag, /provision reply, connection log), for every history of polls with "
             "any host answers (error statuses, malformed key bodies that contain the key, keys that are not hex), client requests, "
             "provisioning queries, status ticks, the deadline and restarts, no text written outside <keydir>/<guid>.key contains a key "
             "value (MACs and guids may); acl_before_first_key_file: chmod 0700 of the key directory precedes the first key file in every "
             "history. The variant of the two input-echoing error texts is read from the source (generated facts); kernel-checked negative "
             "witnesses show both pre-fix leaks (fixed in /repo by two fix: commits). Tied to the real key keeper + listener + file loggers "
             "+ event logger + status task in one process against a lock-step mock host: every history is replayed on the model and "
             "compared emission by emission (sink, statement, guid flow), every byte written anywhere or returned to a local client is "
             "searched for every key value the host issued, and a syscall trace gives the mkdir/chown/chmod/create order. Serial console "
             "output and the Windows key store are not observed (partial).",
        design="§7 C12, §8 F6", technique="Lean 4 proof over a taint (information-flow) model + canary search and lock-step differential correspondence on the real agent parts"),
    "C13": dict(
        text="Lean theorems for the modelled panic sites: the char-boundary truncation is total, bounded by the cap, a prefix, maximal, and "
             "equal to the old slice wherever the old slice did not panic; utf-16 unit decoding is total and agrees with the old code on "
             "even-length frames; the header-value text conversion is total; no path of the request-handling model ends in a panic. "
             "Kernel-checked negative witnesses show the pre-fix code panicking (fixed in /repo by three fix: commits). Tied to the real "
             "write_event / get_module_status / read_response_body (function level, panics caught) and to the real listener with "
             "non-ASCII header bytes, long multi-byte command lines, long URLs, repeated headers; process-wide panic hook + liveness probe. "
             "Whole-agent panic freedom is not a theorem (partial).",
        design="§7 C13, §8 F7", technique=E2E_TECH),
    "C14": dict(
        text="Lean theorems: relayed request keeps method/target/body and every client header but the three proxy-owned names; relayed "
             "response keeps status/body/headers plus exactly one marker; i-th response answers i-th request. Tied to the real listener "
             "with binary bodies up to the limit, random chunkings, response framings/frame boundaries, concurrent keep-alive and pipelined "
             "connections. HTTP framing itself is hyper's (partial).",
        design="§7 C14", technique=E2E_TECH),
    "C15": dict(
        text="Lean theorems: generated limits equal 100 KiB / 100 MiB; declared oversize -> 413; any oversize body is never relayed (400 at "
             "the forwarding stage); a body of at most the limit is relayed intact; the large class applies iff the request is one of the two "
             "exempt method/URL pairs (case-insensitive). Tied to the real listener around the 100 KiB limit on every run and around 100 MiB "
             "in the thorough tier.",
        design="§7 C15", technique=E2E_TECH),
    "C01": dict(
        text="Lean theorems over the model of handle_new_http_request/authorize for every request, identity, destination, "
             "rule set/mode/default and attribution state: relayed => attributed, no '..', rules readable, authorizer not "
             "Forbidden (and, with C02's theorem, => the declared policy authorizes the caller); direct connections are never "
             "relayed; each refusal yields exactly 404/421/421/500/403 with no upstream request. The model is tied to the real "
             "ProxyServer (listener, hyper, tower limit layer, actors) running in a private network namespace against "
             "byte-recording mock metadata hosts; attribution records are injected through hook H1.",
        design="§7 C01",
        technique="Lean 4 proof over a hand-written pipeline model + e2e differential correspondence in a netns"),
    "C02": dict(
        text="Lean theorem isAllowed_eq_spec: for every rule document with pairwise-distinct privilege/role/identity names "
             "(dangling names, missing sections, any mode/default strings included), every URL and caller, the model of "
             "from_authorization_item + is_allowed equals the property's sentence evaluated on the document; plus "
             "order-independence (document lists and hash-iteration order), letter-case congruences, disabled/default/deny "
             "clauses, and a kernel-checked negative witness for duplicate names (known finding F2). The model is tied to "
             "the real serde_json -> ComputedAuthorizationItem -> is_allowed path by seeded structured documents, each also "
             "evaluated on a permuted copy; the implementation's decision is compared with both the model and the spec.",
        design="§7 C02, §8 F1 F2",
        technique="Lean 4 proof (refinement of the flattening to the declared semantics) + differential correspondence"),
    "C16": dict(
        text="Lean theorems over a transition system whose unit of interleaving is one actor message (any number of readiness reports, "
             "resets, deadline handlers and queries, spawned at any time, interleaved arbitrarily): invariant proved for every reachable "
             "state, giving finished_sound (a query not seeing a latched channel reports finished only on a positive stamp >= its tick, made "
             "by the deadline handler or on an all-ready reply recorded in the history); error text = exactly the clear flags; updates "
             "commute / are never lost; the tag file is replaced atomically for a single writer at a time and, in an inode-level model, for "
             "any number of writers that overlap as wholes (a file once published keeps its content; tied by the fact that nothing is "
             "awaited between the temp file's creation and the rename); two writers inside their three file operations at the same "
             "instant remain partial (tearing shown as a kernel-checked witness). Tied to the real actor and listener: the real functions' message programs are read "
             "through hook H3 and compared with the model programs, message-level interleavings are replayed through the public actor API, "
             "real /provision queries with arbitrary ticks, tag file read after every step, overlapping real writers watched by inode.",
        design="§7 C16, §8 F8", technique="Lean 4 proof (invariant over an interleaving transition system) + differential correspondence"),
    "C17": dict(
        text="Lean theorems about the model of the setup tool's commands over an abstract file system (all contents, all initial "
             "states): backup;install;restore reinstates the four system files; install places exactly the packaged files with "
             "stop first / start last; restore without a backup is the identity; uninstall package removes the files; purge removes "
             "only the backup; frame: no command changes any path outside the system locations and the backup folder. Tied to the REAL "
             "proxy_agent_setup binary built from /repo, run in a private mount namespace with overlays over the system directories and "
             "a recording stand-in systemctl: the 12 modelled files, the systemctl log and a digest of everything else are compared "
             "after every command of generated sequences.",
        design="§7 C17", technique="Lean 4 proof over a file-system model + differential correspondence with the real binary in a mount namespace"),
    "C18": dict(
        text="Lean theorems: xml_escape (five sequential replacements) equals the character-wise escape, its output has no markup "
             "character, decoding gives the text back; batching (model of send_events as a well-founded recursion): every batch is "
             "non-empty and smaller than the generated cap = 64 KiB, batches and dropped events partition the input, only events that "
             "alone exceed the cap are dropped and they do not block the rest, uploads stop at the first success within five attempts, "
             "consumed files are removed. Tied to the real EventReader against a mock host: POST bodies are compared byte-for-byte with "
             "the model's batches and parsed twice by an independent XML parser (expat).",
        design="§7 C18", technique="Lean 4 proof (induction / functional induction) + differential correspondence"),
    "C19": dict(
        text="Lean theorems (invariants by induction over arbitrary write histories, from the empty directory or from whatever an earlier "
             "run with the same settings left): files per rolling log <= configured count; current file < size limit + last write; "
             "the delete loop removes exactly the oldest files (proved equal to a drop of the oldest-first list); event directory never "
             "above its cap under any mix of flushes and reader removals; at most the configured number of rule dumps, oldest removed first. "
             "Tied to the real RollingLogger, event_logger::start and AuthorizationRulesForLogging::write_all in scratch directories: the "
             "listing after every operation is compared with the model.",
        design="§7 C19", technique="Lean 4 proof (invariants by induction) + differential correspondence"),
    "C20": dict(
        text="Lean theorems over all finite observation/notification histories (induction, invariant) about the "
             "model of StatusState/ServiceState instantiated with constants regenerated from the source; the model "
             "is tied to the real extension code by exhaustive short sequences, failure runs across the saturation "
             "point and random histories, and the property's decidable form is evaluated on the implementation's "
             "own outputs.",
        design="§7 C20",
        technique="Lean 4 proof by induction over histories + generated facts + differential correspondence"),
}

def main():
    checks = []
    for pid, c in CLAIMED.items():
        checks.append({
            "property_id": pid,
            "quick_cmd": f"python3 tools/run_check.py {pid} quick",
            "thorough_cmd": f"python3 tools/run_check.py {pid} thorough",
            "evidence_file": f"/verif/evidence/{pid}.json",
            "replay_cmd_template": f"python3 tools/run_check.py {pid} quick  # replay file {{path}} lists the failing ops",
            "engine": "lean-proof+correspondence",
            "level_claimed": {"category": "proof", "text": c["text"], "design_ref": c["design"]},
            "level_note": c.get("note", TB),
            "technique": c["technique"],
        })
    checks.sort(key=lambda c: c["property_id"])
    na = [{"property_id": p, "reason": NA.get(p, "machinery for this property is not built yet in this round; planned in DESIGN.md §7 (the technique applies)")}
          for p in ALL if p not in CLAIMED]
    m = {
        "version": 1,
        "setup_cmd": "python3 tools/setup.py",
        "hooks": {
            "guard": "azure_guestproxyagent_verif",
            "enable": "RUSTFLAGS='--cfg azure_guestproxyagent_verif' (set by tools/vlib.py when it builds the symlink-farm harness over /repo's sources)",
            "baseline_off_cmd": "cd /repo && cargo test --workspace --no-fail-fast --offline",
            "source_commits": HOOK_COMMITS,
            "add_only": True,
        },
        "engines": [
            {"name": "lean-proof+correspondence", "path": "tools/run_check.py",
             "serves_properties": sorted(CLAIMED), "kind_free_text": "Lean 4 theorems (lean/Gpa/Props) + Facts regenerated from /repo + Rust/C harnesses over /repo's unmodified sources diffed against the compiled Lean model driver"},
        ],
        "checks": checks,
        "not_applicable": na,
        "notes": "See DESIGN.md. Every check regenerates Facts.lean from /repo, rebuilds the property's Lean module, rebuilds the harness from /repo's working tree, then runs corpus + seeded cases.",
    }
    json.dump(m, open(os.path.join(VERIF, "MANIFEST.json"), "w"), indent=1)

NA = {}
HOOK_COMMITS = ["e53c7a7", "ad3b7ad", "3a80227", "d817674", "ce63a79", "e72712f", "cce379a", "f9ae9c3", "9a785b3"]
if __name__ == "__main__":
    main()
