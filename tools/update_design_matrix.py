#!/usr/bin/env python3
"""Rewrite section 10.6 of DESIGN.md from seeded/*/{meta,result}.json (run by hand after seed evaluations)."""
import os
import re
import subprocess

VERIF = os.path.dirname(os.path.dirname(os.path.abspath(__file__)))
table = subprocess.run(["python3", os.path.join(VERIF, "tools", "seed_matrix.py")], stdout=subprocess.PIPE, text=True).stdout
rows = [l for l in table.splitlines() if l.startswith("| ") and not l.startswith("| seed")]
breaking = [r for r in rows if not r.startswith("| harmless")]
harmless = [r for r in rows if r.startswith("| harmless")]
caught = [r for r in breaking if "NOT CAUGHT" not in r and "not evaluated" not in r]
nfi = [r for r in caught if "failing input" not in r]
alarms = [r for r in harmless if "ALARM" in r]
head = "| seed | change | file | caught by |\n|---|---|---|---|\n"
text = f"""### 10.6 Seeded changes and the checks that catch them

Fresh sub-agents, each given only the text of one property and a scratch worktree of /repo, produced source changes that break
that property while the code still compiles and the pinned suite still passes (confirmed for every kept change with
`tools/baseline_off.py`: 59/59). Eight rounds: round 1 (`Cxx-n`) asked for realistic slips in the anchored code; round 2
(`Cxxr2-n`) for subtler ones in helpers, error paths, caches, concurrency, each needing a specific input or schedule; round 3
(`Cxxr3-n`) for changes OUTSIDE the functions the property anchors in (actors, shared crate, type definitions, start-up wiring);
round 4 (`Cxxr4-n`) for faults that depend on HISTORY or ENVIRONMENT (an earlier request on the same connection, an earlier
failure or retry, a restart, a file left by an earlier run, a configuration other than the default, a sentinel value);
rounds 5 and 6 (`Cxxr5-n` for eight properties, `Cxxr6-n` for the other twelve) for RARELY EXECUTED PATHS and quantities (I/O and
channel failures, shutdown with work in flight, clocks, descriptor exhaustion, buffer capacities, Linux socket and file behaviour);
round 7 (`Cxxr7-n`, ten properties) for faults of ORDERING AND CONCURRENCY: a lock, an await point, a task or a message whose
position makes the behaviour depend on the schedule; round 8 (`Cxxr8-n`, the other ten properties) for faults of DATA
REPRESENTATION (integer widths and signedness, units, case mapping, path spelling, duplicate and empty fields, byte vs character)
and of the ORDER of two unchanged steps of one procedure.
A last group (`harmless-Hn-m`) are behaviour-preserving refactorings on which every check has to stay quiet. Every change is kept
under `seeded/<name>/` (`patch.diff`, the agent's `demo.md`, `meta.json`, and `result.json` written by `tools/seed_eval.py`, which
applies the patch to /repo, runs the named checks and undoes it).

Result on the current checks: **{len(caught)} of {len(breaking)}** property-breaking changes are reported
({len(caught) - len(nfi)} with a concrete failing input as replay, {len(nfi)} as `no-failing-input-found`), and
**{len(harmless) - len(alarms)} of {len(harmless)}** harmless changes leave every check that was run quiet.
The table records the last evaluation of each change. Where a detection depends on a race being hit rather than on a placed
schedule, it was repeated: the stages that had caught C05r7-2, C12r7-2, C13r7-1 and C13r7-2 once and missed them in the next run
were rebuilt (slow clock; simultaneous clients hanging up in two batches; eight writers for one slot) until three or four runs in
a row reported them; C10r6-2 was missed once in a regression run of 41 older changes and reported in the four runs that followed.
Changes a check missed when it was first run against them, and what was added so that it now reports them:

* C01-2 / C03r2-2 (un-awaited `remove_audit`): C01 gained direct connections re-using the source port of an attributed one.
* C07-1 (record removed only after the upstream connect succeeded): C07 gained destinations without a listener followed by a
  direct re-use of the port; anything but 421 for a connection without a fresh record is a violation.
* C09-1/-2, C04r3-2, C09r3-1 (state recorded early, rules not cleared, un-attested key kept, mode case): C09 gained oracles computed
  from the document alone (driver op `kk docspec`, the right-hand sides of the convergence theorems), the provenance of the key in
  memory (theorem `key_provenance`), and scripted histories that run first.
* C19-2, C19r2-1/-2, C19r3-1/-2: bursts of hundreds of events per flush, the size oracle without the "was already oversize" exemption,
  a shutdown flush at the cap, leftover `.tmp` files, the cap read through the agent's own configuration (boundary 0).
* C01r2-2 (rules cached per connection), C03r2-1 (claims cached per pid), C05r2-1/-2 (`Connection` nominating the proxy's headers; date
  frozen at accept), C09r3-2 (key read once per connection): requests on connections kept open across a policy change, an
  elevation change of the same pid, a pause, a key rotation / disable.
* C07r2-1/-2, C07r3-2, C01r3-1: destinations that differ in the port only, a process that execs another program between two
  connections, a sequence of users (the connection summary names the program and the user of each connection).
* C08r2-1 (key file removed when the attestation reply is lost), C08r3-2 (temp file promoted at start-up): a host that latches but
  whose reply is lost, and the key directory inspected after every iteration and right after a restart.
* C10r2-2 (acquired key re-labelled with the guid of the status document): the attestation request itself is verified (fifth signing route).
* C11r2-1 (`try_send`), C14r3-1 (`expect` on a dropped requester), C12r3-1 (key printed when a reply cannot be delivered): the H3 inject
  point now also sits in the agent-status actor; bursts against a slowed actor, clients that hang up mid-request.
* C13r2-1/-2, C13r3-1/-2: `xml_escape` at function level, UTF-16 frames shorter than two bytes, command lines that are multi-byte at
  every offset (and callers that are actually alive, §10.5), status documents with multi-byte text in every field.
* C14r2-2, C14r3-2: a host that closes its connection, response heads of tens of KiB.
* C16r2-1/-2, C16r3-1/-2: the query's message program, a readiness report placed between its two reads (theorem
  `finished_has_empty_text`), the file operations on `status.tag` (rename only), and queries whose "latched" input comes from the real key keeper.
* C18r2-1, C18r3-1: events whose rendering (not their text) reaches 64 KiB; the event threads may start once per process.
* C12r3-2 (key document written to the system temp directory): the process gets its own `TMPDIR`, which is searched too.
* C15r3-2 (a 10 s budget around the relay that also covers the upload): a host that drains a 16 MiB upload for 13 s (64 and 100 MiB in
  the thorough tier); C06r3-1 (cgroup2 mount lookup returns the last mount): the real lookup against stand-in `findmnt` programs and
  the attach-point theorems; C06r3-2 (hand-over map a plain hash): 260 leaked entries, the bounded-map model and facts about the
  declared map kinds; C20r3-1 (the two notification keys collide): the two streams are fed under the key constants of the code.
* Round 4, kept-alive connections: C01r4-1 / C11r4-1 (verdict memoised by path), C02r4-1 (rules cached per connection), C04r4-1 /
  C10r4-1 (key cached per connection), C14r4-1 / C15r4-1 (limit class fixed by the first request), C15r4-2 (prefix of a refused body
  sent with the next one): `Runner.run_session` — several requests on ONE connection, each under its own environment: the same path
  with query strings the rules tell apart, the rule set and the key replaced in between, uploads and ordinary requests in turn,
  requests after a refused one (theorems `answer_depends_on_environment_in_force`, `kept_connection_sees_current_environment`).
* C04r4-2 / C05r4-2 (a new reconnect-and-resend path that forgets to sign): a request that follows on a client connection after
  the host dropped the upstream one; if it reaches the host at all it is judged like any relayed request.
* C01r4-2 (record consumed only when the host connect succeeds): C01's port re-use after a connection to an unreachable host.
* C03r4-2 (uid 999 treated as elevated), C03r3-2: every user id the generator knows (system accounts, 999, nobody, 2^31) not
  elevated on both root-only endpoints; a direct connection after an elevated one on the same source port.
* C06r4-1 (an existing hand-over entry is not overwritten): one thread connecting several times in a row — which also exposed F12
  on the unchanged tree (§10.4); C06r4-2 (policy de-duplication keyed by the address without the port): the policy and skip maps
  are now real kernel maps kept through the agent's own `BpfObject` and read back.
* C09r4-2 (an existing key file is never rewritten): scripted histories in which the host hands out a guid again with another
  value, and in which a damaged file of an earlier run lies under the guid handed out.
* C10r4-2 (retry after 401/403 re-reads the key but keeps the id): rotations placed while the host refuses the agent's own requests.
* C13r4-1 (byte-offset slice in the "queue is full" path of `write_event`): bursts that overflow the event queue with multi-byte text.
* C16r4-1 (temp file in the system temp directory, copy fallback): the `status.tag` syscall stage is repeated with the process's temp
  directory on another filesystem; C16r4-2 (fast path in `key_latched` after a deadline): queries that name an instant shortly after
  the last deadline, asked after further reports.
* C17r4-2 (backup skipped when the backup already holds that agent version), C17r3-1/-2: initial states with a kept backup of the
  installed version, and the property's sentences about `install` and `uninstall` in package mode as oracles of their own.
* C18r4-1 (file kept after a batch was given up): thorough tier, a two-batch file whose second batch fails all five attempts (75 s).
* C11r3-2 / C11r4-2 (process details cached per pid): a granted program that `exec`s a program the rules do not grant.
* Round 5 — 14 of its 16 changes were missed at first; what was added: C04r5-1 (key cleared when shutdown is signalled): the
  shutdown signal (`cancel` op) while a signed connection is still open; C04r5-2 (attestation moved in front of the store): caught
  by C08, which gained a scenario in which the store cannot take the key; C08r5-2 (key file dated in the future treated as
  unreadable): restarts with the wall clock set back; C12r5-1 (vanished key directory re-created without its ACL): polls during which
  the key directory is gone; C12r5-2 (partial response body put into the error text): a host that sends the whole key document,
  announces a longer one and drops the connection; C13r5-1 (`/proc/<pid>/cmdline` of zero bytes): zombie / exited / kernel-thread
  callers; C13r5-2 (accept loop ends on EMFILE): 400 simultaneous connections against a descriptor limit of 128, then a request;
  C14r5-1 (16 KiB read buffer): request heads of 20–150 KiB; C14r5-2 (`SO_LINGER` 0): a `Connection: close` / HTTP/1.0 client
  reading a 24 MiB body slowly; C16r5-1 (failed temp-file write still renamed): `status.tag.tmp` leading to `/dev/full`; C16r5-2
  (no answer from the state actor read as "latched"): the key keeper's state actor is killed through H3 before a `/provision` query;
  C18r5-1 (extra upload round at shutdown): the shutdown signal while the second batch of a file waits for its answer; C18r5-2
  (byte slice of the dropped event's JSON): oversize events that are multi-byte throughout; C19r5-1 (archiving made best effort):
  an append-only live log file (`chattr +a`).
* Round 6 — the checks were extended from the descriptions of the first eight changes before the rest arrived, so 20 of 24 were
  reported at once; added: C01r6-1 / C02r6-1 / C03r6-1 / C11r6-2 (a failed rules lookup treated as "no rules"): the actor holding the
  rules is ended through H3 — once exactly while it handles a request's lookup, then for good — with deny-everything rules in force
  (`pipe.rules_lookup_fails`); C02r6-2 (process name taken from the 15-byte task name): programs with names longer than 15 bytes that
  agree in the first 15; C03r6-2 (port for the authorizer taken from an absolute-form target): absolute-form request targets naming
  other ports and hosts; C05r6-1 (date computed from one wall-clock reading plus monotonic time): the agent's wall clock is stepped
  while it runs (an `LD_PRELOAD` shim, `tools/native/clockshim.c`); C05r6-2 (chunked trailers merged into the headers): proxy-owned
  names in the trailer section; C06r6-1 (`BPF_NOEXIST` on audit writes): map update flags in the simulator and source ports used
  again within a schedule; C06r6-2 (`BPF_F_NO_COMMON_LRU`): 60 processes on one CPU connecting in the running kernel; C07r6-1 / -2
  (record not consumed for a connection closed at once / dropped over a connection cap): silent connections and 150 idle ones;
  C09r6-1 (body reading stops at Content-Length): host documents sent chunked; C09r6-2 (`try_send` for the key update): 400 reader
  messages queued at the state actor when the poll records "disabled"; C10r6-1 / -2 (clear keeps the id; retry after a signing error
  re-reads only the secret): a latched key with a non-hex secret replaced mid-request; C15r6-1 / -2 (pre-sized collect; a ten-second
  budget on the upload): chunk sizes dividing the limit, a client sending 1 KiB per second; C17r6-1 (copy without truncation):
  stand-in files of clearly different lengths compared byte for byte; C20r6-1 / -2 (verdict overridden on a spawn error; successes
  not counted for empty summaries): the monitor loop's own private functions (`extension_substatus`,
  `report_proxy_agent_service_status`) driven through a child module of `service_main` and compared with the automaton.
* Round 7 — a few were reported by the checks as they stood; most needed a schedule nobody had forced yet. Added:
  C01r7-1 (rules dropped between `SetRuleId` and `SetRules`): a request sent on an already open connection while the state actor is
  held, through H3, exactly between the two messages of a rule change (`c09.request_during_rule_change`, also run by C01);
  C01r7-2 / C07r7-1 / C11r7-1 (audit record removed only after later awaits): a host that accepts slowly
  (`e2e.SlowAcceptHost`) while the same source port is used again by a direct connection (`c07.slow_host_then_port_reuse`, run by
  C01 and C07); C04r7-1 / C09r7-1 / C05r7-1 (key or strip decision taken before the body await): the key latched, replaced and
  cleared while an upload is held mid-body (`env_after_head` in `pipe.run_case`); C04r7-2 (key published before the attestation
  answer): a slow attestation with requests signed in the meantime (`c09.keepalive_signing`); C05r7-2 (per-second date cache
  published stamp first): simultaneous requests after an idle gap (`c05.concurrent_after_idle`), made reliable by running them
  with a wall clock that takes 25 ms to read (`clockshim.c`, `VERIF_CLOCK_DELAY_US`); C07r7-2 / C14r7-2 (connection
  context / host connection built lazily or by an unjoined task): first requests that arrive before the host has accepted
  (`c14.first_request_before_host_connects`); C09r7-2 (`try_lock` on the loaded object): in the running kernel, 90 policy switches
  through `update_*_redirect_policy` while three tasks call `redirector::lookup_audit` on the same object, the policy map read
  back after every switch (kernel engine op `contend`, run by C06 and C09); C11r7-2 (24 h clear fires at once): denials counted
  before the status task starts (`c11.denials_before_the_status_task`); C12r7-1 (ACL in a detached blocking task): first start with
  a 0755 key directory and `chown`/`chmod` slowed by 250 ms (`LD_PRELOAD` shim `tools/native/slowacl.c`), the directory polled from
  the moment a key file exists; C12r7-2 (undelivered reply logged): requests aborted at each phase of the key lookup, targeted by
  actor message (`pipe.abort_storm`); C13r7-1 (check-then-push on the event queue): writers racing for the last slot
  (`eventrace`); C13r7-2 (status actor exits on an undeliverable reply): clients hanging up while the reply is on its way, then
  further requests; C14r7-1 (host connection shared between client connections): several kept-alive clients in lock-step;
  C16r7-1 (temp file opened before the awaited collection): the deadline handler held at its last status read while the remaining
  subsystems report and publish (`prov overlap`), with a reader polling `status.tag` for one inode showing two contents; the
  inode-level model `Gpa.TagInodes` with `published_file_keeps_its_content` and the fact `tagTmpThenAwait` came with it;
  C16r7-2 (three separate reads of the flags): first reported through the correspondence only (the message trace of a query
  differs from the model's single `GetState`), then with a failing input: while the query's first read of the flags is
  handled, "redirector ready" and "key latch reset" are queued in that order (`pqhook2`), so that a text naming both names a set
  that was at no instant the set of subsystems not ready (`c16.placed_swap_during_query`). Two changes to hook H3 in /repo came out of this round (a panic in
  the hook no longer poisons it; the hook closure runs outside its lock so that holding one actor does not hold the others).
* Round 8 — 15 of 20 were reported by the checks as they stood (C02r8-1/-2, C03r8-1, C03r8-2 and C06r8-1 through the simulator and the
  running kernel, C08r8-1/-2, C17r8-1/-2, C18r8-2, C19r8-1, C20r8-1/-2 with failing inputs; C15r8-1/-2 only through their generated
  facts; C10r8-1 by C05 and C10r8-2 by C04). Added: C15r8-1 (`should_skip_sig` on the canonicalised target): targets that only a
  normalising comparison takes for the two upload URLs (a repeated or empty parameter, a trailing `&` or `?`, `/machine?…`, a
  trailing or doubled slash) with bodies just above 100 KiB; C15r8-2 (100 MiB written as 1000 x 100 KiB): requests that only
  DECLARE their length (no body sent), around both limits, around 1000 x 100 KiB and beyond 2^31 and 2^32 — a declared length above
  the limit of its class is refused at once, one within it is not — so the 100 MiB class is probed in every quick run
  (`c15.declared_lengths`); C18r8-1 (envelope left out of the batch size): files of two plain events whose rendered sizes add up
  to the cap, 24 bytes apart, across it; C19r8-2 (dump written before the old ones are pruned): the dump directory watched with
  inotify while dumps are written at its limit, the running count updated at every create / rename / delete event
  (`c19.dump_peak`); C06r8-2 (connect4 attached before the kprobe): the agent's own `Redirector::attach_bpf_prog` run in the
  kernel against a test cgroup named by a stand-in findmnt (engine op `attachagent`): after a failed attach step no connect may be
  redirected (`c06.agent_attach_sequence`); C10r8-1/-2 in C10 itself: one of the three secrets is 48 bytes long and the client
  brings an authorization header of its own on the proxied route.

{head}""" + "\n".join(breaking) + "\n\nBehaviour-preserving changes:\n\n" + head.replace("caught by", "checks run") + "\n".join(harmless) + "\n"
p = os.path.join(VERIF, "DESIGN.md")
s = open(p).read()
i = s.find("### 10.6 Seeded changes")
if i >= 0:
    j = s.find("\n### 10.7", i)
    s = s[:i] + text + (s[j:] if j >= 0 else "")
else:
    s = s.rstrip("\n") + "\n\n" + text
open(p, "w").write(s)
print("10.6 rewritten:", len(breaking), "breaking,", len(harmless), "harmless")
