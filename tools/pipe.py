"""Scenario runner shared by the e2e properties (C01 C03 C04 C05 C07 C11 C13 C14 C15):
runs each case on the REAL proxy (tools/e2e.py) and on the Lean Pipeline model (driver op `pipe`),
compares canonically, and hands the observations to the property's oracle."""
import email.utils
import json
import os
import shutil
import time

import e2e
import vlib
from vlib import hx
from checks import c02 as rb

FRAMING = {b"content-length", b"transfer-encoding"}
IGNORED_REQ = FRAMING | {b"x-verif-token"}
IGNORED_RESP = FRAMING | {b"date", b"connection"}


def group_headers(headers, ignore):
    """canonical: lower-case names, grouped by first appearance, values in order"""
    order = []
    vals = {}
    for n, v in headers:
        n = n.lower()
        if n in ignore:
            continue
        if n not in vals:
            vals[n] = []
            order.append(n)
        vals[n].append(v)
    # order across different names carries no meaning in HTTP and hyper's HeaderMap does not keep it
    # (swap_remove when it drops a framing header); order of the values of one name is kept
    return [(n, v) for n in sorted(order) for v in vals[n]]


class Callers:
    """real processes standing for callers + users injected into the proxy's user cache"""

    def __init__(self, stack):
        self.stack = stack
        self.bin = os.path.join(stack.sd, "cbin")
        os.makedirs(self.bin, exist_ok=True)
        sleep = shutil.which("sleep")
        self.procs = {}
        # (two program names longer than the 15 bytes the kernel keeps as a task's short name, equal in their first 15)
        for name in ("curl", "waagent", "python3", "tool", "azure-monitor-agent-core", "azure-monitor-attacker"):
            p = os.path.join(self.bin, name)
            shutil.copyfile(sleep, p)
            os.chmod(p, 0o755)
            pid = stack.spawn_caller((p, "600"))
            self.procs[name] = {"pid": pid, "exe": p, "cmdline": f"{p} 600", "name": name}
        self.users = {}
        for uid, name, groups in ((0, "root", ["root"]), (1000, "alice", ["users", "docker"]), (1001, "bob", ["users", "adm"]),
                                  (1002, "carol", ["wheel"]),
                                  # user ids that look special somewhere (system accounts, the account tests use, nobody, a high id)
                                  (1, "daemon", ["daemon"]), (999, "svc", ["svc"]), (998, "svc2", ["svc"]), (65534, "nobody", ["nogroup"]),
                                  (2147483648, "big", ["users"])):
            self.add_user(uid, name, groups)
        time.sleep(0.2)  # let the callers exec

    def add_user(self, uid, name, groups):
        r = self.stack.ctl("user %d %s %s" % (uid, hx(name), " ".join(hx(g) for g in groups)))
        assert r == "ok"
        self.users[uid] = {"uid": uid, "name": name, "groups": groups}

    def caller(self, uid, proc, elevated):
        u = self.users[uid]
        p = self.procs[proc]
        return {"uid": uid, "user": u["name"], "groups": u["groups"], "pid": p["pid"], "exe": p["exe"],
                "proc": p["name"], "cmdline": p["cmdline"], "elevated": bool(elevated)}


def rules_tokens(state):
    """state: 'E' | None | doc"""
    if state == "E":
        return ["E"]
    if state is None:
        return ["N"]
    return ["V"] + rb.doc_tokens(state)


def wire_headers(req):
    """header lines as hyper's parser delivers them: optional white space around the value is not part
    of it; the framing header build_request adds is part of the request"""
    hs = [(n, v.strip(b" \t")) for n, v in req["headers"]]
    body = req.get("body")
    if body is not None:
        if req.get("chunked") is not None:
            hs.append((b"Transfer-Encoding", b"chunked"))
        elif req.get("declare", True):
            hs.append((b"Content-Length", str(len(body)).encode()))
    return hs


def model_line(env, caller, dest, req, now):
    t = ["pipe"]
    t += rules_tokens(env.get("ws")) + rules_tokens(env.get("imds")) + rules_tokens(env.get("hostga"))
    if env.get("key"):
        t += ["V", hx(env["key"][0]), hx(env["key"][1])]
    else:
        t += ["N"]
    t.append(hx(now))
    if caller is None:
        t.append("N")
    else:
        t += ["V", hx(caller["user"]), str(len(caller["groups"]))] + [hx(g) for g in caller["groups"]] + \
             [hx(caller["proc"]), hx(caller["exe"]), "1" if caller["elevated"] else "0"]
    if dest is None:
        t.append("N")
    else:
        t += ["V", hx(dest[0]), str(dest[1])]
    target = req["target"]
    if "?" in target:
        path, q = target.split("?", 1)
        qt = ["V", hx(q)]
    else:
        path, qt = target, ["N"]
    t += [hx(req["method"]), hx(path)] + qt
    hs = wire_headers(req)
    t.append(str(len(hs)))
    for n, v in hs:
        t += [hx(n), hx(v)]
    body = req.get("body")
    t.append(hx(body or b""))
    if body is not None and req.get("chunked") is None and req.get("declare", True):
        t += ["V", str(len(body))]
    else:
        t.append("N")
    return " ".join(t)


def parse_model(line):
    t = line.split(" ")
    spec = None
    if t and t[0] in ("S0", "S1"):
        spec = t[0] == "S1"
        t = t[1:]
    m = _parse_model(t, line)
    m["spec_may_relay"] = spec
    return m


def _parse_model(t, line):
    if t[0] in ("respond",):
        return {"kind": "respond", "status": int(t[1]), "failed": int(t[2])}
    if t[0] in ("provision", "panic"):
        return {"kind": t[0], "failed": int(t[1])}
    if t[0] == "forward":
        failed = int(t[1])
        method = vlib.unhx(t[2]).decode()
        uri = vlib.unhx(t[3]).decode()
        n = int(t[4])
        hs = []
        i = 5
        for _ in range(n):
            hs.append((vlib.unhx(t[i]), vlib.unhx(t[i + 1])))
            i += 2
        body = vlib.unhx(t[i])
        i += 1
        signed = None
        if t[i] == "V":
            signed = (vlib.unhx(t[i + 1]).decode(), vlib.unhx(t[i + 2]))
        return {"kind": "forward", "failed": failed, "method": method, "uri": uri, "headers": hs, "body": body,
                "signed": signed}
    return {"kind": "bad", "raw": line[:200]}


class Runner:
    def __init__(self, chk, stack, callers):
        self.chk = chk
        self.stack = stack
        self.callers = callers
        self.cur_env = {"ws": "unset", "imds": "unset", "hostga": "unset", "key": "unset"}
        self.observations = []
        self.token_seq = 0

    def set_env(self, env):
        for ep, name in (("ws", "ws"), ("imds", "imds"), ("hostga", "hostga")):
            want = env.get(ep)
            key = json.dumps(want, sort_keys=True)
            if self.cur_env[ep] != key:
                arg = "none" if want is None else hx(rb.doc_json(want))
                r = self.stack.ctl(f"rules {name} {arg}")
                assert r == "ok", r
                self.cur_env[ep] = key
        k = env.get("key")
        kk = json.dumps(k)
        if self.cur_env["key"] != kk:
            r = self.stack.ctl("key none" if not k else f"key {hx(k[0])} {hx(k[1])}")
            assert r == "ok", r
            self.cur_env["key"] = kk

    def run_burst(self, cases):
        """same environment for all; every case on its own connection, all requests in flight together.
        returns observations (failed summary is read once, after the burst, into the LAST observation)"""
        import threading
        st = self.stack
        self.set_env(cases[0]["env"])
        st.ctl("clear")
        st.hosts.take()
        prepared = []
        for case in cases:
            caller, dest = case.get("caller"), case.get("dest")
            audit = None
            if caller is not None:
                audit = (caller["uid"], caller["pid"], 1 if caller["elevated"] else 0, dest[0], dest[1])
            conn = st.connect(audit=audit)
            self.token_seq += 1
            token = "t%d" % self.token_seq
            if case.get("plan"):
                st.hosts.plans[token] = case["plan"]
            req = dict(case["req"])
            req["headers"] = list(req["headers"]) + [(b"x-verif-token", token.encode())]
            raw = e2e.build_request(req["method"], req["target"], req["headers"], req.get("body"), req.get("chunked"),
                                    req.get("declare", True))
            prepared.append((case, conn, req, raw, token))
        results = [None] * len(prepared)

        def work(i):
            case, conn, req, raw, token = prepared[i]
            results[i] = conn.request(raw, req["method"].encode(), timeout=10.0)
        ths = [threading.Thread(target=work, args=(i,)) for i in range(len(prepared))]
        t0 = time.time()
        for t in ths:
            t.start()
        for t in ths:
            t.join()
        t1 = time.time()
        time.sleep(0.05)
        recs = st.hosts.take()
        failed = st.ctl("failed")
        obs = []
        for i, (case, conn, req, raw, token) in enumerate(prepared):
            mine = [r for r in recs if not r.get("partial") and e2e.hget(r["headers"], b"x-verif-token") == token.encode()]
            conn.close()
            st.hosts.plans.pop(token, None)
            o = {"case": case, "resp": results[i], "recs": mine, "bytes": {"burst": sum(len(r["raw"]) for r in mine)},
                 "failed": None, "t0": t0, "t1": t1, "req": req, "conn": None, "burst": True}
            self.observations.append(o)
            obs.append(o)
        return obs, failed

    def run_case(self, case, conn=None, keep_conn=False, clear=True):
        """case: env, caller (None = direct), dest, req, plan(optional), label.
        returns observation dict"""
        st = self.stack
        self.set_env(case["env"])
        if clear:
            st.ctl("clear")
        st.hosts.take()
        before = st.hosts.total_bytes()
        caller, dest = case.get("caller"), case.get("dest")
        own = conn is None
        if conn is None:
            audit = None
            if caller is not None:
                # the kernel's is_admin field is an integer: only the value 1 means elevated (a case may carry another raw value)
                audit = (caller["uid"], caller["pid"], case.get("is_admin_raw", 1 if caller["elevated"] else 0), dest[0], dest[1])
            conn = st.connect(audit=audit, srcport=case.get("srcport"))
        self.token_seq += 1
        token = "t%d" % self.token_seq
        plan = case.get("plan")
        if plan:
            st.hosts.plans[token] = plan
        req = dict(case["req"])
        req["headers"] = list(req["headers"]) + [(b"x-verif-token", token.encode())]
        raw = e2e.build_request(req["method"], req["target"], req["headers"], req.get("body"), req.get("chunked"),
                                req.get("declare", True), req.get("trailers"))
        t0 = time.time()
        if case.get("env_after_head"):
            # the request's head and the first half of its body arrive, then the environment changes (a key latched / rotated / cleared,
            # rules replaced), then the rest of the body: the request is handled under the environment in force when it is complete
            i = raw.index(b"\r\n\r\n") + 4
            half = i + max(1, (len(raw) - i) // 2)
            ok_ = conn.send(raw[:half])
            time.sleep(0.15)
            self.set_env(case["env_after_head"])
            case["env"] = case["env_after_head"]
            time.sleep(0.05)
            ok_ = ok_ and conn.send(raw[half:])
            resp = conn.read_response(req["method"].encode(), case.get("timeout", 6.0)) if ok_ else None
        elif case.get("send_rate"):
            # a slow client: the head at once, then the body at that many bytes per second
            i = raw.index(b"\r\n\r\n") + 4
            ok_ = conn.send(raw[:i])
            pos = i
            while ok_ and pos < len(raw):
                ok_ = conn.send(raw[pos:pos + case["send_rate"]])
                pos += case["send_rate"]
                if pos < len(raw):
                    time.sleep(1.0)
            resp = conn.read_response(req["method"].encode(), case.get("timeout", 6.0)) if ok_ else None
        else:
            resp = conn.request(raw, req["method"].encode(), timeout=case.get("timeout", 6.0))
        t1 = time.time()
        # give the upstream leg a moment to be recorded (it precedes the response, so usually immediate)
        recs = st.hosts.take()
        if resp is not None and not recs and resp["status"] < 400:
            time.sleep(0.02)
            recs = st.hosts.take()
        after = st.hosts.total_bytes()
        failed = st.ctl("failed")
        st.hosts.plans.pop(token, None)
        if own and not keep_conn:
            conn.close()
        obs = {"case": case, "resp": resp, "recs": recs, "bytes": {k: after[k] - before[k] for k in after},
               "failed": failed, "t0": t0, "t1": t1, "req": req, "conn": conn if keep_conn else None}
        self.observations.append(obs)
        return obs

    def run_session(self, cases, count=None):
        """the cases one after the other on ONE kept-alive client connection (each under its own environment); stops when the
        listener closes the connection. Returns the observations made."""
        conn = None
        done = []
        for c in cases:
            try:
                o = self.run_case(c, conn=conn, keep_conn=True)
            except OSError:
                break
            if conn is not None and o["resp"] is None and not o["recs"]:
                # the listener had already closed the kept connection: nothing was observed
                self.observations.remove(o)
                if count:
                    count("kept_connection_was_closed")
                break
            done.append(o)
            conn, o["conn"] = o["conn"], None
            o["session_index"] = len(done) - 1
            if o["resp"] is None or (e2e.hget(o["resp"]["headers"], b"connection") or b"").lower() == b"close":
                break
        if conn is not None:
            conn.close()
        return done

    def run_after_host_close(self, case1, case2, oracle, count=None):
        """case1 is answered by the host, which then closes that connection (the host ends the upstream connection the client connection is tied
        to); case2 then follows on the SAME client connection. The unchanged agent answers it 502 or ends the client connection; if
        the host does see a request, `oracle` judges it like any relayed request (with the model's prediction for case2)."""
        st = self.stack
        self.set_env(case1["env"])
        c = case1["caller"]
        conn = st.connect(audit=(c["uid"], c["pid"], 1 if c["elevated"] else 0, case1["dest"][0], case1["dest"][1]))
        self.token_seq += 1
        tok = "hc%d" % self.token_seq
        # (no `Connection: close` header: the host just drops the idle connection, as an idle timeout or a restart does)
        st.hosts.plans[tok] = {"status": 200, "reason": "OK", "headers": [(b"content-type", b"text/plain")],
                               "body": b"first", "framing": "cl", "close": True}
        r1 = conn.request(e2e.build_request(case1["req"]["method"], case1["req"]["target"],
                                            list(case1["req"]["headers"]) + [(b"x-verif-token", tok.encode())]), case1["req"]["method"].encode(), 6.0)
        st.hosts.plans.pop(tok, None)
        time.sleep(0.15)
        if r1 is None or r1["status"] != 200:
            conn.close()
            if count:
                count("host_close_first_request_not_relayed")
            return None
        try:
            o2 = self.run_case(dict(case2, caller=case1["caller"], dest=case1["dest"], timeout=2.5), conn=conn, keep_conn=True)
        except OSError:
            conn.close()
            return None
        self.observations.remove(o2)
        conn.close()
        o2["conn"] = None
        if count:
            count("request_after_host_closed_upstream")
        full = [r for r in o2["recs"] if not r.get("partial")]
        now = "Thu, 01 Jan 1970 00:00:00 GMT"
        for r in full:
            d = e2e.hget(r["headers"], b"x-ms-azure-host-date")
            if d:
                now = d.decode("latin-1")
        line = model_line(o2["case"]["env"], o2["case"].get("caller"), o2["case"].get("dest"), o2["req"], now)
        # the model of a connection whose upstream the host has closed (Attribution.afterHostClose): local answers as always, 502
        # in place of a relay
        mc = parse_model(vlib.run_driver(["pipec" + line[4:]])[0])
        if o2["resp"] is None:
            if count:
                count("request_after_host_closed_upstream_client_connection_ended")
        elif mc["kind"] == "respond" and not full and o2["resp"]["status"] != mc["status"]:
            self.chk.disagreement("pipeline-host-closed", self.describe(o2), mc["status"], o2["resp"]["status"])
        if full:
            m = parse_model(vlib.run_driver([line])[0])
            o2["model"] = m
            if count:
                count("request_after_host_closed_upstream_reached_host")
            oracle(self.chk, o2, m)
        return o2

    # ---- model side + comparison
    def finish(self, oracle):
        chk = self.chk
        lines = []
        for o in self.observations:
            c = o["case"]
            now = "Thu, 01 Jan 1970 00:00:00 GMT"
            for r in o["recs"]:
                if not r.get("partial"):
                    d = e2e.hget(r["headers"], b"x-ms-azure-host-date")
                    if d:
                        now = d.decode("latin-1")
            o["now"] = now
            if c.get("nomodel"):
                # bodies of many MiB: the list-based model is not run on them (the driver would need gigabytes); the
                # property oracle still judges the observation
                continue
            lines.append(model_line(c["env"], c.get("caller"), c.get("dest"), o["req"], now))
        outs = iter(vlib.run_driver(lines))
        lines_it = iter(lines)
        for o in self.observations:
            if o["case"].get("nomodel"):
                o["model"] = None
                chk.count("model_not_run_large_body")
                oracle(chk, o, None)
                continue
            ml, line = next(outs), next(lines_it)
            m = parse_model(ml)
            o["model"] = m
            self.compare(o, m, line)
            oracle(chk, o, m)

    def describe(self, o):
        """(also callable as Runner.describe(None, o))"""
        c = o["case"]
        req = o["req"]
        return {"label": c.get("label"), "env": {k: (v if k != "key" else v) for k, v in c["env"].items()},
                "caller": c.get("caller"), "dest": c.get("dest"),
                "request": {"method": req["method"], "target": req["target"],
                            "headers": [(n.decode("latin-1"), v.decode("latin-1")) for n, v in req["headers"]],
                            "body_len": len(req.get("body") or b""), "chunked": req.get("chunked"),
                            "body_head": (req.get("body") or b"")[:40].hex()},
                "status": o["resp"]["status"] if o["resp"] else None,
                "upstream_records": [{"host": r["host"], "start": r.get("start", b"").decode("latin-1"), "partial": r.get("partial")} for r in o["recs"]],
                "upstream_bytes": o["bytes"], "failed_summary": o["failed"]}

    def compare(self, o, m, line):
        chk = self.chk
        resp, recs = o["resp"], o["recs"]
        full = [r for r in recs if not r.get("partial")]
        diffs = []
        if m["kind"] == "bad":
            chk.broken.append({"kind": "driver", "name": "pipe token decode", "why": line[:300]})
            return
        if m["kind"] == "respond":
            if resp is None or resp["status"] != m["status"]:
                diffs.append(("status", m["status"], resp and resp["status"]))
            if sum(o["bytes"].values()) != 0:
                diffs.append(("upstream-bytes", 0, o["bytes"]))
        elif m["kind"] == "panic":
            if resp is not None:
                diffs.append(("panic-expected-no-response", None, resp["status"]))
        elif m["kind"] == "provision":
            if resp is None or resp["status"] not in (200, 400):
                diffs.append(("provision-status", "200|400", resp and resp["status"]))
            if sum(o["bytes"].values()) != 0:
                diffs.append(("upstream-bytes", 0, o["bytes"]))
        elif m["kind"] == "forward":
            dest = o["case"].get("dest")
            want_host = {v: k for k, v in e2e.HOSTS.items()}.get(tuple(dest)) if dest else None
            if want_host is None:
                # destination without a mock host: the proxy cannot connect -> 502
                if resp is None or resp["status"] != 502:
                    diffs.append(("status-unreachable-dest", 502, resp and resp["status"]))
            elif len(full) != 1:
                diffs.append(("upstream-count", 1, len(full)))
            else:
                r = full[0]
                if r["host"] != want_host:
                    diffs.append(("upstream-host", want_host, r["host"]))
                if r["method"].decode("latin-1") != m["method"]:
                    diffs.append(("method", m["method"], r["method"]))
                if r["target"].decode("latin-1") != m["uri"]:
                    diffs.append(("target", m["uri"], r["target"]))
                if r["body"] != m["body"]:
                    diffs.append(("body", len(m["body"]), len(r["body"])))
                mh = []
                for n, v in m["headers"]:
                    if b"@MAC@" in v and m["signed"]:
                        key = o["case"]["env"]["key"][1]
                        v = v.replace(b"@MAC@", e2e.mac_hex(key, m["signed"][1]).encode())
                    mh.append((n, v))
                want = group_headers(mh, IGNORED_REQ)
                got = group_headers(r["headers"], IGNORED_REQ)
                if want != got:
                    diffs.append(("upstream-headers", [(a.decode("latin-1"), b.decode("latin-1")) for a, b in want],
                                  [(a.decode("latin-1"), b.decode("latin-1")) for a, b in got]))
                # response leg
                plan = o["case"].get("plan") or self.stack.hosts.default_plan
                if resp is None:
                    diffs.append(("client-response", plan["status"], None))
                else:
                    if resp["status"] != plan["status"]:
                        diffs.append(("client-status", plan["status"], resp["status"]))
                    nobody = o["req"]["method"] == "HEAD" or plan["status"] in (204, 304)
                    if not nobody and resp["body"] != plan.get("body", b""):
                        diffs.append(("client-body", len(plan.get("body", b"")), len(resp["body"])))
                    wanth = group_headers(list(plan.get("headers", [])) + [(b"x-ms-azure-host-authorization", b"value")], IGNORED_RESP)
                    # marker header is *inserted*: replaces host-sent copies
                    wanth = [(n, v) for n, v in group_headers(plan.get("headers", []), IGNORED_RESP) if n != b"x-ms-azure-host-authorization"]
                    goth = group_headers(resp["headers"], IGNORED_RESP)
                    gm = [v for n, v in goth if n == b"x-ms-azure-host-authorization"]
                    goth2 = [(n, v) for n, v in goth if n != b"x-ms-azure-host-authorization"]
                    if gm != [b"value"]:
                        diffs.append(("marker-header", [b"value"], gm))
                    if wanth != goth2:
                        diffs.append(("client-headers", wanth, goth2))
        # failed-authorization summary count
        if m["kind"] != "bad" and o["failed"] is not None and not o["case"].get("no_failed_compare"):
            n_failed = 0
            if o["failed"] not in ("-", "err"):
                n_failed = sum(int(x.split("|")[-1]) for x in o["failed"].split(","))
            if n_failed != m["failed"]:
                diffs.append(("failed-summary-count", m["failed"], n_failed))
        o["diffs"] = diffs
        if diffs:
            chk.disagreement("pipeline", self.describe(o), {"model": m["kind"], "diffs": str(diffs)[:1500]}, "see case")


def date_ok(value, t0, t1):
    try:
        dt = email.utils.parsedate_to_datetime(value)
    except Exception:
        return False
    ts = dt.timestamp()
    return t0 - 2 <= ts <= t1 + 2 and value.endswith("GMT")


def concurrent_aborts(connect, request_of, k=12, gap=0.018):
    """k clients are connected and have sent their requests at the same time - the messages of all of them are queued at the (slowed)
    actors, each request waiting behind the others' - and then hang up one after the other: replies of every kind come due for
    requests that no longer exist"""
    conns = []
    try:
        # first batch: hang up late, in the order of arrival (the requests are at their later messages by then); second batch: hang
        # up early, last arrival first (the first message of each is still queued behind those of the earlier arrivals)
        for batch, (order, g) in enumerate(((1, gap), (-1, 0.003))):
            for j in range(k):
                c = connect()
                c.send(request_of(batch * k + j))
                conns.append(c)
            for c in conns[::order]:
                time.sleep(g)
                c.close(rst=True)
            conns = []
            time.sleep(0.05)
    finally:
        for c in conns:
            try:
                c.close(rst=True)
            except OSError:
                pass


def abort_storm(stack, callers, n=40, slow_us=4000, dest=None):
    """clients that send a request and hang up at once while every actor is slow (H3 inject point): the request futures are dropped
    while their actor messages are still queued. Returns the response of a request made afterwards on a new connection."""
    dest = dest or e2e.IMDS
    c = callers.caller(0, "curl", True)
    # one actor at a time is the slow one, so that its replies come after the client has gone: the state actor of the key keeper (rules
    # and key reads), the status actor (connection counts and summaries), the provision actor, then all of them
    phases = ["slowactor key_keeper %d" % slow_us, "slowactor agent_status %d" % slow_us, "slowactor provision %d" % slow_us, "slowall %d" % slow_us]
    try:
        for i in range(n):
            if i % max(1, n // len(phases)) == 0:
                stack.ctl(phases[min(len(phases) - 1, i // max(1, n // len(phases)))])
                concurrent_aborts(lambda: stack.connect(audit=(0, c["pid"], 1, dest[0], dest[1])),
                                  lambda j: e2e.build_request("GET", "/metadata/instance?abort=%d-%d" % (i, j), [(b"Host", b"h")]))
            conn = stack.connect(audit=(0, c["pid"], 1, dest[0], dest[1]))
            try:
                conn.send(e2e.build_request("GET", "/metadata/instance?abort=%d" % i, [(b"Host", b"h")]))
                time.sleep(0.004 * (i % 15))        # hang up at different points of the request's way through the actors
            finally:
                conn.close(rst=True)
        time.sleep(0.3)
    finally:
        stack.ctl("khook off")
    time.sleep(0.2)
    conn = stack.connect(audit=(0, c["pid"], 1, dest[0], dest[1]))
    try:
        return conn.request(e2e.build_request("GET", "/metadata/instance?after-aborts=1", [(b"Host", b"h")]), b"GET", 6.0)
    finally:
        conn.close()


def rules_lookup_fails(binp, count=None, first="ws"):
    """the actor that holds the rules dies - first exactly while it handles the rules lookup of a request (its reply is dropped), then
    it is simply gone (the lookup cannot even be sent): returns, per request, what the client got and what reached the hosts.
    Requests: a non-elevated caller to WireServer and to HostGAPlugin, and callers the (deny-everything) rules refuse on IMDS."""
    import e2e as _e
    stack = _e.Stack(binp)
    out = []
    try:
        callers = Callers(stack)
        deny = {"id": "deny-all", "mode": "enforce", "defaultAccess": "deny", "rules": {"privileges": [], "roles": [], "identities": [], "roleAssignments": []}}
        for ep in ("ws", "imds", "hostga"):
            r = stack.ctl("rules %s %s" % (ep, hx(rb.doc_json(deny))))
            assert r == "ok", r
        stack.ctl("actorkill key_keeper")      # dies on the next message it handles: the rules lookup of the first request below
        plan = [("ws", _e.WS, 1000, False), ("imds", _e.IMDS, 1000, False), ("ga", _e.GA, 1001, False), ("ws", _e.WS, 0, True), ("imds", _e.IMDS, 0, True)]
        if first == "imds":
            plan = [plan[1], plan[0]] + plan[2:]          # the request whose lookup kills the actor: one that only the rules refuse
        elif first == "ws-elevated":
            plan = [plan[3]] + plan[:3] + plan[4:]
        for k, (label, dest, uid, elev) in enumerate(plan):
            c = callers.caller(uid, "curl", elev)
            stack.hosts.take()
            before = stack.hosts.total_bytes()
            try:
                conn = stack.connect(audit=(uid, c["pid"], 1 if elev else 0, dest[0], dest[1]))
                resp = conn.request(_e.build_request("GET", "/metadata/instance?lookup=%d" % k, [(b"Host", b"h")]), b"GET", 5.0)
                conn.close()
            except OSError:
                resp = None
            time.sleep(0.05)
            after = stack.hosts.total_bytes()
            out.append({"request": "%s caller uid %d%s to %s, rules in force: deny everything" % ("elevated" if elev else "non-elevated", uid, "", label),
                        "label": label, "elevated": elev, "actor": "dies handling this lookup" if k == 0 else "gone",
                        "status": resp and resp["status"], "upstream_bytes": sum(after.values()) - sum(before.values())})
            if count:
                count("requests_with_the_rules_actor_dead")
        stack.ctl("khook off")
    finally:
        stack.close()
    return out
