"""Lock-step driver for the REAL KeyKeeper (harness engine `keeper`) against the Python fabric mock."""
import json
import os
import shutil
import subprocess
import threading
import time

import e2e
import fabric
import vlib
from vlib import hx, unhx


def status_json(doc):
    d = {"authorizationScheme": "Azure-HMAC-SHA256", "keyDeliveryMethod": "http", "version": doc["version"],
         "requiredClaimsHeaderPairs": ["isRoot"]}
    if doc.get("keyGuid") is not None:
        d["keyGuid"] = doc["keyGuid"]
    if doc.get("secureChannelState") is not None:
        d["secureChannelState"] = doc["secureChannelState"]
    if doc.get("secureChannelEnabled") is not None:
        d["secureChannelEnabled"] = doc["secureChannelEnabled"]
    if doc.get("hasRules"):
        rules = {}
        for ep in ("wireserver", "imds", "hostga"):
            it = doc.get(ep)
            if it is not None:
                rules[ep] = {"defaultAccess": "deny", "mode": it["mode"], "id": it["id"],
                             "rules": {"privileges": [{"name": "c%d" % it["content"], "path": "/c%d" % it["content"]}],
                                       "roles": [], "identities": [], "roleAssignments": []}}
        d["authorizationRules"] = rules
    return json.dumps(d)


def doc_tokens(doc):
    def opt(v):
        return ["N"] if v is None else ["V", hx(v)]
    t = [hx(doc["version"])] + opt(doc.get("secureChannelState"))
    sce = doc.get("secureChannelEnabled")
    t.append("N" if sce is None else ("1" if sce else "0"))
    t += opt(doc.get("keyGuid"))
    t.append("1" if doc.get("hasRules") else "0")
    for ep in ("wireserver", "imds", "hostga"):
        it = doc.get(ep)
        t += ["N"] if it is None else ["V", hx(it["id"]), hx(it["mode"]), str(it["content"])]
    return t


class Keeper:
    def __init__(self, binp, sd=None, interval_ms=15, log_level="Error", key_dir=None, extra_env=None, wrapper=None, fab=None, attach=None):
        """attach = an e2e.Stack: the key keeper is started inside that stack's process (engine `proxy`, op `keeper`)
        instead of a process of its own"""
        e2e.setup_net()
        self.attach = attach
        self.state_op = "state" if attach is None else "kstate"
        self.own_fab = fab is None
        self.fab = fab or fabric.Fabric("127.0.0.1", 0)
        self.sd = sd or vlib.scratch_dir("keeper")
        self.key_dir = key_dir or os.path.join(self.sd, "keys")
        self.log_dir = os.path.join(self.sd, "logs")
        os.makedirs(self.key_dir, exist_ok=True)
        os.makedirs(self.log_dir, exist_ok=True)
        self.exe = os.path.join(self.sd, "harness")
        if attach is None and not os.path.exists(self.exe):
            shutil.copyfile(binp, self.exe); os.chmod(self.exe, 0o755)
            json.dump({"logFolder": self.log_dir, "eventFolder": self.sd + "/events", "latchKeyFolder": self.key_dir,
                       "monitorIntervalInSeconds": 60, "pollKeyStatusIntervalInSeconds": 15, "hostGAPluginSupport": 1,
                       "ebpfProgramName": "e.o", "fileLogLevel": "Trace"}, open(self.sd + "/proxy-agent.json", "w"))
        # gate: status requests wait for a release carrying the answers of that iteration
        self.lock = threading.Condition()
        self.pending_status = 0      # status requests waiting at the gate
        self.served = 0              # plans taken by a status request so far
        self.last_chan = None        # channel state of the agent as last read (hex); None = never read
        self.release = []            # queue of plans
        self.current = None
        self.calls = []              # host-side record of acquire/attest
        self.attest_in_progress = None
        self.trace = []              # (seconds since start, event): the driver's own timeline, attached to a report when lock-step is in doubt
        self.t0 = time.time()
        self.fab.handlers["secure-channel/status"] = self._status
        self.fab.handlers["secure-channel/key"] = self._key
        if attach is not None:
            self.proc = attach.proc
            r = attach.ctl("keeper %s %d %s %s %d" % (self.fab.ip, self.fab.port, hx(self.key_dir), hx(self.log_dir), interval_ms))
            if r != "ok":
                raise RuntimeError("keeper op failed: " + r)
            return
        r, w = os.pipe()
        env = dict(os.environ, VERIF_ENGINE="keeper", VERIF_OUT=f"/dev/fd/{w}", VERIF_HOST_IP=self.fab.ip, VERIF_HOST_PORT=str(self.fab.port),
                   VERIF_KEY_DIR=self.key_dir, VERIF_LOG_DIR=self.log_dir, VERIF_INTERVAL_MS=str(interval_ms), VERIF_LOG_LEVEL=log_level)
        if extra_env:
            env.update(extra_env)
        cmd = (wrapper or []) + [self.exe]
        with open(self.sd + "/stdout.txt", "ab") as so_, open(self.sd + "/stderr.txt", "ab") as se_:
            self.proc = subprocess.Popen(cmd, stdin=subprocess.PIPE, stdout=so_, stderr=se_, pass_fds=(w,), cwd=self.sd, env=env)
        os.close(w)
        self.out = os.fdopen(r)
        line = self.out.readline().strip()
        if line != "ready":
            raise RuntimeError("keeper engine did not start: " + open(self.sd + "/stderr.txt").read()[-600:])

    # ---- fabric handlers
    def _status(self, req):
        with self.lock:
            self.pending_status += 1
            self.tr("status-arrives pending=%d" % self.pending_status)
            self.lock.notify_all()
            while not self.release:
                if not self.lock.wait(timeout=60):
                    self.pending_status -= 1
                    return (503, "text/plain", b"gate timeout")
            self.current = self.release.pop(0)
            self.served += 1
            self.pending_status -= 1
            self.tr("status-served #%d pending=%d" % (self.served, self.pending_status))
            self.lock.notify_all()
            plan = self.current
        st = plan["status"]
        if st["kind"] == "http":
            return (st["code"], "text/plain", b"status failure")
        if st["kind"] == "raw":
            return (200, st.get("ctype", "application/json; charset=utf-8"), st["body"])
        if st["kind"] == "reset":
            return (None, "", b"")
        body = status_json(st["doc"]).encode()
        if st.get("chunked"):
            return (200, "application/json; charset=utf-8", body, False, None, [max(1, len(body) // 3), max(1, len(body) // 3)])
        return (200, "application/json; charset=utf-8", body)

    def _key(self, req):
        plan = self.current or {}
        t = req["target"].lstrip("/")
        self.tr("key-request " + t[-40:])
        if t.endswith("key-attestation"):
            guid = t.split("/")[2]
            a = plan.get("attest", {"kind": "ok"})
            # "lost": the host latches the key but its reply never reaches the guest
            ok = a["kind"] in ("ok", "lost")
            if a.get("delay"):
                self.tr("attest-held")
                self.attest_in_progress = guid
                time.sleep(a["delay"])            # the host takes its time to acknowledge the attestation
                self.attest_in_progress = None
            self.calls.append(("attest", guid, ok, req))
            if a["kind"] == "http":
                return (a["code"], "text/plain", b"attest failure")
            if a["kind"] in ("reset", "lost"):
                return (None, "", b"")
            return (200, "text/plain", b"")
        a = plan.get("acquire", {"kind": "http", "code": 500})
        self.calls.append(("acquire", a.get("guid"), a["kind"] == "key", req))
        if a["kind"] == "http":
            return (a["code"], "text/plain", a.get("body", b"acquire failure"))
        if a["kind"] == "raw":
            return (200, "application/json; charset=utf-8", a["body"])
        if a["kind"] == "reset":
            return (None, "", b"")
        body = json.dumps({"authorizationScheme": "Azure-HMAC-SHA256", "guid": a["guid"], "issued": "2024-01-01T00:00:00Z", "key": a["key"]})
        if a.get("chunked"):
            return (200, "application/json; charset=utf-8", body.encode(), False, None, [20, 40])
        if a["kind"] == "truncated":
            # the whole document, announced 64 bytes longer than it is, then the connection is dropped
            return (200, "application/json; charset=utf-8", body.encode(), True, len(body.encode()) + 64)
        return (200, "application/json; charset=utf-8", body.encode())

    def tr(self, what):
        self.trace.append("%.3f %s" % (time.time() - self.t0, what))

    # ---- control
    def ctl(self, line):
        if self.attach is not None:
            return self.attach.ctl(line)
        self.proc.stdin.write((line + "\n").encode()); self.proc.stdin.flush()
        return self.out.readline().strip()

    def wait_at_gate(self, timeout=8.0, kick=False):
        """wait until the agent is blocked in its next status request (= previous iteration fully done)"""
        end = time.time() + timeout
        kicked = False
        with self.lock:
            while self.pending_status == 0:
                left = end - time.time()
                if left <= 0:
                    return False
                self.lock.wait(timeout=min(left, 0.15))
                # a notify is only neutral while the channel state is Unknown (it then merely ends the 1 s wait early); in the
                # disabled state the agent answers a notify by resetting its state to Unknown, which would be the driver's doing
                if kick and not kicked and self.pending_status == 0 and time.time() > end - timeout + 0.1 and \
                        self.last_chan in (None, hx("Unknown")):
                    kicked = True
                    self.tr("kick")
                    self.lock.release()
                    try:
                        self.ctl("notify")
                    finally:
                        self.lock.acquire()
        return True

    def step(self, plan, kick=False, timeout=8.0):
        """release one iteration with `plan`, wait for it to finish, return the agent's state line"""
        if not self.wait_at_gate(timeout=timeout, kick=kick):
            return None
        with self.lock:
            before = self.served
            self.release.append(plan)
            self.lock.notify_all()
            # the waiting status request must take this plan before "at the gate again" can mean the NEXT iteration
            end = time.time() + timeout
            while self.served == before:
                left = end - time.time()
                if left <= 0:
                    return None
                self.lock.wait(timeout=min(left, 0.1))
        if not self.wait_at_gate(timeout=timeout, kick=kick):
            return None
        self.tr("state-read")
        line = self.ctl(self.state_op)
        self.last_chan = parse_state(line).get("chan")
        return line

    def alive(self):
        return self.proc.poll() is None

    def close(self):
        try:
            with self.lock:
                self.release += [{"status": {"kind": "http", "code": 503}}] * 3
                self.lock.notify_all()
            if self.attach is None:
                self.proc.stdin.write(b"quit\n"); self.proc.stdin.flush()
                self.proc.wait(timeout=3)
        except Exception:
            try:
                self.proc.kill()
            except Exception:
                pass
        if self.attach is None:
            # nothing of a finished keeper stays open (a thorough run starts hundreds of them)
            for f in (self.proc.stdin, getattr(self, "out", None)):
                try:
                    if f is not None:
                        f.close()
                except Exception:
                    pass
            try:
                self.proc.wait(timeout=3)
            except Exception:
                pass
        if self.own_fab:
            self.fab.close()


def parse_state(line):
    out = {}
    for part in line.split(" "):
        k, _, v = part.partition("=")
        out[k] = v
    return out
