#!/usr/bin/env python3
"""Entry point registered in MANIFEST.json:  run_check.py <property id> <quick|thorough>"""
import importlib
import os
import sys
import traceback

HERE = os.path.dirname(os.path.abspath(__file__))
sys.path.insert(0, HERE)
import vlib  # noqa: E402


def main():
    if len(sys.argv) < 3:
        print("usage: run_check.py <Cxx> <quick|thorough> [--replay file]", file=sys.stderr)
        return 2
    pid, tier = sys.argv[1], sys.argv[2]
    tier = os.environ.get("VERIF_TIER", tier) if tier not in ("quick", "thorough") else tier
    mod = importlib.import_module(f"checks.{pid.lower()}")
    chk = vlib.Check(pid, tier)
    try:
        mod.run(chk)
    except Exception as e:  # machinery failure = the tie is not established; never silently pass
        traceback.print_exc()
        chk.broken.append({"kind": "machinery", "name": type(e).__name__, "why": str(e)[:800]})
    return chk.finish(level="proof")


if __name__ == "__main__":
    sys.exit(main())
