#!/usr/bin/env python3
"""Run /repo's pinned suite with the verification guard OFF and compare with BASELINE.json stable_pass."""
import json, os, re, subprocess, sys
REPO = os.environ.get("VERIF_REPO", "/repo")
base = json.load(open("/root/.vp/BASELINE.json"))
env = dict(os.environ, CARGO_NET_OFFLINE="true")
env.pop("RUSTFLAGS", None)


def run_suite(extra):
    p = subprocess.run(["cargo", "test"] + extra + ["--no-fail-fast", "--offline", "--", "--test-threads", "8"],
                       cwd=REPO, env=env, stdout=subprocess.PIPE, stderr=subprocess.STDOUT, text=True)
    crate = None
    out = {}
    for line in p.stdout.splitlines():
        m = re.search(r"Running unittests (\S+) \(target/debug/deps/([A-Za-z0-9_]+)-[0-9a-f]+\)", line)
        if m:
            crate = m.group(2)
            continue
        m = re.match(r"test (\S+) \.\.\. (\w+)", line)
        if m and crate:
            out[(crate, m.group(1))] = m.group(2)
    return out


res = run_suite(["--workspace"])
names = {"azure_proxy_agent": "azure-proxy-agent::bin/azure-proxy-agent::", "ProxyAgentExt": "ProxyAgentExt::bin/ProxyAgentExt::",
         "proxy_agent_shared": "proxy_agent_shared::", "proxy_agent_setup": "proxy_agent_setup::bin/proxy_agent_setup::"}
got = {names.get(c, c + "::") + t: r for (c, t), r in res.items()}
missing = [t for t in base["stable_pass"] if got.get(t) != "ok"]
# timing-dependent tests (event_logger_test sleeps and shares /tmp/event_logger_test) fail now and then under load: a pinned test
# counts as not passing only if it also fails when its package is run again, twice, on its own
PKG = {"azure-proxy-agent::": "azure-proxy-agent", "ProxyAgentExt::": "ProxyAgentExt", "proxy_agent_shared::": "proxy_agent_shared",
       "proxy_agent_setup::": "proxy_agent_setup"}
for attempt in range(2):
    if not missing:
        break
    pkgs = sorted({v for t in missing for k, v in PKG.items() if t.startswith(k)})
    for pk in pkgs:
        again = run_suite(["-p", pk])
        got2 = {names.get(c, c + "::") + t: r for (c, t), r in again.items()}
        for t in list(missing):
            if got2.get(t) == "ok":
                missing.remove(t)
                print("passed when its package was re-run:", t)
print(f"stable_pass: {len(base['stable_pass'])}, passing now: {len(base['stable_pass']) - len(missing)}")
for t in missing:
    print("NOT PASSING:", t, got.get(t))
sys.exit(1 if missing else 0)
