/* LD_PRELOAD shim for one process: the wall clock (CLOCK_REALTIME, gettimeofday, time) is shifted by the number of seconds found in
   the file named by VERIF_CLOCK_OFFSET_FILE, read again on every call - so a test can step the clock of the agent under test while
   it runs. Monotonic clocks are left alone (as a real clock step leaves them). */
#define _GNU_SOURCE
#include <dlfcn.h>
#include <stdio.h>
#include <stdlib.h>
#include <time.h>
#include <sys/time.h>

static long offset_now(void)
{
    const char *p = getenv("VERIF_CLOCK_OFFSET_FILE");
    long v = 0;
    if (p) {
        FILE *f = fopen(p, "r");
        if (f) {
            if (fscanf(f, "%ld", &v) != 1) v = 0;
            fclose(f);
        }
    }
    return v;
}

/* VERIF_CLOCK_DELAY_US: reading the wall clock takes that much longer (a slow clock source) */
static void slow_clock(void)
{
    static long us = -1;
    if (us < 0) {
        const char *p = getenv("VERIF_CLOCK_DELAY_US");
        us = p ? atol(p) : 0;
    }
    if (us > 0) {
        struct timespec d = { us / 1000000, (us % 1000000) * 1000L };
        nanosleep(&d, 0);
    }
}

int clock_gettime(clockid_t id, struct timespec *ts)
{
    static int (*real)(clockid_t, struct timespec *);
    if (!real) real = dlsym(RTLD_NEXT, "clock_gettime");
    if (id == CLOCK_REALTIME || id == CLOCK_REALTIME_COARSE) slow_clock();
    int r = real(id, ts);
    if (r == 0 && (id == CLOCK_REALTIME || id == CLOCK_REALTIME_COARSE)) ts->tv_sec += offset_now();
    return r;
}

int gettimeofday(struct timeval *tv, void *tz)
{
    static int (*real)(struct timeval *, void *);
    if (!real) real = dlsym(RTLD_NEXT, "gettimeofday");
    int r = real(tv, tz);
    if (r == 0 && tv) tv->tv_sec += offset_now();
    return r;
}

time_t time(time_t *t)
{
    struct timespec ts;
    clock_gettime(CLOCK_REALTIME, &ts);
    if (t) *t = ts.tv_sec;
    return ts.tv_sec;
}
