/* LD_PRELOAD shim for one process: changing the owner or the mode of a file takes VERIF_SLOW_ACL_MS milliseconds longer (a busy or
   remote file system). Nothing else is changed: the calls are passed on with their arguments and return what the system returns. */
#define _GNU_SOURCE
#include <dlfcn.h>
#include <stdlib.h>
#include <sys/stat.h>
#include <sys/types.h>
#include <time.h>
#include <unistd.h>

static void slow(void)
{
    const char *p = getenv("VERIF_SLOW_ACL_MS");
    long ms = p ? atol(p) : 0;
    if (ms > 0) {
        struct timespec ts = { ms / 1000, (ms % 1000) * 1000000L };
        nanosleep(&ts, 0);
    }
}

int chmod(const char *path, mode_t mode)
{
    static int (*real)(const char *, mode_t);
    if (!real) real = dlsym(RTLD_NEXT, "chmod");
    slow();
    return real(path, mode);
}

int fchmodat(int fd, const char *path, mode_t mode, int flags)
{
    static int (*real)(int, const char *, mode_t, int);
    if (!real) real = dlsym(RTLD_NEXT, "fchmodat");
    slow();
    return real(fd, path, mode, flags);
}

int chown(const char *path, uid_t u, gid_t g)
{
    static int (*real)(const char *, uid_t, gid_t);
    if (!real) real = dlsym(RTLD_NEXT, "chown");
    slow();
    return real(path, u, g);
}

int lchown(const char *path, uid_t u, gid_t g)
{
    static int (*real)(const char *, uid_t, gid_t);
    if (!real) real = dlsym(RTLD_NEXT, "lchown");
    slow();
    return real(path, u, g);
}

int fchownat(int fd, const char *path, uid_t u, gid_t g, int flags)
{
    static int (*real)(int, const char *, uid_t, gid_t, int);
    if (!real) real = dlsym(RTLD_NEXT, "fchownat");
    slow();
    return real(fd, path, u, g, flags);
}
