"""End-to-end driver used inside a private network namespace (`unshare -n`):
mock metadata hosts + raw clients in Python, the REAL proxy in the Rust harness (engine `proxy`)."""
import errno
import hashlib
import hmac
import json
import os
import select
import socket
import struct
import subprocess
import threading
import time

import vlib
from vlib import hx

WS = ("168.63.129.16", 80)
GA = ("168.63.129.16", 32526)
IMDS = ("169.254.169.254", 80)
OTHER = ("10.77.0.1", 8080)
OTHER2 = ("10.77.0.1", 8081)      # same address, another port (like WireServer :80 / HostGAPlugin :32526)
SELF = ("127.0.0.1", 3080)
HOSTS = {"ws": WS, "ga": GA, "imds": IMDS, "other": OTHER, "other2": OTHER2}
PROXY = ("127.0.0.1", 3080)


def in_netns():
    return os.environ.get("VERIF_IN_NETNS") == "1"


def reexec_in_netns():
    """re-run the current command inside `unshare -n` (root in the sandbox)."""
    import sys
    env = dict(os.environ, VERIF_IN_NETNS="1")
    os.execvpe("unshare", ["unshare", "-n", sys.executable] + sys.argv, env)


def setup_net():
    cmds = [["ip", "link", "set", "lo", "up"]]
    for ip in ("168.63.129.16", "169.254.169.254", "10.77.0.1"):
        cmds.append(["ip", "addr", "add", ip + "/32", "dev", "lo"])
    for c in cmds:
        subprocess.run(c, stdout=subprocess.DEVNULL, stderr=subprocess.DEVNULL)


# ----------------------------------------------------------------------------- http helpers

def _select(rs, ws, xs, timeout):
    """select.select without its limit on descriptor numbers (a long thorough run opens thousands of sockets and pipes)"""
    p = select.poll()
    fds = {}
    for s_ in rs:
        fds[s_.fileno()] = fds.get(s_.fileno(), 0) | select.POLLIN
    for s_ in ws:
        fds[s_.fileno()] = fds.get(s_.fileno(), 0) | select.POLLOUT
    for fd, ev in fds.items():
        if fd < 0:
            raise OSError("closed socket")
        p.register(fd, ev)
    got = dict(p.poll(None if timeout is None else max(0, int(timeout * 1000) + 1)))
    bad = select.POLLERR | select.POLLHUP | select.POLLNVAL
    r = [s_ for s_ in rs if got.get(s_.fileno(), 0) & (select.POLLIN | bad)]
    w = [s_ for s_ in ws if got.get(s_.fileno(), 0) & (select.POLLOUT | bad)]
    return r, w, []


def read_until(sock, buf, marker, timeout):
    end = time.time() + timeout
    while marker not in buf:
        left = end - time.time()
        if left <= 0:
            return buf, False
        r, _, _ = _select([sock], [], [], left)
        if not r:
            return buf, False
        try:
            d = sock.recv(65536)
        except (ConnectionResetError, OSError):
            return buf, False
        if not d:
            return buf, False
        buf += d
    return buf, True


def read_n(sock, buf, n, timeout, rate=None):
    """rate: bytes per second the reader drains at (a slow host), None = as fast as it arrives"""
    end = time.time() + timeout
    t0 = time.time()
    acc = bytearray(buf)
    got0 = len(acc)
    ok = True
    while len(acc) < n:
        if rate:
            ahead = (len(acc) - got0) / float(rate) - (time.time() - t0)
            if ahead > 0:
                time.sleep(min(ahead, 0.25))
                continue
        left = end - time.time()
        if left <= 0:
            ok = False
            break
        r, _, _ = _select([sock], [], [], left)
        if not r:
            ok = False
            break
        try:
            d = sock.recv(min((1 << 16) if rate else (1 << 20), n - len(acc)))
        except (ConnectionResetError, OSError):
            ok = False
            break
        if not d:
            ok = False
            break
        acc += d
    return bytes(acc), ok


def parse_head(head):
    lines = head.split(b"\r\n")
    start = lines[0]
    headers = []
    for l in lines[1:]:
        if not l:
            continue
        i = l.find(b":")
        if i < 0:
            headers.append((l, b""))
        else:
            headers.append((l[:i], l[i + 1:].strip(b" \t")))
    return start, headers


def hget(headers, name):
    name = name.lower()
    for n, v in headers:
        if n.lower() == name:
            return v
    return None


def read_body(sock, buf, headers, timeout, allow_close=False, no_body=False, rate=None):
    """returns (body, rest, ok, raw_body_bytes)"""
    if no_body:
        return b"", buf, True, b""
    te = hget(headers, b"transfer-encoding")
    cl = hget(headers, b"content-length")
    if te is not None and b"chunked" in te.lower():
        body = b""
        raw = b""
        while True:
            buf, ok = read_until(sock, buf, b"\r\n", timeout)
            if not ok:
                return body, buf, False, raw
            i = buf.find(b"\r\n")
            line = buf[:i]
            raw += buf[:i + 2]
            buf = buf[i + 2:]
            try:
                size = int(line.split(b";")[0].strip() or b"0", 16)
            except ValueError:
                return body, buf, False, raw
            if size == 0:
                # trailers until empty line
                while True:
                    buf, ok = read_until(sock, buf, b"\r\n", timeout)
                    if not ok:
                        return body, buf, False, raw
                    j = buf.find(b"\r\n")
                    tl = buf[:j]
                    raw += buf[:j + 2]
                    buf = buf[j + 2:]
                    if not tl:
                        return body, buf, True, raw
            buf, ok = read_n(sock, buf, size + 2, timeout, rate)
            if not ok:
                return body + buf[:size], b"", False, raw + buf
            body += buf[:size]
            raw += buf[:size + 2]
            buf = buf[size + 2:]
    if cl is not None:
        try:
            n = int(cl)
        except ValueError:
            return b"", buf, False, b""
        buf, ok = read_n(sock, buf, n, timeout, rate)
        return buf[:n], buf[n:], ok, buf[:n]
    if allow_close:
        # read until close
        while True:
            r, _, _ = _select([sock], [], [], timeout)
            if not r:
                return buf, b"", False, buf
            try:
                d = sock.recv(65536)
            except OSError:
                d = b""
            if not d:
                return buf, b"", True, buf
            buf += d
    return b"", buf, True, b""


# ----------------------------------------------------------------------------- mock hosts

class MockHosts:
    def __init__(self):
        self.lock = threading.Lock()
        self.records = []     # complete or partial requests
        self.bytes_in = {k: 0 for k in HOSTS}
        self.conns = {k: 0 for k in HOSTS}
        self.plans = {}
        self.default_plan = {"status": 200, "reason": "OK", "headers": [(b"content-type", b"text/plain")],
                             "body": b"ok", "framing": "cl"}
        self.listeners = []
        self.stop = False
        self.conn_seq = 0
        for label, addr in HOSTS.items():
            s = socket.socket(socket.AF_INET, socket.SOCK_STREAM)
            s.setsockopt(socket.SOL_SOCKET, socket.SO_REUSEADDR, 1)
            s.bind(addr)
            s.listen(256)
            self.listeners.append(s)
            t = threading.Thread(target=self._accept_loop, args=(label, s), daemon=True)
            t.start()

    def _accept_loop(self, label, s):
        while not self.stop:
            try:
                c, _ = s.accept()
            except OSError:
                return
            with self.lock:
                self.conns[label] += 1
                self.conn_seq += 1
                cid = self.conn_seq
            threading.Thread(target=self._serve, args=(label, c, cid), daemon=True).start()

    def _serve(self, label, c, cid):
        buf = b""
        try:
            while True:
                buf, ok = read_until(c, buf, b"\r\n\r\n", 120)
                if not ok:
                    if buf:
                        with self.lock:
                            self.bytes_in[label] += len(buf)
                            self.records.append({"host": label, "conn": cid, "partial": True, "raw": buf})
                    return
                i = buf.find(b"\r\n\r\n")
                head = buf[:i]
                rest = buf[i + 4:]
                start, headers = parse_head(head)
                # a host that drains an upload slowly: the caller names the rate (bytes/s) in a header the agent relays untouched
                drain = hget(headers, b"x-verif-drain")
                body, rest2, ok, rawbody = read_body(c, rest, headers, 60, rate=(int(drain) if drain and drain.isdigit() else None))
                raw = head + b"\r\n\r\n" + rawbody
                parts = start.split(b" ")
                rec = {"host": label, "conn": cid, "partial": not ok, "raw": raw, "start": start,
                       "method": parts[0] if parts else b"", "target": parts[1] if len(parts) > 1 else b"",
                       "headers": headers, "body": body, "t": time.time()}
                with self.lock:
                    self.bytes_in[label] += len(raw)
                    self.records.append(rec)
                if not ok:
                    return
                buf = rest2
                token = hget(headers, b"x-verif-token")
                with self.lock:
                    plan = self.plans.get(token.decode() if token else None, self.default_plan)
                if not self._respond(c, plan, parts[0] if parts else b"GET"):
                    return
        finally:
            try:
                c.close()
            except OSError:
                pass

    def _respond(self, c, plan, method):
        status = plan.get("status", 200)
        head = b"HTTP/1.1 %d %s\r\n" % (status, plan.get("reason", "OK").encode())
        for n, v in plan.get("headers", []):
            head += n + b": " + v + b"\r\n"
        body = plan.get("body", b"")
        framing = plan.get("framing", "cl")
        no_body = method == b"HEAD" or status in (204, 304) or 100 <= status < 200
        if framing == "cl":
            head += b"content-length: %d\r\n" % len(body)
            payload = b"" if no_body else body
        elif framing == "chunked":
            head += b"transfer-encoding: chunked\r\n"
            payload = b""
            if not no_body:
                sizes = list(plan.get("chunks") or [len(body)])
                pos = 0
                for sz in sizes:
                    if pos >= len(body):
                        break
                    piece = body[pos:pos + sz]
                    pos += len(piece)
                    if piece:
                        payload += b"%x\r\n" % len(piece) + piece + b"\r\n"
                if pos < len(body):
                    piece = body[pos:]
                    payload += b"%x\r\n" % len(piece) + piece + b"\r\n"
                payload += b"0\r\n\r\n"
        else:  # close-delimited
            head += b"connection: close\r\n"
            payload = b"" if no_body else body
        data = head + b"\r\n" + payload
        splits = sorted(set(x for x in plan.get("splits", []) if 0 < x < len(data)))
        try:
            pos = 0
            for sp in splits:
                c.sendall(data[pos:sp])
                pos = sp
                time.sleep(0.003)
            c.sendall(data[pos:])
            if plan.get("abort_after"):
                return False
        except OSError:
            return False
        return framing != "close" and not plan.get("close")

    def take(self):
        with self.lock:
            r = self.records
            self.records = []
            return r

    def total_bytes(self):
        with self.lock:
            return dict(self.bytes_in)

    def close(self):
        self.stop = True
        for s in self.listeners:
            try:
                s.shutdown(socket.SHUT_RDWR)
            except OSError:
                pass
            try:
                s.close()
            except OSError:
                pass


class SlowAcceptHost:
    """a host whose listen queue is full: a TCP connect to it does not complete until `hold_s` seconds have passed (the client's SYN is
    retransmitted, so it completes about a second after the queue is emptied); with hold_s None it never completes. Once connected,
    every request is answered 200 "slow-host"."""

    def __init__(self, ip, port, hold_s):
        self.addr = (ip, port)
        self.s = socket.socket(socket.AF_INET, socket.SOCK_STREAM)
        self.s.setsockopt(socket.SOL_SOCKET, socket.SO_REUSEADDR, 1)
        self.s.bind(self.addr)
        self.s.listen(0)
        self.fillers = []
        for _ in range(3):                       # the queue of listen(0) holds one or two established connections
            f = socket.socket()
            f.setblocking(False)
            try:
                f.connect(self.addr)
            except (BlockingIOError, OSError):
                pass
            self.fillers.append(f)
        self.stop = False
        self.requests = []
        if hold_s is not None:
            threading.Thread(target=self._run, args=(hold_s,), daemon=True).start()

    def _run(self, hold_s):
        time.sleep(hold_s)
        self.s.settimeout(0.3)
        while not self.stop:
            try:
                c, _ = self.s.accept()
            except OSError:
                continue
            threading.Thread(target=self._serve, args=(c,), daemon=True).start()

    def _serve(self, c):
        buf = b""
        try:
            while True:
                buf, ok = read_until(c, buf, b"\r\n\r\n", 10)
                if not ok:
                    return
                i = buf.find(b"\r\n\r\n")
                self.requests.append(buf[:i])
                buf = buf[i + 4:]
                c.sendall(b"HTTP/1.1 200 OK\r\ncontent-type: text/plain\r\ncontent-length: 9\r\n\r\nslow-host")
        except OSError:
            return
        finally:
            c.close()

    def close(self):
        self.stop = True
        for f in self.fillers:
            try:
                f.close()
            except OSError:
                pass
        try:
            self.s.close()
        except OSError:
            pass


# ----------------------------------------------------------------------------- client

class ClientConn:
    def __init__(self, srcport=0, timeout=5.0):
        self.s = socket.socket(socket.AF_INET, socket.SOCK_STREAM)
        self.s.setsockopt(socket.SOL_SOCKET, socket.SO_REUSEADDR, 1)
        self.s.bind(("127.0.0.1", srcport))
        self.port = self.s.getsockname()[1]
        self.s.settimeout(timeout)
        self.s.connect(PROXY)
        self.buf = b""
        self.timeout = timeout

    def send(self, raw):
        if len(raw) <= (1 << 20):
            try:
                self.s.sendall(raw)
                return True
            except OSError:
                return False
        # a long upload: whatever the server says meanwhile is read while sending (a server that refuses the request answers and
        # closes before the upload is over; the reset that follows would otherwise take the answer with it)
        view = memoryview(raw)
        pos = 0
        self.s.setblocking(False)
        try:
            end = time.time() + 300
            while pos < len(view) and time.time() < end:
                r, w, _ = _select([self.s], [self.s], [], 5.0)
                if r:
                    try:
                        d = self.s.recv(1 << 16)
                    except BlockingIOError:
                        d = None
                    except OSError:
                        return bool(self.buf)
                    if d == b"":
                        return bool(self.buf)
                    if d:
                        self.buf += d
                if w:
                    try:
                        pos += self.s.send(view[pos:pos + (1 << 20)])
                    except BlockingIOError:
                        pass
                    except OSError:
                        return bool(self.buf)
            return pos >= len(view)
        finally:
            try:
                self.s.settimeout(self.timeout)
            except OSError:
                pass

    def read_response(self, method=b"GET", timeout=None):
        timeout = timeout or self.timeout
        self.buf, ok = read_until(self.s, self.buf, b"\r\n\r\n", timeout)
        if not ok:
            return None
        i = self.buf.find(b"\r\n\r\n")
        head = self.buf[:i]
        rest = self.buf[i + 4:]
        start, headers = parse_head(head)
        parts = start.split(b" ", 2)
        try:
            status = int(parts[1])
        except (IndexError, ValueError):
            return None
        no_body = method == b"HEAD" or status in (204, 304) or 100 <= status < 200
        body, rest2, ok, rawbody = read_body(self.s, rest, headers, timeout, allow_close=True, no_body=no_body)
        self.buf = rest2
        return {"status": status, "start": start, "headers": headers, "body": body, "complete": ok,
                "raw": head + b"\r\n\r\n" + rawbody}

    def request(self, raw, method=b"GET", timeout=None):
        if not self.send(raw):
            return None
        return self.read_response(method, timeout)

    def close(self, rst=False):
        try:
            if rst:
                self.s.setsockopt(socket.SOL_SOCKET, socket.SO_LINGER, struct.pack("ii", 1, 0))
            self.s.close()
        except OSError:
            pass


def build_request(method, target, headers, body=None, chunked=None, declare=True, trailers=None):
    """raw HTTP/1.1 request bytes. headers: list of (bytes, bytes). chunked: list of chunk sizes or None."""
    if isinstance(method, str):
        method = method.encode()
    if isinstance(target, str):
        target = target.encode()
    out = method + b" " + target + b" HTTP/1.1\r\n"
    for n, v in headers:
        out += n + b": " + v + b"\r\n"
    if body is None:
        return out + b"\r\n"
    if chunked is not None:
        out += b"Transfer-Encoding: chunked\r\n\r\n"
        pos = 0
        for sz in chunked:
            piece = body[pos:pos + sz]
            pos += len(piece)
            if piece:
                out += b"%x\r\n" % len(piece) + piece + b"\r\n"
        if pos < len(body):
            piece = body[pos:]
            out += b"%x\r\n" % len(piece) + piece + b"\r\n"
        out += b"0\r\n"
        for n, v in (trailers or []):        # trailer section of a chunked message (RFC 9112 7.1.2)
            out += n + b": " + v + b"\r\n"
        out += b"\r\n"
        return out
    if declare:
        out += b"Content-Length: %d\r\n" % len(body)
    return out + b"\r\n" + body


# ----------------------------------------------------------------------------- the stack

class Stack:
    """real proxy (Rust harness) + mock hosts, inside the current network namespace"""

    def __init__(self, binp, log_level="Error", wrapper=None, tmpdir=None):
        setup_net()
        self.hosts = MockHosts()
        self.sd = vlib.scratch_dir("e2e")
        exe = os.path.join(self.sd, "harness")
        import shutil
        shutil.copyfile(binp, exe)
        os.chmod(exe, 0o755)
        cfg = {"logFolder": self.sd + "/logs", "eventFolder": self.sd + "/events", "latchKeyFolder": self.sd + "/keys",
               "monitorIntervalInSeconds": 60, "pollKeyStatusIntervalInSeconds": 15, "hostGAPluginSupport": 1,
               "ebpfProgramName": "ebpf_cgroup.o", "fileLogLevel": "Info"}
        json.dump(cfg, open(os.path.join(self.sd, "proxy-agent.json"), "w"))
        r, w = os.pipe()
        self.panic_log = os.path.join(self.sd, "panics.log")
        os.makedirs(os.path.join(self.sd, "tmp"), exist_ok=True)
        env = dict(os.environ, VERIF_ENGINE="proxy", VERIF_OUT=f"/dev/fd/{w}", VERIF_LOG_LEVEL=log_level,
                   VERIF_PANIC_LOG=self.panic_log, TMPDIR=(tmpdir or os.path.join(self.sd, "tmp")))
        self.proc = subprocess.Popen((wrapper or []) + [exe], stdin=subprocess.PIPE, stdout=open(os.path.join(self.sd, "stdout.txt"), "wb"),
                                     stderr=open(os.path.join(self.sd, "stderr.txt"), "wb"), env=env, pass_fds=(w,), cwd=self.sd)
        os.close(w)
        self.out = os.fdopen(r, "r")
        line = self.out.readline().strip()
        if line != "ready":
            raise RuntimeError(f"harness did not start: {line!r} " + open(os.path.join(self.sd, "stderr.txt")).read()[-800:])
        self.next_port = 20000 + (os.getpid() % 1000) * 7
        self.pids = []

    def ctl(self, line):
        self.proc.stdin.write((line + "\n").encode())
        self.proc.stdin.flush()
        return self.out.readline().strip()

    def fresh_port(self):
        self.next_port += 1
        if self.next_port > 60000:
            self.next_port = 20000
        return self.next_port

    def connect(self, audit=None, srcport=None, timeout=5.0):
        """audit = (logon_id, pid, is_admin, ip, port) or None (direct connection)"""
        sport = srcport or self.fresh_port()
        if audit is not None:
            r = self.ctl("audit %d %d %d %d %s %d" % (sport, audit[0], audit[1], audit[2], audit[3], audit[4]))
            assert r == "ok", r
        for _ in range(50):
            try:
                return ClientConn(sport, timeout)
            except OSError as e:
                if e.errno in (errno.EADDRINUSE, errno.EADDRNOTAVAIL) and srcport is None:
                    sport = self.fresh_port()
                    if audit is not None:
                        self.ctl("audit %d %d %d %d %s %d" % (sport, audit[0], audit[1], audit[2], audit[3], audit[4]))
                    continue
                raise
        raise RuntimeError("no source port")

    def panics(self):
        try:
            return open(self.panic_log).read().splitlines()
        except OSError:
            return []

    def alive(self):
        return self.proc.poll() is None

    def close(self):
        try:
            self.ctl("quit")
        except Exception:
            pass
        try:
            self.proc.wait(timeout=5)
        except Exception:
            self.proc.kill()
        self.hosts.close()
        for p in self.pids:
            try:
                p.kill()
            except Exception:
                pass
        import shutil
        shutil.rmtree(self.sd, ignore_errors=True)

    # processes that stand for callers: a real pid whose exe / cmdline the proxy looks up
    def spawn_caller(self, args=("sleep", "600")):
        p = subprocess.Popen(list(args), stdout=subprocess.DEVNULL, stderr=subprocess.DEVNULL)
        self.pids.append(p)
        return p.pid


def mac_hex(key_hex, data):
    return hmac.new(bytes.fromhex(key_hex), data, hashlib.sha256).hexdigest()
