#!/usr/bin/env python3
"""Run checks against a seeded change: apply /verif/seeded/<name>/patch.diff to /repo, run the quick (or thorough)
check of the named properties, undo the change. Never commits anything in /repo.

usage: seed_eval.py <seeded-dir-name> [--tier quick|thorough] [--props C01,C05 | --all] [--baseline]
Writes /verif/seeded/<name>/result.json: per property rc, the VIOLATION line, replay kinds.
"""
import json
import os
import subprocess
import sys
import shutil

VERIF = os.path.dirname(os.path.dirname(os.path.abspath(__file__)))
REPO = "/repo"


def sh(cmd, **kw):
    return subprocess.run(cmd, shell=True, stdout=subprocess.PIPE, stderr=subprocess.STDOUT, text=True, **kw)


def main():
    name = sys.argv[1]
    tier = "quick"
    props = None
    baseline = False
    args = sys.argv[2:]
    while args:
        a = args.pop(0)
        if a == "--tier":
            tier = args.pop(0)
        elif a == "--props":
            props = args.pop(0).split(",")
        elif a == "--all":
            props = ["C%02d" % i for i in range(1, 21)]
        elif a == "--baseline":
            baseline = True
    d = os.path.join(VERIF, "seeded", name)
    meta = json.load(open(os.path.join(d, "meta.json")))
    if props is None:
        props = [meta["property"]]
    st = sh("git -C %s status --porcelain" % REPO).stdout.strip()
    if st:
        print("refusing: /repo working tree is not clean:\n" + st)
        return 2
    r = sh("git -C %s apply %s" % (REPO, os.path.join(d, "patch.diff")))
    if r.returncode != 0:
        print("patch does not apply: " + r.stdout)
        return 2
    out = {"tier": tier, "results": {}}
    # evidence written during a seeded run must not overwrite the evidence of /repo itself
    ev_backup = os.path.join(VERIF, ".cache", "evidence-backup")
    shutil.rmtree(ev_backup, ignore_errors=True)
    shutil.copytree(os.path.join(VERIF, "evidence"), ev_backup)
    try:
        if baseline:
            b = sh("python3 %s/tools/baseline_off.py" % VERIF, cwd=VERIF)
            out["baseline_tail"] = b.stdout.strip().splitlines()[-1:]
        for p in props:
            c = sh("python3 tools/run_check.py %s %s" % (p, tier), cwd=VERIF, env=dict(os.environ, VERIF_SEED=os.environ.get("VERIF_SEED", "1")))
            lines = c.stdout.strip().splitlines()
            viol = [l for l in lines if l.startswith("VIOLATION")]
            kinds = None
            rp = os.path.join(VERIF, "evidence", "replay", "%s-%s.json" % (p, tier))
            if viol and os.path.exists(rp):
                try:
                    rj = json.load(open(rp))
                    kinds = {"kind": rj.get("kind"), "violation_kinds": rj.get("violation_kinds"),
                             "no_longer_checks": [b.get("name") for b in rj.get("no_longer_checks", rj.get("broken", []))][:6],
                             "disagreement_streams": sorted({x.get("stream") for x in rj.get("disagreements", [])})}
                except Exception as e:  # noqa
                    kinds = {"error": str(e)}
            out["results"][p] = {"rc": c.returncode, "violation": viol[:1], "summary": lines[-1:] , "replay": kinds}
            print(p, c.returncode, viol[:1], json.dumps(kinds)[:400] if kinds else "")
    finally:
        sh("git -C %s checkout -- ." % REPO)
        sh("git -C %s clean -fdq -- ." % REPO)
        shutil.rmtree(os.path.join(VERIF, "evidence"), ignore_errors=True)
        shutil.copytree(ev_backup, os.path.join(VERIF, "evidence"))
        shutil.rmtree(ev_backup, ignore_errors=True)
    # merge with what earlier evaluations of this seed recorded (a later run may cover other properties / skip the baseline)
    rp = os.path.join(d, "result.json")
    try:
        old = json.load(open(rp))
    except (OSError, ValueError):
        old = {}
    merged = dict(old)
    merged["tier"] = tier
    if "baseline_tail" in out:
        merged["baseline_tail"] = out["baseline_tail"]
    merged.setdefault("results", {}).update(out["results"])
    json.dump(merged, open(rp, "w"), indent=1)
    return 0


if __name__ == "__main__":
    sys.exit(main())
