#!/usr/bin/env python3
"""Print the markdown table of seeded changes and the checks that catch them (from seeded/*/meta.json + result.json)."""
import glob
import json
import os

VERIF = os.path.dirname(os.path.dirname(os.path.abspath(__file__)))


def main():
    rows = []
    for d in sorted(glob.glob(os.path.join(VERIF, "seeded", "*"))):
        name = os.path.basename(d)
        try:
            meta = json.load(open(os.path.join(d, "meta.json")))
        except (OSError, ValueError):
            continue
        res = {}
        try:
            res = json.load(open(os.path.join(d, "result.json")))
        except (OSError, ValueError):
            pass
        caught = []
        for p, r in sorted(res.get("results", {}).items()):
            if r["rc"] != 0:
                rp = r.get("replay") or {}
                how = "failing input" if rp.get("kind") == "failing-input" else "no-failing-input-found"
                kinds = rp.get("violation_kinds") or {}
                first = next(iter(kinds), "")
                first = first.split(" | key=")[0][:70]
                caught.append("%s %s (%s)" % (p, tier_of(res), how + (": " + first if first else "")))
            else:
                caught.append("%s: not caught" % p)
        title = (meta.get("title") or meta.get("description") or "")[:110].replace("|", "/")
        files = ", ".join(os.path.basename(f) for f in meta.get("files", []))[:60]
        rows.append("| %s | %s | %s | %s |" % (name, title, files, "; ".join(caught) or "not evaluated"))
    print("| seed | change | file | caught by |")
    print("|---|---|---|---|")
    print("\n".join(rows))


def tier_of(res):
    return res.get("tier", "quick")


if __name__ == "__main__":
    main()
