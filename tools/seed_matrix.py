#!/usr/bin/env python3
"""Print the markdown table of seeded changes and the checks that catch them (from seeded/*/meta.json + result.json)."""
import glob
import json
import os

VERIF = os.path.dirname(os.path.dirname(os.path.abspath(__file__)))


def main():
    rows = []
    for d in sorted(glob.glob(os.path.join(VERIF, "seeded", "*"))):
        name = os.path.basename(d)
        try:
            meta = json.load(open(os.path.join(d, "meta.json")))
        except (OSError, ValueError):
            continue
        res = {}
        try:
            res = json.load(open(os.path.join(d, "result.json")))
        except (OSError, ValueError):
            pass
        caught = []
        quiet = []
        for p, r in sorted(res.get("results", {}).items()):
            if r["rc"] != 0:
                rp = r.get("replay") or {}
                how = "failing input" if rp.get("kind") == "failing-input" else "no-failing-input-found"
                kinds = rp.get("violation_kinds") or {}
                first = next(iter(kinds), "")
                first = first.split(" | key=")[0][:70]
                caught.append("%s %s (%s)" % (p, tier_of(res), how + (": " + first if first else "")))
            else:
                quiet.append(p)
        title = (meta.get("title") or "")
        if not title or title.lower().startswith(("proxy-owned headers cannot", "the latched key", "complete mediation")):
            title = meta.get("description") or title
        title = title[:120].replace("|", "/").replace("\n", " ")
        files = ", ".join(os.path.basename(f) for f in meta.get("files", []))[:60]
        if meta.get("kind") == "harmless":
            verdict = ("ALARM: " + "; ".join(caught) + " — ") if caught else ""
            verdict += "quiet: " + " ".join(quiet) if quiet else verdict or "not evaluated"
        else:
            verdict = "; ".join(caught) if caught else ("NOT CAUGHT" if quiet else "not evaluated")
            if quiet and caught:
                verdict += " (also run, quiet: %s)" % " ".join(quiet)
        rows.append("| %s | %s | %s | %s |" % (name, title, files, verdict))
    print("| seed | change | file | caught by |")
    print("|---|---|---|---|")
    print("\n".join(rows))


def tier_of(res):
    return res.get("tier", "quick")


if __name__ == "__main__":
    main()
