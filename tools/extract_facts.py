#!/usr/bin/env python3
"""Regenerate lean/Gpa/Generated/Facts.lean from /repo's current working tree.

Every fact is taken from ONE anchored pattern that must match exactly once in the named file.
A fact whose pattern is not found (or found more than once) keeps its specification default so the
Lean project still elaborates, and is reported as `unextractable`: run_check.py then treats the
proof obligations of every property that uses it as no longer tied to the code.
"""
import json
import os
import re
import sys

REPO = os.environ.get("VERIF_REPO", "/repo")
HERE = os.path.dirname(os.path.abspath(__file__))
VERIF = os.path.dirname(HERE)
OUT = os.path.join(VERIF, "lean", "Gpa", "Generated", "Facts.lean")

CONST = "proxy_agent/src/common/constants.rs"
E2E = ["C01", "C03", "C04", "C05", "C07", "C10", "C11", "C14", "C15"]
# name, file, regex (group 1 = value), kind, default, properties that rely on it
FACTS = [
    ("healthErrorThreshold", "proxy_agent_extension/src/common.rs",
     r"transition_to_error_threshold:\s*(\d+)\s*,", "nat", 20, ["C20"]),
    ("healthMaxConsecutive", "proxy_agent_extension/src/common.rs",
     r"const\s+MAX_CONSECUTIVE_COUNT\s*:\s*u32\s*=\s*(\d[\d_]*)\s*;", "nat", 10000, ["C20"]),
    ("stateNoteMax", "proxy_agent_extension/src/service_main.rs",
     r"const\s+MAX_STATE_COUNT\s*:\s*u32\s*=\s*(\d[\d_]*)\s*;", "nat", 120, ["C20"]),
    # endpoints (constants.rs)
    ("wireServerIp", CONST, r'pub const WIRE_SERVER_IP\s*:\s*&str\s*=\s*"([^"]*)"\s*;', "str", "168.63.129.16", E2E),
    ("wireServerPort", CONST, r"pub const WIRE_SERVER_PORT\s*:\s*u16\s*=\s*(\d+)(?:u16)?\s*;", "nat", 80, E2E),
    ("gaPluginIp", CONST, r'pub const GA_PLUGIN_IP\s*:\s*&str\s*=\s*"([^"]*)"\s*;', "str", "168.63.129.16", E2E),
    ("gaPluginPort", CONST, r"pub const GA_PLUGIN_PORT\s*:\s*u16\s*=\s*(\d+)(?:u16)?\s*;", "nat", 32526, E2E),
    ("imdsIp", CONST, r'pub const IMDS_IP\s*:\s*&str\s*=\s*"([^"]*)"\s*;', "str", "169.254.169.254", E2E),
    ("imdsPort", CONST, r"pub const IMDS_PORT\s*:\s*u16\s*=\s*(\d+)(?:u16)?\s*;", "nat", 80, E2E),
    ("proxyAgentIp", CONST, r'pub const PROXY_AGENT_IP\s*:\s*&str\s*=\s*"([^"]*)"\s*;', "str", "127.0.0.1", E2E),
    ("proxyAgentPort", CONST, r"pub const PROXY_AGENT_PORT\s*:\s*u16\s*=\s*(\d+)(?:u16)?\s*;", "nat", 3080, E2E),
    ("authorizationScheme", CONST, r'pub const AUTHORIZATION_SCHEME\s*:\s*&str\s*=\s*"([^"]*)"\s*;', "str", "Azure-HMAC-SHA256", E2E),
    ("claimsHeaderName", CONST, r'pub const CLAIMS_HEADER\s*:\s*&str\s*=\s*"([^"]*)"\s*;', "str", "x-ms-azure-host-claims", E2E),
    ("authorizationHeaderName", CONST, r'pub const AUTHORIZATION_HEADER\s*:\s*&str\s*=\s*"([^"]*)"\s*;', "str", "x-ms-azure-host-authorization", E2E),
    ("dateHeaderName", CONST, r'pub const DATE_HEADER\s*:\s*&str\s*=\s*"([^"]*)"\s*;', "str", "x-ms-azure-host-date", E2E),
    ("wireServerIpNetworkByteOrder", CONST, r"pub const WIRE_SERVER_IP_NETWORK_BYTE_ORDER\s*:\s*u32\s*=\s*(0x[0-9A-Fa-f]+)\s*;", "hex", 0x10813FA8, ["C06"]),
    ("imdsIpNetworkByteOrder", CONST, r"pub const IMDS_IP_NETWORK_BYTE_ORDER\s*:\s*u32\s*=\s*(0x[0-9A-Fa-f]+)\s*;", "hex", 0xFEA9FEA9, ["C06"]),
    ("proxyAgentIpNetworkByteOrder", CONST, r"pub const PROXY_AGENT_IP_NETWORK_BYTE_ORDER\s*:\s*u32\s*=\s*(0x[0-9A-Fa-f]+)\s*;", "hex", 0x100007F, ["C06"]),
    ("telemetryMaxMessageSize", "proxy_agent/src/telemetry/event_reader.rs",
     r"const MAX_MESSAGE_SIZE\s*:\s*usize\s*=\s*([0-9_ *]+);", "prod", 65536, ["C18"]),
    ("eventMaxMessageLength", "proxy_agent_shared/src/telemetry/event_logger.rs",
     r"pub const MAX_MESSAGE_LENGTH\s*:\s*usize\s*=\s*([0-9_ *]+);", "prod", 4096, ["C13", "C18"]),
    ("statusMaxMessageLength", "proxy_agent/src/shared_state/agent_status_wrapper.rs",
     r"const MAX_STATUS_MESSAGE_LENGTH\s*:\s*usize\s*=\s*([0-9_ *]+);", "prod", 1024, ["C13"]),
    # body limits (proxy_server.rs): LOW = 1024 * 100 ; LARGE = 1024 * LOW
    ("requestBodyLowLimit", "proxy_agent/src/proxy/proxy_server.rs",
     r"const REQUEST_BODY_LOW_LIMIT_SIZE\s*:\s*usize\s*=\s*([0-9_ *]+);", "prod", 102400, ["C15", "C14", "C01"]),
    ("requestBodyLargeFactor", "proxy_agent/src/proxy/proxy_server.rs",
     r"const REQUEST_BODY_LARGE_LIMIT_SIZE\s*:\s*usize\s*=\s*([0-9_ *]+)\*\s*REQUEST_BODY_LOW_LIMIT_SIZE\s*;", "prod", 1024, ["C15"]),
    # C12: where the key text can enter an error text. kind "count" = number of matches over the listed files (test modules cut off)
    ("computeSignatureCallSites", ["proxy_agent/src/common/hyper_client.rs", "proxy_agent/src/proxy/proxy_server.rs", "proxy_agent/src/key_keeper.rs",
                                   "proxy_agent/src/key_keeper/key.rs", "proxy_agent/src/provision.rs", "proxy_agent/src/proxy_agent_status.rs",
                                   "proxy_agent/src/host_clients/wire_server_client.rs", "proxy_agent/src/host_clients/imds_client.rs",
                                   "proxy_agent/src/telemetry/event_reader.rs", "proxy_agent/src/proxy/proxy_connection.rs"],
     r"compute_signature\s*\(", "count", 2, ["C12"]),
    ("hexKeyWithheldSites", ["proxy_agent/src/common/hyper_client.rs", "proxy_agent/src/proxy/proxy_server.rs"],
     r"Error::Hex\(\s*_\s*,\s*e\s*\)\s*=>\s*Error::Hex\(\s*\"<withheld>\"", "count", 2, ["C12"]),
    ("acquireBodyWithheld", ["proxy_agent/src/key_keeper/key.rs"],
     r"read_response_body\(response\)\s*\.await\s*\.map_err\(\|e\|\s*match e\s*\{\s*Error::Hyper\(HyperErrorType::Deserialize\(_\)\)\s*=>", "count", 1, ["C12"]),
    ("keyReadResponseBodySites", ["proxy_agent/src/key_keeper/key.rs"], r"read_response_body\s*\(", "count", 1, ["C12"]),
    ("keeperRestSaturating", ["proxy_agent/src/key_keeper.rs"], r"let\s+continue_sleep\s*=\s*\w+\.as_millis\(\)\s*\.saturating_sub\(\s*\w+\s*\)", "count", 1, ["C13"]),
    # C16: inside write_provision_state nothing is awaited once the temp file's name has been used; the name is used and renamed there
    ("tagTmpThenAwait", ["proxy_agent/src/provision.rs"],
     r"async fn write_provision_state\b(?:(?!\n\}\n).)*?STATUS_TAG_TMP_FILE_NAME(?:(?!\n\}\n).)*?\.await", "count", 0, ["C16"]),
    ("tagTmpThenRename", ["proxy_agent/src/provision.rs"],
     r"async fn write_provision_state\b(?:(?!\n\}\n).)*?STATUS_TAG_TMP_FILE_NAME(?:(?!\n\}\n).)*?rename\(", "count", 1, ["C16"]),
    # C11: the status task clears the summaries a day after it started / last cleared
    ("statusClearSeconds", "proxy_agent/src/proxy_agent_status.rs",
     r"let\s+(\w+)\s*=\s*Duration::from_secs\(([0-9_ *]+)\)\s*;(?=.*?\bif\s+\w+\.elapsed\(\)\s*>=\s*\1\s*\{[^{}]*?\bclear\w*\()", "prod", 86400, ["C11"]),
    ("statusClearTest", ["proxy_agent/src/proxy_agent_status.rs"], r"\bif\s+\w+\.elapsed\(\)\s*>=\s*\w+\s*\{[^{}]*?\bclear\w*\(", "count", 1, ["C11"]),
    ("statusClearResetsTimer", ["proxy_agent/src/proxy_agent_status.rs"],
     r"\bif\s+(\w+)\.elapsed\(\)\s*>=\s*\w+\s*\{[^{}]*?\bclear\w*\(.{0,600}?\b\1\s*=\s*Instant::now\(\)", "count", 1, ["C11"]),
    ("keeperRestPlainSub", ["proxy_agent/src/key_keeper.rs"], r"let\s+continue_sleep\s*=\s*\w+\.as_millis\(\)\s*-\s*\w+", "count", 0, ["C13"]),
    ("stateKeyReadStatusFile", "proxy_agent_extension/src/constants.rs", r'pub const STATE_KEY_READ_PROXY_AGENT_STATUS_FILE\s*:\s*&str\s*=\s*"([^"]*)"\s*;', "str", "ReadProxyAgentStatusFile", ["C20"]),
    ("stateKeyFileVersion", "proxy_agent_extension/src/constants.rs", r'pub const STATE_KEY_FILE_VERSION\s*:\s*&str\s*=\s*"([^"]*)"\s*;', "str", "FileVersion", ["C20"]),
    ("stateKeyConstants", ["proxy_agent_extension/src/constants.rs"], r"pub const STATE_KEY_\w+\s*:", "count", 2, ["C20"]),
    ("serviceStateCreations", ["proxy_agent_extension/src/service_main.rs"], r"ServiceState::(?:default|new)\(\)", "count", 1, ["C20"]),
    ("localMapType", "linux-ebpf/ebpf_cgroup.c", r"\{[^{}]*__uint\(type,\s*(BPF_MAP_TYPE_\w+)\)[^{}]*\}\s*local_map\s+SEC", "str", "BPF_MAP_TYPE_LRU_HASH", ["C06"]),
    ("auditMapType", "linux-ebpf/ebpf_cgroup.c", r"\{[^{}]*__uint\(type,\s*(BPF_MAP_TYPE_\w+)\)[^{}]*\}\s*audit_map\s+SEC", "str", "BPF_MAP_TYPE_LRU_HASH", ["C06"]),
    ("localMapMaxEntries", "linux-ebpf/ebpf_cgroup.c", r"\{[^{}]*__uint\(max_entries,\s*(\d+)\)[^{}]*\}\s*local_map\s+SEC", "nat", 200, ["C06"]),
    ("auditMapMaxEntries", "linux-ebpf/ebpf_cgroup.c", r"\{[^{}]*__uint\(max_entries,\s*(\d+)\)[^{}]*\}\s*audit_map\s+SEC", "nat", 200, ["C06"]),
    ("skipSigPutUrl", "proxy_agent/src/common/hyper_client.rs", r'(?:\bmethod\s*==\s*(?:&?hyper::)?Method::PUT\s*&&\s*url\s*==\s*(?:"([^"]*)"|([A-Z][A-Z0-9_]*))|\burl\s*==\s*(?:"([^"]*)"|([A-Z][A-Z0-9_]*))\s*&&\s*method\s*==\s*(?:&?hyper::)?Method::PUT|\bMethod::PUT\s*=>\s*url\s*==\s*(?:"([^"]*)"|([A-Z][A-Z0-9_]*)))', "str", "/vmagentlog", ["C04", "C15"]),
    ("skipSigPostUrl", "proxy_agent/src/common/hyper_client.rs", r'(?:\bmethod\s*==\s*(?:&?hyper::)?Method::POST\s*&&\s*url\s*==\s*(?:"([^"]*)"|([A-Z][A-Z0-9_]*))|\burl\s*==\s*(?:"([^"]*)"|([A-Z][A-Z0-9_]*))\s*&&\s*method\s*==\s*(?:&?hyper::)?Method::POST|\bMethod::POST\s*=>\s*url\s*==\s*(?:"([^"]*)"|([A-Z][A-Z0-9_]*)))', "str", "/machine/?comp=telemetrydata", ["C04", "C15"]),
    ("skipSigClauses", ["proxy_agent/src/common/hyper_client.rs"], r'(?:\bmethod\s*==\s*(?:&?hyper::)?Method::\w+\s*&&\s*url\s*==\s*(?:"|[A-Z])|\burl\s*==\s*(?:"[^"]*"|[A-Z][A-Z0-9_]*)\s*&&\s*method\s*==\s*(?:&?hyper::)?Method::\w+|\bMethod::\w+\s*=>\s*url\s*==\s*(?:"|[A-Z]))', "count", 2, ["C04", "C15"]),
    ("keyDirMode", "proxy_agent/src/acl/linux_acl.rs", r"fs::Permissions::from_mode\(\s*0o([0-7]+)\s*\)", "oct", 0o700, ["C12"]),
    ("keyStructDerivesDebug", ["proxy_agent/src/key_keeper/key.rs"],
     r"#\[derive\([^\]]*Debug[^\]]*\)\]\s*(?:#\[[^\]]*\]\s*)*pub struct Key\s*\{", "count", 0, ["C12"]),
    ("keyStructImplsDisplay", ["proxy_agent/src/key_keeper/key.rs"], r"impl\s+(?:std::fmt::)?(?:Display|Debug)\s+for\s+Key\s*\{", "count", 0, ["C12"]),
]

# structural anchors: pattern must be present (count >= 1); no value
ANCHORS = [
    ("stateNoteCallUsesMax", "proxy_agent_extension/src/service_main.rs",
     r"update_service_state_entry\(\s*state_key\s*,\s*state_value\s*,\s*MAX_STATE_COUNT\s*\)", ["C20"]),
]


def strip_comments(src: str) -> str:
    # remove // line comments (not inside strings — good enough for the anchored constants we read)
    out = []
    for line in src.splitlines():
        i = line.find("//")
        if i >= 0 and line[:i].count('"') % 2 == 0:
            line = line[:i]
        out.append(line)
    return "\n".join(out)


def parse_value(kind, text):
    if kind == "nat":
        return int(text.replace("_", ""))
    if kind == "str":
        return text
    if kind == "hex":
        return int(text, 16)
    if kind == "oct":
        return int(text, 8)
    if kind == "prod":
        v = 1
        for part in text.replace("_", "").split("*"):
            if part.strip():
                v *= int(part.strip())
        return v
    raise ValueError(kind)


def lean_value(kind, v):
    if kind in ("nat", "prod", "hex", "oct"):
        return "Nat", str(v)
    if kind == "str":
        return "String", json.dumps(v)
    if kind == "strlist":
        return "List String", "[" + ", ".join(json.dumps(x) for x in v) + "]"
    if kind == "natlist":
        return "List Nat", "[" + ", ".join(str(x) for x in v) + "]"
    raise ValueError(kind)


def extract(extra_facts=None):
    facts = {}
    problems = []
    cache = {}

    def load(rel):
        if rel not in cache:
            p = os.path.join(REPO, rel)
            try:
                cache[rel] = strip_comments(open(p, encoding="utf-8", errors="replace").read())
            except OSError as e:
                cache[rel] = None
                problems.append({"fact": None, "file": rel, "why": f"cannot read: {e}", "props": []})
        return cache[rel]

    for name, rel, rx, kind, default, props in FACTS + (extra_facts or []):
        if kind == "count":
            total = 0
            bad = False
            for r in rel:
                src = load(r)
                if src is None:
                    problems.append({"fact": name, "file": r, "why": "file unreadable", "props": props})
                    bad = True
                    continue
                cut = src.find("#[cfg(test)]")
                total += len(re.findall(rx, src if cut < 0 else src[:cut], flags=re.S))
            facts[name] = {"kind": "nat", "value": default if bad else total, "default": default, "file": ",".join(rel), "props": props}
            continue
        src = load(rel)
        val = default
        if src is None:
            problems.append({"fact": name, "file": rel, "why": "file unreadable", "props": props})
        else:
            ms = re.findall(rx, src, flags=re.S)
            if len(ms) != 1:
                problems.append({"fact": name, "file": rel,
                                 "why": f"pattern matched {len(ms)} times (want 1)", "props": props})
            else:
                cands = [ms[0]] if isinstance(ms[0], str) else [g for g in ms[0] if g] or [ms[0][0]]
                m = cands[0]
                for c in cands:
                    try:
                        parse_value(kind, c)
                        m = c
                        break
                    except ValueError:
                        continue
                if kind == "str" and re.fullmatch(r"[A-Z][A-Z0-9_]*", m or ""):
                    cm = re.findall(r"\bconst\s+%s\s*:\s*&(?:'static\s+)?str\s*=\s*\"([^\"]*)\"\s*;" % re.escape(m), src)
                    if len(cm) == 1:
                        m = cm[0]
                try:
                    val = parse_value(kind, m)
                except Exception as e:  # noqa
                    problems.append({"fact": name, "file": rel, "why": f"bad value {m!r}: {e}", "props": props})
        facts[name] = {"kind": kind, "value": val, "default": default, "file": rel, "props": props}
    for name, rel, rx, props in ANCHORS:
        src = load(rel)
        if src is None or not re.search(rx, src, flags=re.S):
            problems.append({"fact": name, "file": rel, "why": "structural anchor not found", "props": props})
    return facts, problems


def render(facts):
    lines = ["-- GENERATED by tools/extract_facts.py from /repo's working tree; do not edit.",
             "namespace Gpa.Facts"]
    for name, f in facts.items():
        ty, v = lean_value(f["kind"], f["value"])
        lines.append(f"def {name} : {ty} := {v}")
    if "requestBodyLargeFactor" in facts:
        lines.append("def requestBodyLargeLimit : Nat := requestBodyLargeFactor * requestBodyLowLimit")
    lines.append("end Gpa.Facts")
    return "\n".join(lines) + "\n"


def main():
    facts, problems = extract()
    text = render(facts)
    old = None
    try:
        old = open(OUT).read()
    except OSError:
        pass
    if old != text:
        os.makedirs(os.path.dirname(OUT), exist_ok=True)
        tmp = OUT + ".tmp"
        open(tmp, "w").write(text)
        os.replace(tmp, OUT)
    json.dump({"facts": {k: v["value"] for k, v in facts.items()},
               "changed_from_default": {k: v["value"] for k, v in facts.items() if v["value"] != v["default"]},
               "problems": problems}, sys.stdout, indent=1)
    print()


if __name__ == "__main__":
    main()
