"""Mock host fabric in Python (threads + raw sockets): goal state, shared config, IMDS instance info,
telemetry upload, secure-channel status / key / attest. Every request is recorded with its raw bytes."""
import json
import socket
import threading
import time

import e2e
import fabric_docs


class Fabric:
    def __init__(self, ip="127.0.0.1", port=0):
        self.s = socket.socket(socket.AF_INET, socket.SOCK_STREAM)
        self.s.setsockopt(socket.SOL_SOCKET, socket.SO_REUSEADDR, 1)
        self.s.bind((ip, port))
        self.s.listen(128)
        self.ip, self.port = self.s.getsockname()
        self.lock = threading.Lock()
        self.requests = []          # dicts: method, target, headers, body, raw, t
        self.telemetry = []         # (body bytes, answered status)
        self.telemetry_plan = []    # list of statuses to answer with (then 200)
        self.handlers = {}          # prefix -> callable(req) -> (status, content_type, body bytes) | None
        self.stop = False
        self.gate = None            # optional callable(req) -> None, may block (lock-step)
        threading.Thread(target=self._accept, daemon=True).start()

    def _accept(self):
        while not self.stop:
            try:
                c, _ = self.s.accept()
            except OSError:
                return
            threading.Thread(target=self._serve, args=(c,), daemon=True).start()

    def _serve(self, c):
        buf = b""
        try:
            while True:
                buf, ok = e2e.read_until(c, buf, b"\r\n\r\n", 60)
                if not ok:
                    return
                i = buf.find(b"\r\n\r\n")
                head, rest = buf[:i], buf[i + 4:]
                start, headers = e2e.parse_head(head)
                body, rest2, ok, rawbody = e2e.read_body(c, rest, headers, 30)
                parts = start.split(b" ")
                req = {"method": parts[0].decode(), "target": parts[1].decode("latin-1") if len(parts) > 1 else "",
                       "headers": headers, "body": body, "raw": head + b"\r\n\r\n" + rawbody, "t": time.time()}
                with self.lock:
                    self.requests.append(req)
                if not ok:
                    return
                buf = rest2
                if self.gate:
                    self.gate(req)
                status, ctype, rbody, close, *more = self.respond(req)
                if status is None:       # drop the connection (reset-like)
                    return
                declared = more[0] if more and more[0] is not None else len(rbody)     # a handler may announce another length than it sends
                chunks = more[1] if len(more) > 1 else None
                if chunks:
                    # the same body with Transfer-Encoding: chunked, cut at the given sizes (the rest in one last chunk)
                    out = b"HTTP/1.1 %d X\r\ncontent-type: %s\r\ntransfer-encoding: chunked\r\n\r\n" % (status, ctype.encode())
                    pos = 0
                    for n in list(chunks) + [len(rbody)]:
                        piece = rbody[pos:pos + n]
                        pos += len(piece)
                        if piece:
                            out += b"%x\r\n" % len(piece) + piece + b"\r\n"
                    out += b"0\r\n\r\n"
                    c.sendall(out[:len(out) // 2])
                    time.sleep(0.01)              # two TCP segments, so that the body arrives in more than one frame
                    c.sendall(out[len(out) // 2:])
                    if close:
                        return
                    continue
                out = b"HTTP/1.1 %d X\r\ncontent-type: %s\r\ncontent-length: %d\r\n\r\n" % (status, ctype.encode(), declared) + rbody
                c.sendall(out)
                if close:
                    return
        except OSError:
            return
        finally:
            try:
                c.close()
            except OSError:
                pass

    def respond(self, req):
        t = req["target"].lstrip("/")
        for prefix, h in self.handlers.items():
            if t.startswith(prefix):
                r = h(req)
                if r is not None:
                    return r if len(r) >= 4 else (r[0], r[1], r[2], False)
        if req["method"] == "GET" and t.startswith("machine?comp=goalstate"):
            doc = fabric_docs.GOALSTATE.replace("##ip##", self.ip).replace("##port##", str(self.port))
            return 200, "text/xml; charset=utf-8", doc.encode(), False
        if req["method"] == "GET" and t.startswith("machine/") and "type=sharedConfig" in t:
            return 200, "text/xml; charset=utf-8", fabric_docs.SHAREDCONFIG.encode(), False
        if req["method"] == "GET" and t.startswith("metadata/instance"):
            return 200, "application/json; charset=utf-8", fabric_docs.IMDS.encode(), False
        if req["method"] == "POST" and t.startswith("machine/?comp=telemetrydata"):
            with self.lock:
                status = self.telemetry_plan.pop(0) if self.telemetry_plan else 200
                self.telemetry.append((req["body"], status))
            return status, "text/plain", b"", False
        return 404, "text/plain", b"not found", False

    def take(self):
        with self.lock:
            r = self.requests
            self.requests = []
            return r

    def close(self):
        self.stop = True
        try:
            self.s.shutdown(socket.SHUT_RDWR)     # wakes the accept thread, which would otherwise keep the listener open
        except OSError:
            pass
        try:
            self.s.close()
        except OSError:
            pass
