"""C03 WireServer/HostGAPlugin root-only under every policy; no self-proxying."""
import shutil
import e2e
import pipe
import pipegen
import vlib
from vlib import hx
from checks import c02 as rb

ENDPOINTS = [("168.63.129.16", 80, "ws"), ("168.63.129.16", 32526, "ga"), ("169.254.169.254", 80, "imds"),
             ("127.0.0.1", 3080, "self"), ("10.77.0.1", 8080, "other"), ("168.63.129.16", 8080, "other"),
             ("127.0.0.1", 80, "other"), ("169.254.169.254", 32526, "other")]


def direct(chk, rng, binp):
    n = 1500 if chk.tier == "quick" else 60000
    impl_lines, model_lines, meta = [], [], []
    st = {}
    for i in range(n):
        ip, port, label = rng.pick(ENDPOINTS)
        elevated = rng.chance(1, 3)
        doc = None if rng.chance(1, 5) else rb.gen_doc(rng, st)
        if doc is not None and rb.has_dup(doc):
            doc = None
        c = rb.gen_claims(rng, doc) if doc else {"user": "alice", "groups": [], "proc": "curl", "exe": "/usr/bin/curl"}
        path, q = rb.gen_url(rng, doc) if doc else ("/machine", None)
        path = "".join(ch for ch in path if 32 < ord(ch) < 127 and ch not in '?#"<>\\^`{|} ') or "/"
        if q is not None:
            q = "".join(ch for ch in q if 32 < ord(ch) < 127 and ch not in '#"<>\\^`{|} ')
        uri = path + ("?" + q if q is not None else "")
        cl = [hx(c["user"]), str(len(c["groups"]))] + [hx(g) for g in c["groups"]] + [hx(c["proc"]), hx(c["exe"])]
        impl_lines.append(" ".join(["authz", ip, str(port), "1" if elevated else "0",
                                    "none" if doc is None else hx(rb.doc_json(doc)), hx(uri)] + cl))
        model_lines.append(" ".join(["authz", hx(ip), str(port), "1" if elevated else "0"] +
                                    (["N"] if doc is None else ["V"] + rb.doc_tokens(doc)) +
                                    [hx(path)] + (["N"] if q is None else ["V", hx(q)]) + cl))
        meta.append((label, elevated, doc, uri, c))
    sd = vlib.scratch_dir("c03")
    rc, so, se = vlib.run_harness(binp, "rbac", "\n".join(impl_lines) + "\n", env={"VERIF_OUT": sd + "/out.txt"}, cwd=sd)
    if rc != 0:
        chk.broken.append({"kind": "harness", "name": "authz engine", "why": se[-500:]})
        return
    impl = open(sd + "/out.txt").read().split("\n")[:-1]
    shutil.rmtree(sd, ignore_errors=True)
    model = vlib.run_driver(model_lines)
    for (label, elevated, doc, uri, c), io, mo, il in zip(meta, impl, model, impl_lines):
        chk.case(nontrivial_key=("authz", label, elevated, doc and doc["mode"], uri, io))
        chk.count(f"authz_{label}_{'elev' if elevated else 'nonelev'}_{io}")
        if io != mo:
            chk.disagreement("authz", {"endpoint": label, "elevated": elevated, "doc": doc, "uri": uri, "claims": c}, mo, io)
        # oracle: the property itself
        if label in ("ws", "ga") and not elevated and io != "forbidden":
            chk.violation("non-elevated caller not Forbidden on WireServer/HostGAPlugin",
                          {"endpoint": label, "doc": doc, "uri": uri, "claims": c}, expected="forbidden", observed=io,
                          replay_cmd="VERIF_ENGINE=rbac harness < " + il[:1500])
        if label == "self" and io != "forbidden":
            chk.violation("self-destination not Forbidden", {"doc": doc, "uri": uri}, expected="forbidden", observed=io)
    chk.sample({"impl_line": impl_lines[0][:300], "impl": impl[0], "model": model[0]})


def oracle(chk, o, m):
    case = o["case"]
    caller = case.get("caller")
    label = case.get("label")
    relayed = sum(o["bytes"].values()) > 0
    if m is None:
        m = {"kind": "not-modelled"}
    chk.case(nontrivial_key=("e2e", label, caller and caller["elevated"], o["req"]["target"], m["kind"]))
    chk.count(f"e2e_{label}_{'elev' if caller and caller['elevated'] else 'nonelev'}_{m['kind']}{m.get('status','')}")
    if label == "direct-after-elevated" and relayed:
        chk.violation("a connection without a record of its own was relayed to a root-only endpoint as the elevated caller whose "
                      "source port it re-used", pipe.Runner.describe(None, o), expected="no upstream bytes", observed=o["bytes"])
    root_only = label in ("ws", "ga") and caller is not None and not caller["elevated"]
    if (root_only or label == "self") and relayed:
        chk.violation("request relayed although caller is not elevated on a root-only endpoint / destination is the proxy itself",
                      pipe.Runner.describe(None, o), expected="no upstream bytes", observed=o["bytes"])
    if (root_only or label == "self") and m["kind"] == "respond" and m.get("status") == 403:
        if o["resp"] is None or o["resp"]["status"] != 403:
            chk.violation("expected 403", pipe.Runner.describe(None, o), expected=403, observed=o["resp"] and o["resp"]["status"])


def run(chk):
    if not e2e.in_netns():
        e2e.reexec_in_netns()
    rng = vlib.Rng(chk.seed)
    chk.prove()
    if not chk.driver():
        return
    ok, binp, out = vlib.build_harness("agent")
    if not ok:
        chk.broken.append({"kind": "harness", "name": "agent harness build", "why": out[-1500:]})
        return
    direct(chk, rng, binp)
    stack = e2e.Stack(binp)
    try:
        callers = pipe.Callers(stack)
        pipegen.bind_rule_vocab(callers)
        runner = pipe.Runner(chk, stack, callers)
        st = {}
        for i in range(120 if chk.tier == "quick" else 5000):
            label = rng.pick(["ws", "ga", "self", "ws", "ga", "imds"])
            case = pipegen.gen_case(rng, callers, st, dest_label=label)
            # two thirds non-elevated callers, with rules that often grant them
            if rng.chance(2, 3):
                case["caller"] = callers.caller(rng.pick([1000, 1001, 1002, 1, 999, 998, 65534, 2147483648]), case["caller"]["proc"], False)
                if rng.chance(1, 5):
                    # what the kernel side writes when it could not tell (an error status), or any value that is not 1
                    case["is_admin_raw"] = rng.pick([-1, 2, 7, -2147483648])
                    chk.count("is_admin_neither_0_nor_1")
            runner.run_case(case)
            if i % 10 == 3:
                # the same process first elevated, then not (a privilege drop, or its pid re-used): elevation is per connection
                proc = case["caller"]["proc"]
                a = pipegen.gen_case(rng, callers, st, dest_label=rng.pick(["ws", "ga"]))
                a["caller"] = callers.caller(0, proc, True)
                runner.run_case(a)
                b = pipegen.gen_case(rng, callers, st, dest_label=rng.pick(["ws", "ga"]))
                b["caller"] = callers.caller(rng.pick([1000, 1001]), proc, False)
                for ep in ("ws", "hostga"):
                    b["env"][ep] = None          # no rule set at all: only the root-only guard stands between the caller and the host
                chk.count("same_pid_elevated_then_not")
                runner.run_case(b)
            if i % 10 == 7:
                # an elevated caller's connection to a root-only endpoint, then a connection made straight to the listener from the
                # same source port with no record of its own (any local process can do that): it is nobody's, least of all root's
                a = pipegen.gen_case(rng, callers, st, dest_label=rng.pick(["ws", "ga"]))
                a["caller"] = callers.caller(0, a["caller"]["proc"], True)
                for ep in ("ws", "hostga"):
                    a["env"][ep] = None
                o1 = runner.run_case(a, keep_conn=True)
                port = o1["conn"].port
                o1["conn"].close(rst=True)
                o1["conn"] = None
                b = pipegen.gen_case(rng, callers, st, dest_label=a["label"])
                b["env"] = dict(a["env"])
                b["caller"], b["dest"], b["srcport"], b["label"] = None, None, port, "direct-after-elevated"
                chk.count("direct_connection_after_elevated_on_same_port")
                try:
                    runner.run_case(b)
                except OSError:
                    chk.count("port_reuse_not_possible")
        # request targets in absolute form (as a client talking to a proxy may send them), naming other ports and hosts than the
        # connection's recorded destination: the recorded destination decides, a non-elevated caller stays out
        for label, dest in (("ws", e2e.WS), ("ga", e2e.GA)):
            for authority in ("168.63.129.16:8080", "168.63.129.16", "168.63.129.16:32526", "169.254.169.254", "169.254.169.254:80", "example.com:81",
                              "127.0.0.1:3080"):
                c = pipegen.gen_case(rng, callers, st, dest_label=label)
                c["caller"] = callers.caller(1000, "curl", False)
                for ep in ("ws", "hostga", "imds"):
                    c["env"][ep] = None
                c["req"] = {"method": "GET", "target": "http://%s/machine?comp=goalstate" % authority, "headers": [(b"Host", authority.encode())],
                            "body": None, "chunked": None}
                c["nomodel"] = True
                chk.count("absolute_form_targets")
                runner.run_case(c)
        # every non-root user id the generator knows (system accounts, nobody, a high id), not elevated, on both root-only endpoints
        # with no rule set at all
        for uid in sorted(u for u in callers.users if u != 0):
            for label in ("ws", "ga"):
                c = pipegen.gen_case(rng, callers, st, dest_label=label)
                c["caller"] = callers.caller(uid, "curl", False)
                for ep in ("ws", "hostga"):
                    c["env"][ep] = None
                if c["req"]["target"] == "/provision":
                    c["req"]["target"] = "/machine?comp=goalstate"
                chk.count("every_user_id_not_elevated")
                runner.run_case(c)
        runner.finish(oracle)
        chk.sample(runner.describe(runner.observations[0]))
    finally:
        stack.close()
    # the rules cannot be looked up (their actor has died): a non-elevated caller still does not get through to a root-only endpoint
    for ob in pipe.rules_lookup_fails(binp, chk.count):
        if ob["label"] in ("ws", "ga") and not ob["elevated"]:
            chk.case(nontrivial_key=("rules-lookup-fails", ob["label"], ob["actor"], ob["status"]))
            if ob["upstream_bytes"]:
                chk.violation("request relayed although caller is not elevated on a root-only endpoint / destination is the proxy itself", ob,
                              expected="no upstream bytes", observed=ob["upstream_bytes"])
    chk.coverage["rule"] = ("direct calls of proxy_authorizer::authorize over 8 (ip,port) pairs x elevation x rule documents in all "
                            "modes (C02 generator) + e2e requests to WireServer/HostGA/self from mostly non-elevated callers; "
                            "non-trivial = distinct (endpoint, elevation, mode, uri, result)")
