"""C02 RBAC decision = declared semantics, deterministically.
proof: Gpa.Props.C02; correspondence: real serde_json -> from_authorization_item -> is_allowed vs Lean model;
oracle: Lean `specAllowed` (the property's sentence over the document) on the implementation's decision,
plus order-independence evaluated directly on the implementation (permuted documents)."""
import json
import vlib
from vlib import hx

NAMES_P = ["p1", "p2", "p3", "P1"]
NAMES_R = ["r1", "r2", "r3"]
NAMES_I = ["i1", "i2", "i3", "i4"]
PATHS = ["/", "/metadata", "/metadata/instance", "/metadata/identity", "/machine", "/machine/plugins",
         "/vmsettings", "/secret", "/metadata/instance/compute"]
QKEYS = ["comp", "co", "type", "api-version", "a", "ab"]
QVALS = ["goalstate", "config", "1", "2021-02-01", "x", "X", ""]
USERS = ["root", "alice", "bob"]
GROUPS = ["wheel", "adm", "users", "docker"]
PROCS = ["curl", "waagent", "python3"]
EXES = ["/usr/bin/curl", "/usr/sbin/waagent", "/usr/bin/python3", "/opt/app/bin/tool"]
KELVIN = "K"


def case_variant(rng, s):
    out = []
    for ch in s:
        r = rng.below(10)
        if r < 3:
            out.append(ch.upper())
        elif r < 6:
            out.append(ch.lower())
        else:
            out.append(ch)
    return "".join(out)


def gen_doc(rng, st):
    """returns document dict (python), honest/malformed mix"""
    mode = rng.pick(["enforce", "enforce", "audit", "Enforce", "AUDIT", "disabled", "bogus"])
    dflt = rng.pick(["allow", "deny", "Allow", "DENY", "other"])
    upper_rule_paths = rng.chance(1, 3)
    nonascii = rng.chance(1, 25)
    dup_names = rng.chance(1, 8)
    privs = []
    pool_p = NAMES_P[: rng.rand_range(1, 4)]
    for _ in range(rng.rand_range(0, 4)):
        name = rng.pick(pool_p) if dup_names else None
        path = rng.pick(PATHS)
        if upper_rule_paths:
            path = case_variant(rng, path)
        if nonascii and rng.chance(1, 2):
            path = path.replace("k", KELVIN) if "k" in path and rng.chance(1, 2) else path + rng.pick(["é", "İ", "ß"])
        q = None
        if rng.chance(1, 2):
            q = {}
            for _ in range(rng.rand_range(0, 3)):
                k = rng.pick(QKEYS)
                if rng.chance(1, 3):
                    k = case_variant(rng, k)
                v = rng.pick(QVALS)
                if rng.chance(1, 3):
                    v = case_variant(rng, v)
                q[k] = v
        privs.append({"name": name, "path": path, "queryParameters": q})
    if not dup_names:
        names = rng.shuffle(NAMES_P)
        for i, p in enumerate(privs):
            p["name"] = names[i % len(names)] if i < len(names) else f"px{i}"
    else:
        for p in privs:
            if p["name"] is None:
                p["name"] = rng.pick(pool_p)
    idents = []
    pool_i = NAMES_I[: rng.rand_range(1, 4)]
    for j in range(rng.rand_range(0, 4)):
        ident = {"name": rng.pick(pool_i) if dup_names else NAMES_I[j]}
        if rng.chance(1, 2):
            ident["userName"] = rng.pick(USERS)
        if rng.chance(1, 3):
            ident["groupName"] = rng.pick(GROUPS)
        if rng.chance(1, 12):
            # an attribute that is present but empty is still a condition (nobody has an empty user / process / group name)
            ident[rng.pick(["userName", "groupName", "processName", "exePath"])] = ""
        if rng.chance(1, 3):
            e = rng.pick(EXES)
            if rng.chance(1, 3):
                e = e.replace("/", "//", 1) if rng.chance(1, 2) else e + "/"
            if rng.chance(1, 10):
                e = e.replace("/bin", "/./bin")
            ident["exePath"] = e
        if rng.chance(1, 3):
            ident["processName"] = rng.pick(PROCS)
        idents.append(ident)
    roles = []
    pool_r = NAMES_R[: rng.rand_range(1, 3)]
    for j in range(rng.rand_range(0, 3)):
        roles.append({"name": rng.pick(pool_r) if dup_names else NAMES_R[j],
                      "privileges": [rng.pick(NAMES_P + ["ghost"]) for _ in range(rng.rand_range(0, 3))]})
    ras = []
    for _ in range(rng.rand_range(0, 4)):
        ras.append({"role": rng.pick(NAMES_R + ["norole"]),
                    "identities": [rng.pick(NAMES_I + ["nobody"]) for _ in range(rng.rand_range(0, 3))]})
    rules = {"privileges": privs, "roles": roles, "identities": idents, "roleAssignments": ras}
    # malformed stream: drop sections
    if rng.chance(1, 20):
        del rules[rng.pick(list(rules))]
        st["missing_section"] = st.get("missing_section", 0) + 1
    doc = {"id": "sigid", "mode": mode, "defaultAccess": dflt, "rules": rules}
    if rng.chance(1, 30):
        doc["rules"] = None
    return doc


def gen_claims(rng, doc):
    idents = ((doc.get("rules") or {}).get("identities") or [])
    c = {"user": rng.pick(USERS), "groups": [g for g in GROUPS if rng.chance(1, 3)],
         "proc": rng.pick(PROCS), "exe": rng.pick(EXES)}
    if idents and rng.chance(3, 5):
        i = rng.pick(idents)  # make this identity match
        if i.get("userName"):
            c["user"] = i["userName"]
        if i.get("groupName") and i["groupName"] not in c["groups"]:
            c["groups"].append(i["groupName"])
        if i.get("processName"):
            c["proc"] = i["processName"]
        if i.get("exePath"):
            c["exe"] = rng.pick(EXES) if rng.chance(1, 10) else [e for e in EXES if e.split("/")[-1] in i["exePath"]][0]
    return c


def gen_url(rng, doc):
    privs = ((doc.get("rules") or {}).get("privileges") or [])
    if privs and rng.chance(3, 4):
        p = rng.pick(privs)
        base = "".join(ch for ch in p["path"] if ord(ch) < 128) or "/"
        path = base + rng.pick(["", "", "/sub", "x"])
        if rng.chance(1, 2):
            path = case_variant(rng, path)
        qs = []
        if p.get("queryParameters"):
            for k, v in p["queryParameters"].items():
                r = rng.below(10)
                if r < 6:
                    qs.append((case_variant(rng, k), case_variant(rng, v)))
                elif r < 8:
                    qs.append((k, rng.pick(QVALS)))
        for _ in range(rng.below(3)):
            qs.append((rng.pick(QKEYS), rng.pick(QVALS)))
        qs = rng.shuffle(qs)
    else:
        path = rng.pick(PATHS)
        qs = [(rng.pick(QKEYS), rng.pick(QVALS)) for _ in range(rng.below(3))]
    query = None
    if qs or rng.chance(1, 10):
        parts = []
        for k, v in qs:
            r = rng.below(12)
            parts.append(k if r == 0 else (f"{k}={v}"))
        if rng.chance(1, 10):
            parts.append("")
        if rng.chance(1, 10):
            parts.append("=novalue")
        query = "&".join(parts)
    return path, query


def doc_tokens(doc):
    t = [hx(doc["mode"]), hx(doc["defaultAccess"])]
    rules = doc.get("rules")
    if rules is None:
        return t + ["N"]
    t.append("V")

    def sec(key, fn):
        if key not in rules or rules[key] is None:
            return ["N"]
        out = ["V", str(len(rules[key]))]
        for x in rules[key]:
            out += fn(x)
        return out

    def optv(x):
        return ["N"] if x is None else ["V", hx(x)]

    def fp(p):
        out = [hx(p["name"]), hx(p["path"])]
        q = p.get("queryParameters")
        if q is None:
            out.append("N")
        else:
            out += ["V", str(len(q))]
            for k, v in q.items():
                out += [hx(k), hx(v)]
        return out
    t += sec("privileges", fp)
    t += sec("roles", lambda r: [hx(r["name"]), str(len(r["privileges"]))] + [hx(x) for x in r["privileges"]])
    t += sec("identities", lambda i: [hx(i["name"]), *optv(i.get("userName")), *optv(i.get("groupName")),
                                      *optv(i.get("exePath")), *optv(i.get("processName"))])
    t += sec("roleAssignments", lambda a: [hx(a["role"]), str(len(a["identities"]))] + [hx(x) for x in a["identities"]])
    return t


def doc_json(doc):
    d = json.loads(json.dumps(doc))
    rules = d.get("rules")
    if rules:
        for p in rules.get("privileges") or []:
            if p.get("queryParameters") is None:
                p.pop("queryParameters", None)
    if d.get("rules") is None:
        d.pop("rules", None)
    return json.dumps(d, ensure_ascii=False)


def lines_for(doc, path, query, c):
    uri = path + ("?" + query if query is not None else "")
    impl = " ".join(["rbac", hx(doc_json(doc)), hx(uri), hx(c["user"]), str(len(c["groups"]))] +
                    [hx(g) for g in c["groups"]] + [hx(c["proc"]), hx(c["exe"])])
    model = " ".join(["rbac"] + doc_tokens(doc) + [hx(path)] + (["N"] if query is None else ["V", hx(query)]) +
                     [hx(c["user"]), str(len(c["groups"]))] + [hx(g) for g in c["groups"]] + [hx(c["proc"]), hx(c["exe"])])
    return impl, model


def permuted(rng, doc):
    d = json.loads(json.dumps(doc))
    rules = d.get("rules")
    if not rules:
        return d
    for k in ("privileges", "roles", "identities", "roleAssignments"):
        if rules.get(k):
            rules[k] = rng.shuffle(rules[k])
    for r in rules.get("roles") or []:
        r["privileges"] = rng.shuffle(r["privileges"])
    for a in rules.get("roleAssignments") or []:
        a["identities"] = rng.shuffle(a["identities"])
    for p in rules.get("privileges") or []:
        if p.get("queryParameters"):
            items = rng.shuffle(list(p["queryParameters"].items()))
            p["queryParameters"] = dict(items)
    return d


def has_dup(doc):
    rules = doc.get("rules") or {}
    for k in ("privileges", "roles", "identities"):
        names = [x["name"] for x in rules.get(k) or []]
        if len(names) != len(set(names)):
            return True
    return False


def corpus_cases():
    """minimised past failures / hand-picked witnesses; run first"""
    c = {"user": "alice", "groups": [], "proc": "curl", "exe": "/usr/bin/curl"}
    base = lambda privs, mode="enforce", dflt="allow": {"id": "x", "mode": mode, "defaultAccess": dflt, "rules": {
        "privileges": privs, "roles": [{"name": "r1", "privileges": ["p1"]}],
        "identities": [{"name": "i1", "userName": "bob"}],
        "roleAssignments": [{"role": "r1", "identities": ["i1"]}]}}
    out = []
    # F1: rule path with an upper-case letter must still match (deny alice, default allow)
    out.append((base([{"name": "p1", "path": "/Metadata", "queryParameters": None}]), "/metadata/instance", None, c))
    out.append((base([{"name": "p1", "path": "/metadata", "queryParameters": None}]), "/METADATA/instance", None, c))
    out.append((base([{"name": "p1", "path": "/metadata", "queryParameters": {"Comp": "GoalState"}}]), "/metadata", "comp=goalstate", c))
    out.append((base([{"name": "p1", "path": "/metadata", "queryParameters": {"a": "1"}}]), "/metadata", "ab=1&a=1", c))
    out.append((base([{"name": "p1", "path": "/" + KELVIN + "ey", "queryParameters": None}]), "/key", None, c))
    # F2: duplicate privilege names, order matters
    out.append((base([{"name": "p1", "path": "/secret", "queryParameters": None},
                      {"name": "p1", "path": "/other", "queryParameters": None}], dflt="allow"), "/secret", None, c))
    return out


def e2e_rule_sessions(chk, binp):
    """the decision as the listener makes it: requests on kept-alive connections whose URL differs only in a query parameter the
    rules name, and the rule set replaced between identical requests - the verdict is the declared one for the rule set in force and
    the URL at hand, whatever the connection carried before"""
    import e2e
    import pipe
    import pipegen
    stack = e2e.Stack(binp)
    try:
        callers = pipe.Callers(stack)
        runner = pipe.Runner(chk, stack, callers)
        for sess in pipegen.query_rule_sessions(callers):
            done = runner.run_session(sess, chk.count)
            chk.count("listener_verdicts_on_kept_connections", len(done))

        for c_ in pipegen.process_name_cases(callers):
            runner.run_case(c_)
            chk.count("listener_verdicts_long_process_names")

        def oracle(chk_, o, m):
            doc = o["case"]["env"]["imds"]
            relayed = sum(o["bytes"].values()) > 0
            if doc["id"].startswith("q-"):
                granted = doc["rules"]["privileges"][0]["queryParameters"]["resource"]
                q = o["req"]["target"].split("resource=")[1].split("&")[0]
                allowed = q.lower() == granted or doc["mode"] == "audit"
            else:
                # the declared semantics as the Lean specification computes them for this document, caller and URL
                allowed = bool(m.get("spec_may_relay"))
            chk_.case(nontrivial_key=("listener", doc["id"], o["req"]["target"], relayed, o.get("session_index")))
            if relayed != allowed:
                chk_.violation("decision differs from the declared rule semantics", pipe.Runner.describe(None, o),
                               expected="relayed" if allowed else "refused", observed="relayed" if relayed else "refused")
        runner.finish(oracle)
    finally:
        stack.close()


def run(chk):
    import e2e
    if not e2e.in_netns():
        e2e.reexec_in_netns()
    rng = vlib.Rng(chk.seed)
    chk.prove()
    dok = chk.driver()
    ok, binp, out = vlib.build_harness("agent")
    if not ok:
        chk.broken.append({"kind": "harness", "name": "agent harness build", "why": out[-1500:]})
        return
    if dok:
        e2e_rule_sessions(chk, binp)
        # the rule set in force refuses everybody, and the task holding it dies: nobody is let through for that
        import pipe
        for first in ("imds", "ws-elevated"):
            for ob in pipe.rules_lookup_fails(binp, chk.count, first):
                chk.case(nontrivial_key=("rules-lookup-fails", first, ob["label"], ob["elevated"], ob["actor"], ob["status"]))
                if ob["upstream_bytes"]:
                    chk.violation("decision differs from the declared rule semantics", ob, expected="refused (the rule set in force denies everything)",
                                  observed="relayed")
    n = 2500 if chk.tier == "quick" else 120000
    cases = []
    st = {}
    for (doc, path, q, c) in corpus_cases():
        cases.append((doc, path, q, c, "corpus"))
    for _ in range(n):
        doc = gen_doc(rng, st)
        c = gen_claims(rng, doc)
        path, q = gen_url(rng, doc)
        cases.append((doc, path, q, c, "gen"))
    impl_lines, model_lines, meta = [], [], []
    for (doc, path, q, c, src) in cases:
        i, m = lines_for(doc, path, q, c)
        impl_lines.append(i); model_lines.append(m); meta.append(("orig", len(meta)))
        pd = permuted(rng, doc)
        i2, m2 = lines_for(pd, path, q, c)
        impl_lines.append(i2); model_lines.append(m2); meta.append(("perm", len(meta) - 1))
    sd = vlib.scratch_dir("c02")
    outf = sd + "/out.txt"
    rc, so, se = vlib.run_harness(binp, "rbac", "\n".join(impl_lines) + "\n", env={"VERIF_OUT": outf}, cwd=sd)
    if rc != 0:
        chk.broken.append({"kind": "harness", "name": "rbac engine", "why": se[-800:]})
        return
    impl = open(outf).read().split("\n")[:-1]
    model = vlib.run_driver(model_lines) if dok else None
    import shutil
    shutil.rmtree(sd, ignore_errors=True)
    for idx in range(0, len(impl_lines), 2):
        doc, path, q, c, src = cases[idx // 2]
        io, ip = impl[idx], impl[idx + 1]
        dup = has_dup(doc)
        key = None
        if model is not None:
            mo = model[idx].split(" ")
            mp = model[idx + 1].split(" ")
            if mo[0] == "bad-op":
                chk.broken.append({"kind": "driver", "name": "rbac token decode", "why": model_lines[idx][:300]})
                break
            m_dec, s_dec, distinct = mo[0], mo[1], mo[2] == "1"
            # branch classification (from the spec evaluation)
            mode = doc["mode"].lower()
            cls = ("disabled" if mode not in ("audit", "enforce") else
                   ("allow-by-identity" if s_dec == "allow" and m_dec == "allow" and io == "allow" else "other"))
            chk.count("impl_" + io)
            chk.count("dup_names" if dup else "distinct_names")
            if io not in ("allow", "deny"):
                chk.count("impl_error_" + io.split(":")[0])
                if io.startswith("panic"):
                    chk.violation("panic in is_allowed", {"doc": doc, "path": path, "query": q, "claims": c}, observed=io)
                continue
            # correspondence: model vs implementation
            if m_dec != io:
                chk.disagreement("rbac", {"doc": doc, "path": path, "query": q, "claims": c, "src": src}, m_dec, io)
            # oracle 1: declared semantics (only defined for distinct names)
            if distinct and s_dec != io:
                fk = None
                chk.violation("decision differs from the declared rule semantics",
                              {"doc": doc, "path": path, "query": q, "claims": c, "src": src},
                              expected=s_dec, observed=io, finding_key=fk,
                              replay_cmd="VERIF_ENGINE=rbac harness < line: " + impl_lines[idx][:2000])
            # oracle 2: order independence on the implementation itself
            if ip != io:
                fk = "F2-duplicate-names-order" if dup else None
                chk.violation("decision depends on the order in which the document lists its entries",
                              {"doc": doc, "permuted": permuted and json.loads(json.dumps(doc)), "path": path, "query": q, "claims": c},
                              expected=io, observed=ip, finding_key=fk,
                              replay_cmd="VERIF_ENGINE=rbac harness < lines: " + impl_lines[idx][:1000])
            key = (doc_json(doc), path, q, json.dumps(c, sort_keys=True))
            nontrivial = mode in ("audit", "enforce") and (doc.get("rules") or {}).get("privileges")
            chk.case(nontrivial_key=key if nontrivial else None)
            if distinct:
                chk.count("spec_" + s_dec)
        else:
            chk.case()
    chk.sample({"doc": cases[6][0], "path": cases[6][1], "query": cases[6][2], "claims": cases[6][3],
                "impl": impl[12], "model(model spec distinct)": model[12] if model else None})
    chk.sample({"impl_line": impl_lines[14][:400], "model_line": model_lines[14][:400]})
    chk.counts.update({"gen_" + k: v for k, v in st.items()})
    # distribution gate
    tot = max(1, chk.evaluations)
    for k in ("impl_allow", "impl_deny", "dup_names"):
        if chk.counts.get(k, 0) * 100 < tot:
            chk.broken.append({"kind": "gate", "name": "generator sanity", "why": f"{k} under 1% of cases"})
    chk.coverage["rule"] = ("seeded structured rule documents (small name alphabets => dangling and duplicate names, "
                            "prefix/case-related paths, 0-3 query parameters, identities with attribute subsets, "
                            "missing sections, non-ASCII incl. U+212A) x claims x URLs, each also re-evaluated on a "
                            "permuted document; non-trivial = distinct (document,url,claims) with mode audit/enforce "
                            "and at least one privilege")
    chk.assumptions += ["request URIs are ASCII (http::Uri)", "JSON object keys of queryParameters are distinct (serde keeps the last)"]
