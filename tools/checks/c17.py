"""C17 agent upgrade is reversible. The REAL proxy_agent_setup binary (built from /repo) runs in a
private mount namespace with scratch overlays on the four system directories and a recording
stand-in systemctl; file contents and the systemctl log are compared with the Lean model."""
import hashlib
import os
import shutil
import subprocess
import sys
import vlib

SYS = {"sysExe": "/usr/sbin/azure-proxy-agent", "sysCfg": "/etc/azure/proxy-agent.json",
       "sysEbpf": "/usr/lib/azure-proxy-agent/ebpf_cgroup.o", "sysUnit": "/usr/lib/systemd/system/azure-proxy-agent.service"}
ORDER = ["sysExe", "sysCfg", "sysEbpf", "sysUnit", "pkgExe", "pkgCfg", "pkgEbpf", "pkgUnit", "bakExe", "bakCfg", "bakEbpf", "bakUnit"]
CMDS = {"backup": ["backup"], "install": ["install"], "restore1": ["restore"], "restore0": ["restore", "false"],
        "uninstall_service": ["uninstall"], "uninstall_package": ["uninstall", "package"], "purge": ["purge"]}


def in_mntns():
    return os.environ.get("VERIF_IN_MNTNS") == "1"


def reexec():
    env = dict(os.environ, VERIF_IN_MNTNS="1")
    os.execvpe("unshare", ["unshare", "-m", "--propagation", "private", sys.executable] + sys.argv, env)


def build_setup():
    env = vlib.env_offline({"CARGO_TARGET_DIR": os.path.join(vlib.CACHE, "target-setup")})
    env.pop("RUSTFLAGS", None)
    with vlib.locked("cargo"):
        p = subprocess.run(["cargo", "build", "--offline", "-p", "proxy_agent_setup"], cwd=vlib.REPO, env=env, stdout=subprocess.PIPE,
                           stderr=subprocess.STDOUT, text=True)
    binp = os.path.join(vlib.CACHE, "target-setup", "debug", "proxy_agent_setup")
    return p.returncode == 0 and os.path.exists(binp), binp, p.stdout[-3000:]


class World:
    def __init__(self, binp, root):
        self.root = root
        self.tool = os.path.join(root, "tool")
        os.makedirs(os.path.join(self.tool, "ProxyAgent"), exist_ok=True)
        shutil.copyfile(binp, os.path.join(self.tool, "proxy_agent_setup"))
        os.chmod(os.path.join(self.tool, "proxy_agent_setup"), 0o755)
        self.paths = dict(SYS)
        self.paths.update({"pkgExe": self.tool + "/ProxyAgent/azure-proxy-agent", "pkgCfg": self.tool + "/ProxyAgent/proxy-agent.json",
                           "pkgEbpf": self.tool + "/ProxyAgent/ebpf_cgroup.o", "pkgUnit": self.tool + "/azure-proxy-agent.service",
                           "bakExe": self.tool + "/ProxyAgent/Backup/Package/azure-proxy-agent",
                           "bakCfg": self.tool + "/ProxyAgent/Backup/Package/proxy-agent.json",
                           "bakEbpf": self.tool + "/ProxyAgent/Backup/Package/ebpf_cgroup.o",
                           "bakUnit": self.tool + "/ProxyAgent/Backup/azure-proxy-agent.service"})
        # overlays so that the tool's writes to the system directories land in scratch
        for i, d in enumerate(["/usr/sbin", "/etc/azure", "/usr/lib/azure-proxy-agent", "/usr/lib/systemd/system"]):
            up, wk = os.path.join(root, f"up{i}"), os.path.join(root, f"wk{i}")
            os.makedirs(up, exist_ok=True); os.makedirs(wk, exist_ok=True)
            if not os.path.isdir(d):
                os.makedirs(d, exist_ok=True)      # inside the private namespace only if the parent is itself overlaid; else real mkdir (empty dir)
            subprocess.run(["mount", "-t", "overlay", "overlay", "-o", f"lowerdir={d},upperdir={up},workdir={wk}", d], check=True)
        self.bin = os.path.join(root, "fakebin")
        os.makedirs(self.bin, exist_ok=True)
        self.syslog = os.path.join(root, "systemctl.log")
        with open(os.path.join(self.bin, "systemctl"), "w") as f:
            # records every call; like systemd, `stop` of a unit that is not loaded fails (exit status 5)
            f.write("#!/bin/sh\necho \"$@\" >> %s\n"
                    "if [ \"$1\" = stop ] && [ ! -e \"/usr/lib/systemd/system/$2.service\" ] && [ ! -e \"/usr/lib/systemd/system/$2\" ]; then\n"
                    "  echo \"Failed to stop $2.service: Unit $2.service not loaded.\" >&2\n  exit 5\nfi\nexit 0\n" % self.syslog)
        os.chmod(os.path.join(self.bin, "systemctl"), 0o755)
        self.ids = {}

    def content(self, cid):
        """file content for a content id; ids >= 1000 are executables that do NOT answer --version"""
        if cid >= 1000:
            return ("#!/bin/sh\n# content %d\nexit 3\n" % cid).encode()
        # what `--version` prints is free text as far as the setup tool on Linux is concerned
        text = ["1.0.%d", "azure-proxy-agent 1.0.%d", "v1.0.%d", "1.0.%d-beta+build7"][cid % 4] % cid
        # files of clearly different lengths (a shorter file replacing a longer one must not leave a tail behind)
        pad = "# " + "x" * (37 * (cid % 11)) + "\n"
        return ("#!/bin/sh\n# content %d\necho '%s'\n%s" % (cid, text, pad)).encode()

    def put(self, name, cid):
        p = self.paths[name]
        if cid is None:
            if os.path.exists(p):
                os.remove(p)
            return
        os.makedirs(os.path.dirname(p), exist_ok=True)
        with open(p, "wb") as f:
            f.write(self.content(cid))
        os.chmod(p, 0o755)

    def get(self, name):
        p = self.paths[name]
        try:
            b = open(p, "rb").read()
        except OSError:
            return None
        for line in b.split(b"\n"):
            if line.startswith(b"# content "):
                cid = int(line.split()[-1])
                # byte for byte the file written for that content id - not merely something that starts like it
                return cid if b == self.content(cid) else -1
        return -1

    def state(self):
        return [self.get(n) for n in ORDER]

    def digest_outside(self):
        """everything under the scratch upper dirs and the tool dir except the modelled paths and the tool's own log"""
        h = hashlib.sha256()
        known = set(self.paths.values())
        for base in [self.tool] + [os.path.join(self.root, f"up{i}") for i in range(4)]:
            for r, ds, fs in os.walk(base):
                ds.sort()
                for fn in sorted(fs):
                    full = os.path.join(r, fn)
                    rel = os.path.relpath(full, self.root)
                    sysfull = None
                    if rel.startswith("up"):
                        idx = int(rel[2])
                        sysfull = os.path.join(["/usr/sbin", "/etc/azure", "/usr/lib/azure-proxy-agent", "/usr/lib/systemd/system"][idx],
                                               os.path.relpath(full, os.path.join(self.root, f"up{idx}")))
                    if full in known or sysfull in known or fn.startswith("setup.log") or fn == "proxy_agent_setup":
                        continue
                    h.update(rel.encode())
                    try:
                        h.update(open(full, "rb").read())
                    except OSError:
                        pass
        return h.hexdigest()

    def run(self, cmd):
        try:
            os.remove(self.syslog)
        except OSError:
            pass
        env = dict(os.environ, PATH=self.bin + ":" + os.environ.get("PATH", ""))
        p = subprocess.run([os.path.join(self.tool, "proxy_agent_setup")] + CMDS[cmd], env=env, stdout=subprocess.PIPE, stderr=subprocess.STDOUT,
                           text=True, timeout=60)
        try:
            calls = [l.strip() for l in open(self.syslog).read().splitlines()]
        except OSError:
            calls = []
        return p.returncode, calls, p.stdout[-400:]


def run(chk):
    if not in_mntns():
        reexec()
    rng = vlib.Rng(chk.seed)
    chk.prove()
    if not chk.driver():
        return
    ok, binp, out = build_setup()
    if not ok:
        chk.broken.append({"kind": "harness", "name": "proxy_agent_setup build", "why": out[-1500:]})
        return
    root = vlib.scratch_dir("c17")
    w = World(binp, root)
    nseq = 30 if chk.tier == "quick" else 1500
    mlines, obs = [], []
    for s in range(nseq):
        # initial state: nothing installed / a version installed / backup present or absent, arbitrary contents
        nxt = [1 + s * 20]

        def fresh(bad=False):
            nxt[0] += 1
            return nxt[0] % 900 + (1000 if bad else 1)
        installed = rng.chance(3, 4)
        st = {}
        for n in ORDER:
            st[n] = None
        if installed:
            for n in ("sysExe", "sysCfg", "sysEbpf", "sysUnit"):
                st[n] = fresh() if rng.chance(9, 10) else None
        for n in ("pkgExe", "pkgCfg", "pkgEbpf", "pkgUnit"):
            st[n] = fresh(bad=(n == "pkgExe" and rng.chance(1, 12))) if rng.chance(14, 15) else None
        if rng.chance(1, 2):
            for n in ("bakExe", "bakCfg", "bakEbpf", "bakUnit"):
                st[n] = fresh() if rng.chance(5, 6) else None
            if installed and st["sysExe"] is not None and rng.chance(1, 2):
                # a backup an earlier `restore` kept (or a purge that never ran): the same agent version as the one installed, while
                # the configuration / unit file have been edited since
                st["bakExe"] = st["sysExe"]
                if rng.chance(1, 2):
                    st["bakEbpf"] = st["sysEbpf"]
                chk.count("initial_backup_of_the_installed_version")
        # start from a clean tool dir backup
        shutil.rmtree(os.path.join(w.tool, "ProxyAgent", "Backup"), ignore_errors=True)
        for n in ORDER:
            w.put(n, st[n])
        # an unrelated file next to the package and one in a system directory must never change
        open(os.path.join(w.tool, "ProxyAgent", "unrelated.txt"), "w").write("keep %d" % s)
        open("/etc/azure/unrelated.conf", "w").write("keep %d" % s)
        seq = [rng.pick(list(CMDS)) for _ in range(rng.rand_range(1, 8))]
        if s < 4:
            # fixed first sequences: everything installed, a complete package, and a kept backup of the SAME agent version whose other
            # files differ from the installed ones (edited since); upgrade and roll back
            for n in ("sysExe", "sysCfg", "sysEbpf", "sysUnit", "pkgExe", "pkgCfg", "pkgEbpf", "pkgUnit", "bakCfg", "bakEbpf", "bakUnit"):
                st[n] = fresh()
                w.put(n, st[n])
            st["bakExe"] = st["sysExe"] if s % 2 == 0 else fresh()
            w.put("bakExe", st["bakExe"])
            seq = ["backup", "install", "restore1" if s < 2 else "restore0"] + seq[:2]
        elif rng.chance(1, 3):
            seq = ["backup", "install", rng.pick(["restore1", "restore0"])] + seq[:3]
        for cmd in seq:
            before = w.state()
            d0 = w.digest_outside()
            rc, calls, tail = w.run(cmd)
            after = w.state()
            d1 = w.digest_outside()
            mlines.append("setup %s %s" % (cmd, " ".join("-" if v is None else str(v) for v in before)))
            obs.append((s, cmd, before, after, calls, d0 == d1, rc, tail, list(seq)))
    outs = vlib.run_driver(mlines)
    for (s, cmd, before, after, calls, frame_ok, rc, tail, seq), mo in zip(obs, outs):
        want_state, want_ev = mo.split(" | ")
        want = [None if x == "-" else int(x) for x in want_state.split(" ")]
        want_calls = []
        for e in (want_ev.split(",") if want_ev else []):
            if e.startswith("sys:"):
                wv = e[4:]
                want_calls.append(wv if wv == "daemon-reload" else wv + " azure-proxy-agent")
        chk.case(nontrivial_key=("seq", s, cmd, tuple(before)))
        chk.count("cmd_" + cmd)
        d = {"sequence": seq, "command": cmd, "before": dict(zip(ORDER, before)), "after": dict(zip(ORDER, after)), "systemctl": calls, "rc": rc}
        if after != want or calls != want_calls:
            chk.disagreement("setup", d, {"state": dict(zip(ORDER, want)), "systemctl": want_calls}, {"tail": tail[-200:]})
        if not frame_ok:
            chk.violation("a command altered a file outside the four system locations, the backup folder and the tool's log", d)
        if cmd == "purge" and any(after[i] != before[i] for i in range(8)):
            chk.violation("purge changed something other than the backup", d)
        if cmd in ("restore1", "restore0") and before[8] is None and (after != before or calls):
            chk.violation("restore without a backup changed something", d)
        if cmd == "install" and all(before[j] is not None for j in range(4, 8)) and before[4] < 1000 and after[:4] != before[4:8]:
            chk.violation("install did not place exactly the packaged files", d, expected=before[4:8], observed=after[:4])
        if cmd == "uninstall_package" and any(after[j] is not None for j in range(3)):
            chk.violation("uninstall in package mode left installed files in place", d, expected=[None, None, None], observed=after[:3])
    # oracle: the round trip on the implementation
    rt = 0
    i = 0
    while i + 2 < len(obs):
        a, b, c = obs[i], obs[i + 1], obs[i + 2]
        if a[0] == b[0] == c[0] and a[1] == "backup" and b[1] == "install" and c[1] in ("restore1", "restore0"):
            pre = a[2]
            ok_pre = all(pre[j] is not None for j in range(4)) and all(pre[j] is not None for j in range(4, 8)) and pre[4] < 1000 and pre[0] < 1000
            if ok_pre:
                rt += 1
                if c[3][:4] != pre[:4]:
                    chk.violation("backup; install; restore did not reinstate the system files",
                                  {"before": dict(zip(ORDER, pre)), "after": dict(zip(ORDER, c[3]))}, expected=pre[:4], observed=c[3][:4])
                for calls in (b[4], c[4]):
                    if not calls or not calls[0].startswith("stop") or not calls[-1].startswith("start"):
                        chk.violation("service not stopped first / started last around the file replacement", {"systemctl": calls})
        i += 1
    chk.count("roundtrips", rt)
    chk.sample({"model_line": mlines[0], "model_out": outs[0], "real_after": obs[0][3], "systemctl": obs[0][4]})
    shutil.rmtree(root, ignore_errors=True)
    if rt == 0:
        chk.broken.append({"kind": "gate", "name": "generator sanity", "why": "no backup;install;restore round trip from a fully installed state"})
    chk.coverage["rule"] = ("command sequences of length 1-8 (one third start with backup;install;restore) from initial states {nothing / a version "
                            "installed (some file missing), backup present/absent/partial, package complete/incomplete/non-runnable} with distinct "
                            "file contents; after every command the 12 modelled files, the systemctl call log and a digest of everything else "
                            "are compared with the model")
    chk.assumptions += ["systemctl is a recording stand-in; it succeeds except for `stop` of a unit whose file is not installed (exit status 5, as systemd does)", "the private mount namespace's overlayfs behaves like the real directories"]
