"""C09 agent state converges to the host's latest secure-channel status."""
import json
import os
import shutil
import time
import e2e
import keeper
import vlib
from vlib import hx, unhx

IDS = ["", "sig1", "sig2", "inline-9"]
MODES = ["enforce", "audit", "disabled", "Enforce", "AUDIT", "weird"]


def gen_item(rng):
    if rng.chance(1, 4):
        return None
    return {"id": rng.pick(IDS), "mode": rng.pick(MODES), "content": rng.below(4)}


def gen_doc(rng, latched):
    v2 = rng.chance(1, 2)
    doc = {"version": "2.0" if v2 else "1.0"}
    if v2:
        doc["secureChannelEnabled"] = rng.pick([True, True, False])
        doc["hasRules"] = rng.chance(4, 5)
        if rng.chance(1, 10):
            doc["secureChannelState"] = rng.pick(["Wireserver", "Disabled"])
    else:
        doc["secureChannelState"] = rng.pick(["Wireserver", "WireserverAndImds", "Disabled", "wireserver", "DISABLED"])
        doc["hasRules"] = rng.chance(1, 3)
    for ep in ("wireserver", "imds", "hostga"):
        doc[ep] = gen_item(rng)
    r = rng.below(10)
    if r < 5:
        doc["keyGuid"] = latched
    elif r < 7:
        doc["keyGuid"] = None
    else:
        doc["keyGuid"] = rng.pick(["g-a", "g-b", "g-c"])
    return doc


def mode_display(raw):
    l = raw.lower()
    return l if l in ("audit", "enforce") else "disabled"


def canon_rules(s):
    """harness: hexid;Mode;default;hexnames   model: hexid;hexmode;content"""
    if s == "none":
        return None
    parts = s.split(";")
    if len(parts) == 4:
        names = unhx(parts[3]).decode()
        content = int(names[1:]) if names.startswith("c") else -1
        return (unhx(parts[0]).decode(), parts[1].lower(), content)
    return (unhx(parts[0]).decode(), mode_display(unhx(parts[1]).decode()), int(parts[2]))


def _doc(state, guid, rules=None, v2=False):
    d = {"version": "2.0" if v2 else "1.0", "keyGuid": guid, "hasRules": rules is not None}
    if v2:
        d["secureChannelEnabled"] = state != "Disabled"
    else:
        d["secureChannelState"] = state
    for ep in ("wireserver", "imds", "hostga"):
        d[ep] = (rules or {}).get(ep)
    return d


_R = {"wireserver": {"id": "sig1", "mode": "enforce", "content": 1}, "imds": {"id": "sig2", "mode": "audit", "content": 2},
      "hostga": {"id": "inline-9", "mode": "enforce", "content": 3}}
# scripted histories that run first (the shapes earlier seeded changes needed): (document | None = status failure, acquire, attest ok)
SCRIPTS = [
    # the state changes on a poll whose key acquisition fails; the following clean polls must still apply the redirect policy
    [(_doc("Disabled", None), "none", True), (_doc("Wireserver", None), "http", True), (_doc("Wireserver", None), "key", True),
     (_doc("Wireserver", "@latched"), "none", True)],
    [(_doc("Wireserver", None), "key", False), (_doc("Wireserver", None), "key", True), (_doc("Wireserver", "@latched"), "none", True)],
    # rules for every endpoint, then a valid document without them
    [(_doc("Wireserver", None, _R, v2=True), "key", True), (_doc("Wireserver", "@latched", None, v2=True), "none", True),
     (_doc("Wireserver", "@latched", {"wireserver": _R["wireserver"]}, v2=True), "none", True)],
    # rotation, a failed status in between, disable, enable again
    [(_doc("Wireserver", None), "key", True), (None, "none", True), (_doc("Wireserver", None), "key", True), (_doc("Disabled", "@latched"), "none", True),
     (_doc("WireserverAndImds", None), "key", True)],
    # the host hands out the same guid again with another value after an attestation that failed: the new value is stored and used
    [(_doc("Wireserver", None), "key:g-same", False), (_doc("Wireserver", None), "key:g-same", True), (_doc("Wireserver", "@latched"), "none", True)],
    # a damaged key file of an earlier run lies under the guid the host hands out: it is replaced, not kept
    [(_doc("Wireserver", None), "key:g-old+garbage", True), (_doc("Wireserver", "@latched"), "none", True)],
    [(_doc("Disabled", None), "none", True), (_doc("WireserverAndImds", None), "key:g-old2+garbage", True), (_doc("WireserverAndImds", None), "key:g-old2", True)],
]


def keepalive_signing(chk, binp):
    """"the key used is the one the host names as latched" seen from a client connection that stays open across polls: after a
    rotation its requests carry the new key, after the channel is disabled they are unsigned, after re-enabling signed again"""
    import pipe
    from checks import c10
    stack = e2e.Stack(binp)
    try:
        callers = pipe.Callers(stack)
        for ep in ("ws", "imds", "hostga"):
            stack.ctl(f"rules {ep} none")
        kp = keeper.Keeper(None, sd=stack.sd, attach=stack, interval_ms=15)
        K1, K2, K3 = c10.K1, c10.K2, c10.K3
        c = callers.caller(0, "curl", True)
        conn = None
        steps = [("latch", {"version": "1.0", "secureChannelState": "Wireserver", "keyGuid": None}, K1, K1),
                 ("rotation", {"version": "1.0", "secureChannelState": "Wireserver", "keyGuid": None}, K2, K2),
                 ("steady", {"version": "1.0", "secureChannelState": "Wireserver", "keyGuid": K2}, None, K2),
                 ("disabled", {"version": "1.0", "secureChannelState": "Disabled", "keyGuid": K2}, None, None),
                 ("enabled again", {"version": "1.0", "secureChannelState": "Wireserver", "keyGuid": None}, K3, K3)]
        for what, doc, newkey, expect in steps:
            plan = {"status": {"kind": "doc", "doc": doc}, "attest": {"kind": "ok"}}
            if newkey:
                plan["acquire"] = {"kind": "key", "guid": newkey, "key": c10.KEYS[newkey]}
            if kp.step(plan, kick=True) is None:
                chk.broken.append({"kind": "harness", "name": "keepalive-signing", "why": "no next poll after: " + what})
                break
            if conn is None:
                conn = stack.connect(audit=(0, c["pid"], 1, e2e.IMDS[0], e2e.IMDS[1]))     # opened once, after the first latch
            stack.hosts.take()
            r = conn.request(e2e.build_request("GET", "/metadata/instance?step=" + what[:3], [(b"Host", b"h")]), b"GET", 5.0)
            time.sleep(0.03)
            recs = [x for x in stack.hosts.take() if not x.get("partial")]
            chk.case(nontrivial_key=("keepalive-signing", what))
            chk.count("keepalive_signing_steps")
            d = {"step": what, "connection": "opened after the first latch and kept open", "status": r and r["status"]}
            if not recs:
                chk.disagreement("keeper-state", d, "request relayed", "nothing reached the host")
                continue
            g, okmac, prod = c10.verify(recs[0])
            if expect is None and g is not None:
                chk.violation("the channel is reported disabled but a request on an open connection is still signed", d, expected="unsigned", observed=g)
            elif expect is not None and (g != expect or not okmac):
                chk.violation("a request on an open connection is not signed with the key the host names as latched", d, expected=expect,
                              observed={"announced": g, "mac_ok": okmac, "mac_made_with": prod})
        # a rotation whose attestation the host acknowledges slowly: a request relayed meanwhile is not signed with the key that is
        # still waiting for that acknowledgement (the host would not know it)
        if conn is not None:
            import threading
            K_slow = K1
            plan = {"status": {"kind": "doc", "doc": {"version": "1.0", "secureChannelState": "Wireserver", "keyGuid": None}},
                    "acquire": {"kind": "key", "guid": K_slow, "key": c10.KEYS[K_slow]}, "attest": {"kind": "ok", "delay": 1.2}}
            res = {}
            th = threading.Thread(target=lambda: res.update(st=kp.step(plan, kick=True, timeout=20.0)), daemon=True)
            th.start()
            end = time.time() + 6
            while kp.attest_in_progress is None and time.time() < end and th.is_alive():
                time.sleep(0.02)
            if kp.attest_in_progress is not None:
                time.sleep(0.2)
                stack.hosts.take()
                try:
                    r = conn.request(e2e.build_request("GET", "/metadata/instance?step=attesting", [(b"Host", b"h")]), b"GET", 5.0)
                except OSError:
                    r = None
                time.sleep(0.03)
                recs = [x for x in stack.hosts.take() if not x.get("partial")]
                chk.case(nontrivial_key=("keepalive-signing", "while the attestation is pending", bool(recs)))
                chk.count("keepalive_signing_during_attestation")
                for rec in recs:
                    g, okmac, prod = c10.verify(rec)
                    if g == K_slow:
                        chk.violation("a request on an open connection is not signed with the key the host names as latched",
                                      {"step": "the host has not yet acknowledged the attestation of the new key", "status": r and r["status"]},
                                      expected=K3, observed={"announced": g, "mac_ok": okmac, "mac_made_with": prod})
            th.join(timeout=25)
        # shutdown is signalled while the connection is still open: whatever is still relayed on it is signed as before (the host
        # goes on regarding its key as latched), or nothing is relayed at all
        if conn is not None and stack.ctl("cancel") == "ok":
            time.sleep(0.3)
            stack.hosts.take()
            try:
                r = conn.request(e2e.build_request("GET", "/metadata/instance?step=shutdown", [(b"Host", b"h")]), b"GET", 3.0)
            except OSError:
                r = None
            time.sleep(0.03)
            recs = [x for x in stack.hosts.take() if not x.get("partial")]
            chk.case(nontrivial_key=("keepalive-signing", "after shutdown signal", bool(recs)))
            chk.count("keepalive_signing_after_shutdown_signal")
            for rec in recs:
                g, okmac, prod = c10.verify(rec)
                if g != K1 or not okmac:
                    chk.violation("a request on an open connection is not signed with the key the host names as latched",
                                  {"step": "after the shutdown signal", "connection": "opened after the first latch and kept open", "status": r and r["status"]},
                                  expected=K1, observed={"announced": g, "mac_ok": okmac, "mac_made_with": prod})
        if conn is not None:
            conn.close()
        kp.close()
    finally:
        stack.close()


def disable_under_load(chk, binp):
    """the channel is reported disabled while hundreds of requests keep the key keeper's state actor busy (its mailbox is full):
    the agent still ends up without a key"""
    import pipe
    import threading
    from checks import c10
    stack = e2e.Stack(binp)
    conns = []
    stop = [False]
    try:
        callers = pipe.Callers(stack)
        for ep in ("ws", "imds", "hostga"):
            stack.ctl(f"rules {ep} none")
        kp = keeper.Keeper(None, sd=stack.sd, attach=stack, interval_ms=15)
        K1 = c10.K1
        doc_on = {"version": "1.0", "secureChannelState": "Wireserver", "keyGuid": None}
        if kp.step({"status": {"kind": "doc", "doc": doc_on}, "acquire": {"kind": "key", "guid": K1, "key": c10.KEYS[K1]}, "attest": {"kind": "ok"}}, kick=True) is None:
            chk.broken.append({"kind": "harness", "name": "disable-under-load", "why": "no poll after latch"})
            return
        c = callers.caller(0, "curl", True)
        for i in range(24):
            try:
                conns.append(stack.connect(audit=(0, c["pid"], 1, e2e.IMDS[0], e2e.IMDS[1])))
            except OSError:
                break
        raw = e2e.build_request("GET", "/metadata/instance?load=1", [(b"Host", b"h")])

        def worker(conn):
            while not stop[0]:
                try:
                    if conn.request(raw, b"GET", 10.0) is None:
                        return
                except OSError:
                    return
        # 400 readers (what request handlers are) queue up at the state actor the moment the poll records the new channel state:
        # its mailbox of 100 is full when the poll goes on to clear the key
        stack.ctl("floodactor SetSecureChannelState 400 2000")
        ths = [threading.Thread(target=worker, args=(cn,), daemon=True) for cn in conns]
        for t in ths:
            t.start()
        time.sleep(0.3)
        st = kp.step({"status": {"kind": "doc", "doc": {"version": "1.0", "secureChannelState": "Disabled", "keyGuid": K1}}, "attest": {"kind": "ok"}},
                     kick=False, timeout=60.0)
        stop[0] = True
        stack.ctl("khook off")
        for t in ths:
            t.join(timeout=15)
        time.sleep(0.3)
        line = stack.ctl("kstate")
        s_ = keeper.parse_state(line)
        chk.case(nontrivial_key=("disable-under-load", len(conns), s_.get("chan"), s_.get("haskey")))
        chk.count("disable_under_load")
        d = {"load": "%d kept-alive connections sending requests in a loop; 400 reader messages queued at the key keeper's state actor (mailbox: 100) when the poll records the new state" % len(conns),
             "document": "secureChannelState Disabled", "agent_state_afterwards": line[:200]}
        if st is None:
            chk.disagreement("keeper-lockstep", d, "the poll completes", "no next status poll within the time limit")
        elif s_.get("chan") != hx("disabled"):
            chk.disagreement("keeper-state", d, "disabled", vlib.unhx(s_.get("chan") or "").decode("utf-8", "replace"))
        elif s_.get("haskey") == "1" or s_.get("guid", "-") not in ("-", ""):
            chk.violation("channel reported disabled but the agent still holds a key", d, observed={"guid": s_.get("guid"), "haskey": s_.get("haskey")})
        kp.close()
    finally:
        stop[0] = True
        for cn in conns:
            try:
                cn.close()
            except Exception:
                pass
        stack.close()


def request_during_rule_change(chk, binp, what="the rules enforced for each endpoint are the ones in the latest document"):
    """a request arrives exactly while a poll replaces a rule set (between the poll's "new rule id" and "new rules" messages to the
    state actor): it is judged by the old rules or by the new ones - both refuse it here - never by none"""
    import pipe
    import threading
    stack = e2e.Stack(binp)
    try:
        callers = pipe.Callers(stack)
        kp = keeper.Keeper(None, sd=stack.sd, attach=stack, interval_ms=15)

        def doc(rid, content):
            return {"version": "2.0", "secureChannelEnabled": True, "hasRules": True, "keyGuid": None,
                    "wireserver": None, "hostga": None, "imds": {"id": rid, "mode": "enforce", "content": content}}
        K = "eeeeeeee-0000-0000-0000-00000000000e"
        plan = lambda d: {"status": {"kind": "doc", "doc": d}, "acquire": {"kind": "key", "guid": K, "key": "5e" * 32}, "attest": {"kind": "ok"}}
        if kp.step(plan(doc("rule-1", 1)), kick=True) is None:
            chk.broken.append({"kind": "harness", "name": "request-during-rule-change", "why": "no poll after the first document"})
            return
        c = callers.caller(1000, "curl", False)
        for k in range(3):
            d2 = doc("rule-%d" % (k + 2), k + 2)
            d2["keyGuid"] = K
            # the client connection is opened (and attributed) beforehand: while the actor is held, the control channel of the harness
            # may be waiting for it too
            try:
                conn = stack.connect(audit=(1000, c["pid"], 0, e2e.IMDS[0], e2e.IMDS[1]))
            except OSError:
                continue
            time.sleep(0.4)
            stack.hosts.take()
            stack.ctl("ktrace")
            stack.ctl("stallactor key_keeper SetImdsRuleId 1200 0")
            res = {}
            th = threading.Thread(target=lambda: res.update(st=kp.step(plan(d2), kick=False, timeout=20.0)), daemon=True)
            th.start()
            time.sleep(0.4)                     # the actor is held inside the "new rule id" message; the request's lookup queues up behind it
            try:
                r = conn.request(e2e.build_request("GET", "/metadata/instance?during=%d" % k, [(b"Host", b"h")]), b"GET", 8.0)
                conn.close()
            except OSError:
                r = None
            th.join(timeout=25)
            stack.ctl("khook off")
            time.sleep(0.05)
            # the messages of the change as the state actor handled them, against the model's program for it (Gpa.KeyKeeper.changeProgram)
            tr = [x for x in stack.ctl("ktrace").split(",") if x in ("SetImdsRuleId", "SetImdsRules", "GetImdsRules")]
            try:
                mo = vlib.run_driver(["rulechange %s %s" % (hx(("rule-%d" % (k + 1)).encode()), hx(("rule-%d" % (k + 2)).encode()))])[0]
            except RuntimeError as e:
                chk.broken.append({"kind": "driver", "name": "rulechange", "why": str(e)})
                mo = None
            if mo is not None:
                want = [{"setId": "SetImdsRuleId", "setRules": "SetImdsRules"}[x] for x in mo.split(",") if x != "-"]
                got = [x for x in tr if x != "GetImdsRules"]
                if got != want:
                    chk.disagreement("rule-change-messages", {"change": "rule-%d -> rule-%d" % (k + 1, k + 2)}, want, got)
                if all(x in tr for x in ("GetImdsRules", "SetImdsRuleId", "SetImdsRules")):
                    last_set = len(tr) - 1 - tr[::-1].index("SetImdsRules")
                    if any(tr.index("SetImdsRuleId") < i < last_set for i, x in enumerate(tr) if x == "GetImdsRules"):
                        chk.count("rule_reads_placed_between_the_two_messages")
            recs = [x for x in stack.hosts.take() if not x.get("partial")]
            chk.case(nontrivial_key=("request-during-rule-change", k, r and r["status"], len(recs)))
            chk.count("requests_during_a_rule_change")
            dsc = {"situation": "the poll is replacing the IMDS rule set (old and new both refuse this caller and URL); the request's rules lookup "
                                "lands between the poll's two messages", "status": r and r["status"], "relayed": len(recs)}
            if recs:
                chk.violation(what if "bytes" in what else "the rules enforced for an endpoint were, for a moment, neither the old document's nor the new one's", dsc,
                              expected="403, nothing relayed", observed=(r and r["status"], len(recs)))
        kp.close()
    finally:
        stack.close()


def run(chk):
    if not e2e.in_netns():
        e2e.reexec_in_netns()
    rng = vlib.Rng(chk.seed)
    chk.prove()
    if not chk.driver():
        return
    ok, binp, out = vlib.build_harness("agent")
    if not ok:
        chk.broken.append({"kind": "harness", "name": "agent harness build", "why": out[-1500:]})
        return
    nhist = int(os.environ.get("VERIF_C09_NHIST") or (10 if chk.tier == "quick" else 600)) + len(SCRIPTS)
    keyno = [0]
    for h in range(nhist):
        script = SCRIPTS[h] if h < len(SCRIPTS) else None
        kp = keeper.Keeper(binp)
        m = ["kk new"]
        try:
            latched = None
            hist = []
            nsteps = len(script) if script else rng.rand_range(4, 14 if chk.tier == "quick" else 30)
            checks = []
            model_chan = "Unknown"
            for j in range(nsteps):
                plan = {}
                r = rng.below(12)
                if script:
                    sdoc, sacq, satt = script[j]
                    r = 0 if sdoc is None else 99
                # what the local key directory holds for the guid the document names
                if script and sdoc is not None:
                    doc = dict(sdoc)
                    if doc.get("keyGuid") == "@latched":
                        doc["keyGuid"] = latched
                    plan["status"] = {"kind": "doc", "doc": doc}
                    toks = ["D"] + keeper.doc_tokens(doc)
                elif r == 0:
                    plan["status"] = {"kind": "http", "code": rng.pick([500, 404, 403])}
                    toks = ["F"]
                elif r == 1:
                    plan["status"] = {"kind": "raw", "body": rng.pick([b"{not json", b"{}", b'{"version":"1.0"}', "é".encode() * 50])}
                    toks = ["F"]
                elif r == 2:
                    bad = {"version": rng.pick(["1.0", "2.0"]), "hasRules": False, "wireserver": None, "imds": None, "hostga": None, "keyGuid": None}
                    if bad["version"] == "2.0":
                        bad["secureChannelState"] = rng.pick([None, "Wireserver"])     # enabled flag missing in 2.0 -> invalid
                    else:
                        bad["secureChannelState"] = rng.pick([None, "bogus"])
                    plan["status"] = {"kind": "doc", "doc": bad}
                    toks = ["D"] + keeper.doc_tokens(bad)
                else:
                    doc = gen_doc(rng, latched)
                    plan["status"] = {"kind": "doc", "doc": doc}
                    toks = ["D"] + keeper.doc_tokens(doc)
                # acquire / attest answers
                acq_tok = ["N"]
                store_ok = True
                ra = rng.below(10)
                fixed_guid, plant_garbage = None, False
                if script:
                    if ":" in sacq:
                        fixed_guid = sacq.split(":")[1]
                        if fixed_guid.endswith("+garbage"):
                            fixed_guid, plant_garbage = fixed_guid[:-8], True
                        sacq = "key"
                    ra = {"key": 0, "none": 9, "http": 9}[sacq]
                if ra < 7:
                    keyno[0] += 1
                    g = fixed_guid or ("g-%d" % keyno[0] if (script or rng.chance(3, 4)) else rng.pick(["g-a", "g-b"]))
                    if plant_garbage:
                        open(os.path.join(kp.key_dir, g + ".key"), "w").write('{"trunc')
                        m.append(f"kk file {hx(g)} garbage")
                    kv = "%064x" % (keyno[0] * 7919)
                    plan["acquire"] = {"kind": "key", "guid": g, "key": kv}
                    acq_tok = ["V", hx(g), hx(kv)]
                    if not script and rng.chance(1, 10):
                        store_ok = False
                        os.makedirs(os.path.join(kp.key_dir, g + ".tmp"), exist_ok=True)   # File::create of the temp file fails
                elif ra == 7:
                    plan["acquire"] = {"kind": "raw", "body": b'{"guid": 5'}
                else:
                    plan["acquire"] = {"kind": "http", "code": 500}
                # the host may send its documents with Transfer-Encoding: chunked, in several chunks
                if plan["status"]["kind"] == "doc" and rng.chance(1, 3):
                    plan["status"]["chunked"] = True
                    chk.count("status_documents_sent_chunked")
                if plan.get("acquire", {}).get("kind") == "key" and rng.chance(1, 3):
                    plan["acquire"]["chunked"] = True
                    chk.count("key_documents_sent_chunked")
                attest_ok = satt if script else rng.chance(4, 5)
                plan["attest"] = {"kind": "ok"} if attest_ok else {"kind": "http", "code": rng.pick([500, 403])}
                # sometimes corrupt / plant the local file for the guid the document names
                docd = plan["status"].get("doc") or {}
                gname = docd.get("keyGuid")
                if gname and not script and rng.chance(1, 6):
                    p = os.path.join(kp.key_dir, gname + ".key")
                    kind = rng.pick(["garbage", "remove", "plant"])
                    if kind == "garbage":
                        open(p, "w").write('{"trunc')
                        m.append(f"kk file {hx(gname)} garbage")
                    elif kind == "remove":
                        if os.path.exists(p):
                            os.remove(p)
                        m.append(f"kk file {hx(gname)} remove")
                    else:
                        kv2 = "%064x" % rng.below(1 << 60)
                        json.dump({"authorizationScheme": "Azure-HMAC-SHA256", "guid": gname, "issued": "x", "key": kv2}, open(p, "w"))
                        m.append(f"kk file {hx(gname)} complete {hx(gname)} {hx(kv2)}")
                spec_idx = None
                if toks[0] == "D":
                    m.append("kk docspec " + " ".join(toks[1:]))
                    spec_idx = len(m) - 1
                m.append("kk poll " + " ".join(toks + acq_tok + ["1" if store_ok else "0", "1" if attest_ok else "0"]))
                ncalls = len(kp.calls)
                st = kp.step(plan, kick=True)
                calls = kp.calls[ncalls:]
                if not store_ok:
                    shutil.rmtree(os.path.join(kp.key_dir, plan["acquire"]["guid"] + ".tmp"), ignore_errors=True)
                files = sorted(f[:-4] for f in os.listdir(kp.key_dir) if f.endswith(".key"))
                checks.append((len(m) - 1, st, calls, files, plan, spec_idx))
                if st is None:
                    break
                latched_now = [c[1] for c in calls if c[0] == "attest" and c[2]]
                if latched_now:
                    latched = latched_now[-1]
                hist.append(plan["status"]["kind"] + ":" + json.dumps(plan["status"].get("doc", {}))[:80])
            outs = vlib.run_driver(m)
            chk.case(nontrivial_key=("hist", h, len(checks)))
            prev_ids = ["", "", ""]     # the agent's rule ids (ws, imds, hostga) before the iteration at hand
            attested_ok = set()         # guids whose attestation the host acknowledged in this history
            named = set()               # guids a status document named as latched
            applied = {}                # redirect policy in force, accumulated from the H2 trace
            last_reported = None        # channel state reported at the last completed poll
            for ci, (idx, st, calls, files, plan, spec_idx) in enumerate(checks):
                mo = keeper.parse_state(outs[idx])
                chk.count("iterations")
                if st is None:
                    chk.disagreement("keeper-lockstep", {"history": hist[-3:]}, outs[idx][:200], "agent did not reach the next status poll")
                    continue
                io = keeper.parse_state(st)
                chk.count("done_%s" % mo.get("done"))
                want = {"ids": mo["ids"], "chan": mo["chan"], "key": mo["key"].replace("-", "").replace(",", ",") if mo["key"] != "-,-" else ",",
                        "ws": canon_rules(mo["ws"]), "imds": canon_rules(mo["imds"]), "hostga": canon_rules(mo["hostga"])}
                got = {"ids": ",".join(x if x != "-" else "" for x in io["ids"].split(",")).replace("-", ""), "chan": io["chan"],
                       "key": ",".join("" if x == "-" else x for x in io["key"].split(",")),
                       "ws": canon_rules(io["ws"]), "imds": canon_rules(io["imds"]), "hostga": canon_rules(io["hostga"])}
                want["ids"] = ",".join("" if x == "-" else x for x in mo["ids"].split(","))
                want["key"] = ",".join("" if x == "-" else x for x in mo["key"].split(","))
                mpol = ",".join(o for o in mo.get("outs", "").split(",") if o and not o.startswith(("acq:", "att:")))
                gpol = "" if io["policy"] == "-" else io["policy"]
                macq = [o for o in mo.get("outs", "").split(",") if o.startswith(("acq:", "att:"))]
                gacq = [("acq:" if c[0] == "acquire" else "att:") + hx(c[1] or "") for c in calls if c[2]]
                # failed acquires are host calls the model does not list
                gacq_ok = [x for x in gacq]
                mfiles = sorted(unhx(x).decode() for x in mo.get("files", "").split(",") if x)
                d = {"plan": {k: (v if k != "status" else {kk: vv for kk, vv in v.items() if kk != "body"}) for k, v in plan.items()},
                     "agent": st, "model": outs[idx][:400]}
                if want != got:
                    chk.disagreement("keeper-state", dict(d, step=ci, driver_timeline=kp.trace[-120:]), want, got)
                if mpol != gpol:
                    chk.disagreement("keeper-policy", d, mpol, gpol)
                if macq != gacq_ok:
                    chk.disagreement("keeper-host-calls", d, macq, gacq_ok)
                # ---- oracle on the implementation (the property's sentences)
                doc = plan["status"].get("doc")
                if plan["status"]["kind"] != "doc" and calls:
                    chk.violation("a failed status poll was followed by host key calls", d)
                attested_ok.update(hx(c[1] or "") for c in calls if c[0] == "attest" and c[2])
                if doc is not None and doc.get("keyGuid"):
                    named.add(hx(doc["keyGuid"]))
                held = got["key"].split(",")[0]
                if held and held not in attested_ok and held not in named:
                    chk.violation("the agent holds (and signs with) a key whose attestation the host never acknowledged and that no status document named",
                                  dict(d, history=hist[:ci + 1][-8:]), expected="no key, or an attested / named one", observed=unhx(held).decode("utf-8", "replace"))
                ids_after = (io["ids"].split(",") + ["", "", ""])[:3]
                ids_after = ["" if x == "-" else x for x in ids_after]
                for ent in (gpol.split(",") if gpol else []):
                    e_, _, v_ = ent.partition(":")
                    applied[e_] = v_
                if mo.get("done") == "1" and doc is not None:
                    st_dis = unhx(mo["chan"]).decode() == "disabled"
                    if st_dis and got["key"] != ",":
                        chk.violation("channel reported disabled but the agent still holds a key", d, observed=got["key"])
                    # the document alone says what must hold after a complete poll (right-hand sides of the convergence theorems)
                    sp = keeper.parse_state(outs[spec_idx]) if spec_idx is not None else None
                    if sp and sp.get("valid") == "1":
                        hd = dict(d, history=hist[:ci + 1][-8:], rule_ids_before=list(prev_ids))
                        if got["chan"] != sp["state"]:
                            chk.violation("after a complete poll the agent's channel state is not the one the document reports", hd,
                                          expected=unhx(sp["state"]).decode(), observed=unhx(got["chan"]).decode() if got["chan"] else "")
                        for epi, ep in enumerate(("ws", "imds", "hostga")):
                            # (an item whose id is empty is indistinguishable from "no item" for the id compare-and-set: host contract, DESIGN §8)
                            if sp[ep] != "none" and got[ep] is not None:
                                sid, smode, _ = sp[ep].split(";")
                                sid = "" if sid == "-" else sid
                                # rules are replaced when the id changes (documents re-using an id keep the first content: host contract)
                                replaced_now = prev_ids[epi] != sid
                                if replaced_now and unhx(sid).decode() == got[ep][0] and mode_display(unhx(smode).decode()) != got[ep][1]:
                                    chk.violation("the rules the agent enforces for an endpoint are not in the mode the latest document gives them", hd,
                                                  expected="%s: %s" % (ep, mode_display(unhx(smode).decode())), observed="%s: %s" % (ep, got[ep][1]))
                            if sp[ep] == "none" and got[ep] is not None and got[ep][0] != "":
                                chk.violation("the latest document carries no rules for an endpoint but the agent still enforces rules there", hd,
                                              expected="%s: none" % ep, observed="%s: %r" % (ep, got[ep]))
                        if sp["state"] != last_reported:
                            wantp = dict(x.split(":") for x in sp["policy"].split(","))
                            if {k: applied.get(k) for k in wantp} != wantp:
                                chk.violation("the reported channel state changed but the endpoints are not intercepted as their modes say", hd,
                                              expected=wantp, observed=dict(applied))
                        last_reported = sp["state"]
                        wguid = "" if sp["guid"] == "-" else sp["guid"]
                        attested_now = [hx(c[1] or "") for c in calls if c[0] == "attest" and c[2]]
                        if not st_dis and wguid and got["key"].split(",")[0] not in [wguid] + attested_now:
                            chk.violation("after a complete poll the agent does not hold the key the host names as latched", hd,
                                          expected=unhx(wguid).decode(), observed=got["key"])
                prev_ids = ids_after
            if h == 0:
                chk.sample({"model_ops": [x[:160] for x in m[:4]], "model_out": [o[:200] for o in outs[:4]], "agent": checks[0][1]})
        finally:
            kp.close()
            shutil.rmtree(kp.sd, ignore_errors=True)
    keepalive_signing(chk, binp)
    disable_under_load(chk, binp)
    request_during_rule_change(chk, binp)
    from checks import c06 as _c06
    _sd = vlib.scratch_dir("c09k")
    try:
        _c06.redirect_switch_under_lookups(chk, binp, _sd, "the reported channel state changed but the endpoints are not intercepted as their modes say")
    finally:
        shutil.rmtree(_sd, ignore_errors=True)
    if chk.counts.get("done_1", 0) == 0:
        chk.broken.append({"kind": "gate", "name": "generator sanity", "why": "no iteration completed"})
    chk.coverage["rule"] = ("histories of 4-30 host answers in lock-step with the real key-keeper loop (status requests gated by the mock host): "
                            "protocol versions 1.0/2.0, enabled/disabled flips, rules replaced/removed per endpoint with colliding ids, key "
                            "rotation, local key files planted/corrupted/removed, failures at status (HTTP error, malformed, invalid document), "
                            "acquire (error, malformed), store (temp file cannot be created) and attest; public getters, H2 policy trace and "
                            "host call log compared with the model after every iteration")
    chk.assumptions += ["rule content is determined by rule id (host contract): documents re-using an id with different content are generated "
                        "on purpose and the model, like the code, keeps the first content"]
