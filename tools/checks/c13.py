"""C13 no input can crash a request handler or a background task."""
import json
import os
import shutil
import subprocess
import time
import e2e
import pipe
import pipegen
import vlib
from vlib import hx, unhx

MB = ["é", "ß", "€", "漢", "😀", "K", "ñ", " ", "　"]


def gen_text(rng, cap):
    """text whose length sits around `cap` with multi-byte scalars placed near the offset"""
    kind = rng.below(6)
    if kind == 0:
        return "a" * rng.rand_range(0, cap + 50)
    pad = cap - rng.rand_range(0, 6)
    s = "a" * max(0, pad)
    for _ in range(rng.rand_range(1, 6)):
        s += rng.pick(MB)
    s += "tail" * rng.rand_range(0, 3)
    if kind == 1:
        s = rng.pick(MB) * rng.rand_range(cap // 4, cap)
    if kind == 2:
        s = "".join(rng.pick(MB + ["x", "y"]) for _ in range(rng.rand_range(cap // 3, cap)))
    return s


def function_level(chk, rng, binp):
    n = 400 if chk.tier == "quick" else 20000
    lines, mlines, meta = [], [], []
    for i in range(n):
        t = gen_text(rng, 4096)
        lines.append("event " + hx(t)); mlines.append("trunc event " + hx(t)); meta.append(("event", t))
        if i % 40 == 39:
            lines.append("flush 40"); mlines.append(None); meta.append(("flush", None))
    lines.append("flush %d" % (n % 40)); mlines.append(None); meta.append(("flush", None))
    for i in range(n):
        t = gen_text(rng, 1024)
        lines.append("status " + hx(t)); mlines.append("trunc status " + hx(t)); meta.append(("status", t))
    for i in range(n // 4):
        js = json.dumps({"k": "v" * rng.below(20), "n": rng.below(1000)})
        body = js.encode("utf-16-le") + (bytes([rng.below(256)]) if rng.chance(1, 2) else b"")
        if rng.chance(1, 8):
            body = bytes(rng.below(256) for _ in range(rng.below(40)))
        ct = rng.pick(["application/json; charset=utf-16", "application/json; charset=UTF-16", "text/json;charset=utf-16"])
        lines.append(f"utf16 {hx(ct)} {hx(body) if body else '-'}"); mlines.append("trunc utf16 " + (hx(body) if body else "-")); meta.append(("utf16", body))
    # xml_escape (status text and event fields pass through it): markup characters after multi-byte characters
    for i in range(n // 2):
        alphabet = ["a", "&", "<", ">", '"', "'", "é", "日", "😀", "]]>", " ", "&amp;"]
        t = "".join(rng.pick(alphabet) for _ in range(rng.rand_range(0, 12)))
        lines.append("xmlesc " + (hx(t) if t else "-")); mlines.append("xmlesc " + (hx(t) if t else "-")); meta.append(("xmlesc", t))
    # the event queue overflowing (it holds 1000): what the writer does with an event it cannot queue must not depend on where the
    # multi-byte characters of its message fall
    MBS = ["é", "日", "😀", "ß"]
    for k in range(8 if n <= 400 else 60):
        ch = MBS[k % len(MBS)]
        t = "a" * (k % 4) + ch * rng.pick([100, 300, 700, 1400])
        lines.append("eventburst 2500 " + hx(t)); mlines.append(None); meta.append(("eventburst", t))
        lines.append("evdrain"); mlines.append(None); meta.append(("burstflush", None))
    # two writers at the moment the queue has exactly one free slot
    lines.append("eventrace %d" % (40 if n <= 400 else 400)); mlines.append(None); meta.append(("eventrace", "eight writers, one free slot"))
    lines.append("evdrain"); mlines.append(None); meta.append(("burstflush", None))
    # very short bodies, and hosts whose first data frame is one byte (or another odd prefix) long: only "no panic" is compared
    ct = "application/json; charset=utf-16"
    for body, split in [(b"", None), (b"{", None), (b"{\x00", None), (b"{\x00}", None), (b"{\x00}\x00", 1), (b"{\x00}\x00", 3),
                        ('{"k":1}'.encode("utf-16-le"), 1), (b"\xff\xfe" + '{"k":1}'.encode("utf-16-le"), 1)]:
        lines.append(f"utf16 {hx(ct)} {hx(body) if body else '-'}" + (f" {split}" if split is not None else ""))
        mlines.append(None); meta.append(("utf16-frames", body))
    sd = vlib.scratch_dir("c13")
    os.makedirs(sd + "/ev")
    rc, so, se = vlib.run_harness(binp, "trunc", "\n".join(lines) + "\n", env={"VERIF_OUT": sd + "/o.txt", "VERIF_EVENT_DIR": sd + "/ev"}, cwd=sd,
                                  timeout=3600)
    if rc != 0:
        chk.broken.append({"kind": "harness", "name": "trunc engine", "why": se[-500:]})
        return
    impl = open(sd + "/o.txt").read().split("\n")[:-1]
    shutil.rmtree(sd, ignore_errors=True)
    model = vlib.run_driver([m for m in mlines if m is not None])
    mi = iter(model)
    pending_events = []
    for (kind, t), io, ml in zip(meta, impl, mlines):
        mo = next(mi) if ml is not None else None
        if kind == "burstflush":
            pending_events = []
            continue
        if kind == "flush":
            got = [] if io == "-" else io.split(",")
            want = [m for (_, m) in pending_events]
            if got != want:
                # order inside one file is queue order; compare as sequences
                chk.disagreement("event-messages", {"n_events": len(want), "first_text_len": pending_events and len(pending_events[0][0])},
                                 [w[:40] for w in want[:3]], [g[:40] for g in got[:3]])
            pending_events = []
            continue
        chk.case(nontrivial_key=(kind, t if isinstance(t, str) else t.hex()))
        chk.count("fn_" + kind)
        if io.startswith("panic"):
            chk.count("fn_panic")
            chk.violation(f"panic at a truncation/decoding site ({kind})",
                          {"site": kind, "input_utf8_len": len(t.encode()) if isinstance(t, str) else len(t),
                           "input_tail": (t[-12:] if isinstance(t, str) else t[-6:].hex()), "panic": unhx(io[6:]).decode("utf-8", "replace")[:200]},
                          replay_cmd="VERIF_ENGINE=trunc harness: " + lines[0][:30] + "...")
            continue
        if kind == "event":
            pending_events.append((t, mo))
            if len(t.encode()) > 4096:
                chk.count("fn_event_truncated")
        elif kind == "status":
            if io != mo:
                chk.disagreement("status-message", {"text_len": len(t.encode()), "tail": t[-10:]}, mo[-60:], io[-60:])
            got = unhx(io)
            if len(got) > 1024 + 3:
                chk.violation("status message longer than cap+3", {"len": len(got)})
        elif kind == "xmlesc":
            if io != mo:
                chk.disagreement("xml-escape", {"text": t}, mo, io)
        elif kind == "utf16":
            units = [int(x) for x in mo.split(" ")] if mo else []
            text = b"".join(u.to_bytes(2, "little") for u in units).decode("utf-16-le", "replace")
            try:
                want = "ok:" + hx(json.dumps(json.loads(text), separators=(",", ":")))
            except Exception:
                want = "err"
            if io.startswith("ok:"):
                got = "ok:" + hx(json.dumps(json.loads(unhx(io[3:])), separators=(",", ":")))
            else:
                got = io.split(":")[0]
            if want != got:
                chk.disagreement("utf16", {"body": t.hex(), "line": lines[meta.index((kind, t))][:60]}, want[:80], got[:80])
    chk.sample({"site": "event", "text_len": len(meta[0][1].encode()), "impl": impl[0]})


# a process that keeps whatever extra argument it is given in its command line and stays alive (sleep itself would reject the argument)
LONG_LIVED = ["sh", "-c", "sleep 600 & wait", "sh"]


def e2e_part(chk, rng, binp):
    stack = e2e.Stack(binp, log_level="Info")
    try:
        callers = pipe.Callers(stack)
        pipegen.bind_rule_vocab(callers)
        runner = pipe.Runner(chk, stack, callers)
        sleep = shutil.which("sleep")
        # callers whose command line carries multi-byte text placed around the 1024/4096 offsets of the summary JSON
        weird = []
        for i in range(6 if chk.tier == "quick" else 60):
            padlen = rng.pick([900, 1000, 3600, 3800, 3900, 4000, 4050]) + rng.below(64)
            arg = "x" * padlen + "".join(rng.pick(MB) for _ in range(rng.rand_range(20, 120)))
            p = subprocess.Popen(LONG_LIVED + [arg], stdout=subprocess.DEVNULL, stderr=subprocess.DEVNULL)
            stack.pids.append(p)
            weird.append({"uid": 1000, "user": "alice", "groups": ["users", "docker"], "pid": p.pid, "exe": shutil.which("sh"),
                          "proc": "sh", "cmdline": " ".join(LONG_LIVED + [arg]), "elevated": False})
        # command lines that are multi-byte all the way: with prefixes of 0,1,2(,3) ASCII bytes every byte offset falls inside a
        # scalar for at least one of them, so a fixed-offset cut anywhere (not only at the known caps) is exercised
        for ch, width in (("日", 3), ("😀", 4)):
            for pre in range(width):
                arg = "y" * pre + ch * (2100 if chk.tier == "quick" else 9000)
                p = subprocess.Popen(LONG_LIVED + [arg], stdout=subprocess.DEVNULL, stderr=subprocess.DEVNULL)
                stack.pids.append(p)
                weird.append({"uid": 1000, "user": "alice", "groups": ["users", "docker"], "pid": p.pid, "exe": shutil.which("sh"),
                              "proc": "sh", "cmdline": " ".join(LONG_LIVED + [arg]), "elevated": False})
        dense = weird[-7:]
        time.sleep(0.2)
        dead = [w["pid"] for w in weird if not os.path.exists("/proc/%d" % w["pid"])]
        if dead:
            chk.broken.append({"kind": "gate", "name": "caller processes", "why": "caller processes with long command lines exited: %r" % dead[:5]})
        callers.add_user(1003, "üser-" + "名" * 30, ["grüppe", "x" * 200])
        time.sleep(0.3)
        deny = {"id": "r", "mode": "enforce", "defaultAccess": "deny", "rules": {"privileges": [], "roles": [], "identities": [], "roleAssignments": []}}
        n = 120 if chk.tier == "quick" else 6000
        for i in range(n):
            kind = rng.pick(["hdr", "hdr", "cmdline-denied", "cmdline-allowed", "longurl", "repeat", "plain"])
            env = {"ws": None, "imds": None, "hostga": None, "key": pipegen.KEY if rng.chance(3, 4) else None}
            caller = callers.caller(0, "curl", True)
            dest = e2e.IMDS
            req = {"method": rng.pick(["GET", "POST"]), "target": "/metadata/instance?a=1", "headers": [(b"Host", b"h")], "body": None, "chunked": None}
            if req["method"] == "POST":
                req["body"] = b"body"
            if kind == "hdr":
                v = rng.pick([b"caf\xc3\xa9", b"\x80", b"\xff\xfe", b"abc\xe2\x82", b"\xf0\x9f\x98\x80", b"ok \xa0", bytes(rng.rand_range(0x80, 0xff) for _ in range(rng.rand_range(1, 30)))])
                req["headers"].append((rng.pick([b"X-Custom", b"User-Agent", b"x-ms-azure-host-claims", b"Accept"]), v))
            elif kind in ("cmdline-denied", "cmdline-allowed"):
                caller = rng.pick(weird)
                if rng.chance(1, 4):
                    caller = dict(caller, uid=1003, user="üser-" + "名" * 30, groups=["grüppe", "x" * 200])
                if kind == "cmdline-denied":
                    env["imds"] = deny
            elif kind == "longurl":
                req["target"] = "/" + "p" * rng.pick([1000, 4000, 8000, 30000]) + "?q=" + "v" * rng.pick([10, 5000])
            elif kind == "repeat":
                req["headers"] += [(b"X-Rep", b"v%d" % j) for j in range(rng.rand_range(2, 60))]
            case = {"env": env, "caller": caller, "dest": dest, "req": req, "plan": None, "label": "imds", "c13_kind": kind,
                    "no_failed_compare": kind.startswith("cmdline")}
            runner.run_case(case)
        # every dense multi-byte caller once denied and once allowed
        for caller in dense:
            for denied in (True, False):
                env = {"ws": None, "imds": deny if denied else None, "hostga": None, "key": None}
                runner.run_case({"env": env, "caller": caller, "dest": e2e.IMDS,
                                 "req": {"method": "GET", "target": "/metadata/instance?a=1", "headers": [(b"Host", b"h")], "body": None, "chunked": None},
                                 "plan": None, "label": "imds", "c13_kind": "cmdline-dense", "no_failed_compare": True})
        # callers whose process has nothing to show: a zombie (its command line reads as zero bytes), a process that has gone, a
        # kernel-thread-like pid 2 - the record names them all the same
        zomb = subprocess.Popen(["true"], stdout=subprocess.DEVNULL, stderr=subprocess.DEVNULL)     # never waited for: stays a zombie
        stack.pids.append(zomb)
        gone = subprocess.Popen(["true"], stdout=subprocess.DEVNULL, stderr=subprocess.DEVNULL)
        gone.wait()
        time.sleep(0.1)
        for pid, what in ((zomb.pid, "zombie"), (gone.pid, "exited"), (2, "pid-2"), (0, "pid-0"), (4194303, "no-such-pid")):
            ghost = {"uid": 1000, "user": "alice", "groups": ["users", "docker"], "pid": pid, "exe": "", "proc": "", "cmdline": "", "elevated": False}
            for denied in (True, False):
                env = {"ws": None, "imds": deny if denied else None, "hostga": None, "key": None}
                chk.count("callers_without_process_details")
                runner.run_case({"env": env, "caller": ghost, "dest": e2e.IMDS,
                                 "req": {"method": "GET", "target": "/metadata/instance?ghost=" + what, "headers": [(b"Host", b"h")], "body": None, "chunked": None},
                                 "plan": None, "label": "imds", "c13_kind": "caller-" + what, "no_failed_compare": True})
        # clients that hang up mid-request while the actors are slow
        for ep in ("ws", "imds", "hostga"):
            stack.ctl(f"rules {ep} none")
        after = pipe.abort_storm(stack, callers, n=30 if chk.tier == "quick" else 300)
        chk.count("aborting_clients", 30 if chk.tier == "quick" else 300)
        if after is None or after["status"] != 200:
            chk.violation("after clients hung up mid-request the listener no longer relays requests", {"clients": "30 connections reset right after sending a request, actors slowed by 4 ms per message"},
                          expected=200, observed=after and after["status"])
        # liveness after all that
        alive = stack.alive()
        probe = runner.run_case({"env": {"ws": None, "imds": None, "hostga": None, "key": None}, "caller": callers.caller(0, "curl", True),
                                 "dest": e2e.IMDS, "req": {"method": "GET", "target": "/alive", "headers": [(b"Host", b"h")], "body": None, "chunked": None},
                                 "plan": None, "label": "imds", "c13_kind": "probe"})
        panics = stack.panics()

        def oracle(chk_, o, m):
            kind = o["case"].get("c13_kind")
            chk_.case(nontrivial_key=("e2e", kind, o["req"]["target"][:40], str(o["req"]["headers"][-1])[:60], o["case"]["caller"]["pid"]))
            chk_.count("e2e_" + str(kind))
            if o["resp"] is None:
                chk_.violation("a syntactically valid request got no HTTP response", pipe.Runner.describe(None, o), observed="connection closed without response")
        runner.finish(oracle)
        for p in panics[:5]:
            chk.violation("panic inside the agent (process-wide panic hook)", {"panic": p[:400]})
        if not alive or probe["resp"] is None or probe["resp"]["status"] != 200:
            chk.violation("listener no longer serving after the input stream", {"alive": alive, "probe": probe["resp"] and probe["resp"]["status"]})
        chk.sample(runner.describe(runner.observations[0]))
    finally:
        stack.close()


def descriptor_exhaustion(chk, binp):
    """more client connections at once than the process has file descriptors for (its limit lowered to 128): accepting fails for a
    while; once the clients are gone the listener serves again"""
    import socket
    stack = e2e.Stack(binp, wrapper=["prlimit", "--nofile=128:128"])
    conns = []
    try:
        callers = pipe.Callers(stack)
        for ep in ("ws", "imds", "hostga"):
            stack.ctl(f"rules {ep} none")
        for i in range(400):
            s = socket.socket()
            s.settimeout(0.5)
            try:
                s.connect(e2e.PROXY)
                conns.append(s)
            except OSError:
                s.close()
        time.sleep(1.0)
        for s in conns:
            try:
                s.close()
            except OSError:
                pass
        conns = []
        time.sleep(1.0)
        ans = None
        for attempt in range(3):
            c = callers.caller(0, "curl", True)
            try:
                conn = stack.connect(audit=(0, c["pid"], 1, e2e.IMDS[0], e2e.IMDS[1]))
                ans = conn.request(e2e.build_request("GET", "/metadata/instance?after=burst", [(b"Host", b"h")]), b"GET", 5.0)
                conn.close()
            except OSError:
                ans = None
            if ans is not None:
                break
            time.sleep(1.0)
        chk.case(nontrivial_key=("descriptor-exhaustion", ans and ans["status"]))
        chk.count("descriptor_exhaustion_bursts")
        if ans is None or ans["status"] != 200:
            chk.violation("listener no longer serving after the input stream",
                          {"input": "400 simultaneous client connections against a descriptor limit of 128, then all closed", "alive": stack.alive()},
                          expected="200 for a request made afterwards", observed=ans and ans["status"])
        for p in stack.panics()[:3]:
            chk.violation("panic inside the agent (process-wide panic hook)", {"panic": p[:400]})
    finally:
        for s in conns:
            try:
                s.close()
            except OSError:
                pass
        stack.close()


def hostile_status_documents(chk, rng, binp):
    """whatever the host returns: status documents whose every string field carries multi-byte text at every alignment (the key
    keeper formats, logs and publishes the document), key documents likewise; the key keeper must go on polling"""
    import json as _json
    import keeper
    stack = e2e.Stack(binp, log_level="Info")
    try:
        kp = keeper.Keeper(None, sd=stack.sd, attach=stack, interval_ms=15)

        def texts():
            out = []
            for ch in ("é", "日", "😀"):
                for pre in range(5):
                    out.append("1234567"[:pre] + ch * rng.pick([1, 3, 12]) + "-tail")
            return out
        docs = []
        for t in texts():
            docs.append({"authorizationScheme": "Azure-HMAC-SHA256", "keyDeliveryMethod": "http", "version": "1.0", "secureChannelState": "Wireserver",
                         "keyGuid": t, "requiredClaimsHeaderPairs": [t]})
            docs.append({"authorizationScheme": t, "keyDeliveryMethod": t, "version": "2.0", "secureChannelEnabled": True, "keyGuid": None,
                         "authorizationRules": {"wireserver": {"defaultAccess": t, "mode": t, "id": t,
                                                               "rules": {"privileges": [{"name": t, "path": "/" + t}], "roles": [{"name": t, "privileges": [t]}],
                                                                         "identities": [{"name": t, "userName": t, "exePath": "/" + t}],
                                                                         "roleAssignments": [{"role": t, "identities": [t]}]}}}})
            docs.append({"authorizationScheme": "Azure-HMAC-SHA256", "keyDeliveryMethod": "http", "version": t, "secureChannelState": t, "keyGuid": None})
        if chk.tier == "quick":
            docs = [docs[i] for i in range(0, len(docs), 2)]
        for i, d in enumerate(docs):
            key_doc = {"authorizationScheme": "Azure-HMAC-SHA256", "guid": d.get("keyGuid") or ("g" + str(i)), "issued": "x", "key": "ab" * 32}
            plan = {"status": {"kind": "raw", "body": _json.dumps(d, ensure_ascii=False).encode()},
                    "acquire": {"kind": "raw", "body": _json.dumps(key_doc, ensure_ascii=False).encode()}, "attest": {"kind": "ok"}}
            stt = kp.step(plan, kick=True)
            chk.case(nontrivial_key=("hostile-doc", i))
            chk.count("hostile_status_documents")
            pan = stack.panics()
            if stt is None or pan:
                chk.violation("the key keeper stopped polling / panicked on a status document from the host", {"document": _json.dumps(d, ensure_ascii=False)[:600]},
                              expected="next poll", observed=(pan[0][:300] if pan else "no further status request"))
                break
        kp.close()
    finally:
        stack.close()


def late_notify(chk, binp):
    """a schedule, not an input: the provision actor answers slowly, so that reporting key_latched after a notify takes the poll
    loop past its interval; the loop must go on polling (H3 inject point slows the actor; `notify` is what a local /provision
    query with the notify header triggers)"""
    import keeper
    stack = e2e.Stack(binp, log_level="Error")
    try:
        kp = keeper.Keeper(None, sd=stack.sd, attach=stack, interval_ms=30)
        doc = {"version": "1.0", "secureChannelState": "Wireserver", "keyGuid": None}
        stt = kp.step({"status": {"kind": "doc", "doc": doc}, "acquire": {"kind": "key", "guid": "g-1", "key": "ab" * 32}, "attest": {"kind": "ok"}}, kick=True)
        if stt is None or "haskey=1" not in stt:
            chk.broken.append({"kind": "harness", "name": "late-notify stage", "why": "key not latched: %r" % stt})
            return
        with kp.lock:
            kp.release += [{"status": {"kind": "doc", "doc": dict(doc, keyGuid="g-1")}}] * 100000
            kp.lock.notify_all()
        stack.ctl("phook 40")
        t0 = time.time()
        n = 0
        while time.time() - t0 < 1.5:
            stack.ctl("notify")
            n += 1
            time.sleep(0.003)
        chk.count("late_notifies", n)
        stack.ctl("khook off")
        s0 = kp.served
        time.sleep(0.6)
        polls = kp.served - s0
        pan = [p for p in stack.panics() if "key_keeper" in p or "subtract" in p]
        chk.case(nontrivial_key=("late-notify", n > 0))
        d = {"schedule": "key latched, poll interval 30 ms, provision actor slowed by 40 ms per message, %d notifies" % n}
        if pan:
            chk.violation("the key keeper task panicked when a notify was handled after the poll interval had run out", d,
                          expected="the loop keeps polling", observed=pan[0], finding_key="late-notify-underflow")
        elif polls == 0:
            chk.violation("the key keeper stopped polling after a notify was handled late", d, expected="polls continue", observed="0 polls in 0.6 s",
                          finding_key="late-notify-underflow")
        kp.close()
    finally:
        stack.close()


def run(chk):
    if not e2e.in_netns():
        e2e.reexec_in_netns()
    rng = vlib.Rng(chk.seed)
    chk.prove()
    if not chk.driver():
        return
    ok, binp, out = vlib.build_harness("agent")
    if not ok:
        chk.broken.append({"kind": "harness", "name": "agent harness build", "why": out[-1500:]})
        return
    e2e.setup_net()
    function_level(chk, rng, binp)
    e2e_part(chk, rng, binp)
    late_notify(chk, binp)
    hostile_status_documents(chk, rng, binp)
    descriptor_exhaustion(chk, binp)
    chk.coverage["rule"] = ("function level: texts sized around the 4096/1024 offsets with 2/3/4-byte scalars straddling them through the real "
                            "write_event (read back from the event files), get_module_status, and utf-16 bodies of even/odd length through "
                            "read_response_body; e2e: header values with bytes >= 0x80 (valid, truncated and invalid UTF-8), callers with long "
                            "multi-byte command lines / user and group names (denied and allowed), very long URLs, 2-60 repeated headers; "
                            "process-wide panic hook + liveness probe")
    chk.assumptions += ["panic-freedom of the whole agent is not a theorem: the model covers the named sites, the e2e stream looks for others"]
