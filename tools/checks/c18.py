"""C18 telemetry: at most once, well-formed, bounded batches."""
import json
import os
import re
import shutil
import subprocess
import time
import xml.parsers.expat

import e2e
import fabric
import vlib
from vlib import hx, unhx

CAP = 64 * 1024
SPECIALS = ["<", ">", "&", "'", '"', "]]>", "<![CDATA[", "&amp;lt;", "&#60;", "</Event>", "é", "漢", "😀", "<Param Name=\"x\" Value=\"y\" />"]


def gen_text(rng, n):
    out = []
    size = 0
    while size < n:
        if rng.chance(1, 6):
            t = rng.pick(SPECIALS)
        else:
            t = rng.pick(["lorem", "ipsum", " ", "x", "0", "=", "/", "-"]) * rng.rand_range(1, 8)
        out.append(t)
        size += len(t.encode())
    return "".join(out)


def gen_event(rng, size_hint):
    return {"EventLevel": rng.pick(["Info", "Warn", "Error", "<L>"]), "Message": gen_text(rng, size_hint),
            "Version": rng.pick(["1.0.30", "9.9.9", "1&2"]), "TaskName": rng.pick(["proxy_server", "key_keeper", "t<a>sk"]),
            "EventPid": rng.pick(["123", "0", "99999999999999999999999", "abc", "", "+5", "18446744073709551615"]),
            "EventTid": rng.pick(["7", "42", "-1", "x"]), "OperationId": rng.pick(["log_connection_summary", "op\"id", ""]),
            "TimeStamp": "2026-09-26T23:00:%02d.123Z" % rng.below(60)}


def gen_file(rng, tier):
    kind = rng.below(9)
    if kind == 0:
        return []
    if kind == 8:     # an event whose text is below 64 KiB but whose rendering is not (plain text just under the cap, or markup that grows when escaped)
        evs = [gen_event(rng, rng.pick([10, 200])) for _ in range(rng.rand_range(1, 4))]
        big = gen_event(rng, 10)
        big["Message"] = rng.pick(["a" * 65000, "a" * 65400, "&" * 20000, "<" * 17000, "\"" * 12000 + "x" * 2000])
        evs.insert(rng.below(len(evs) + 1), big)
        return evs
    if kind == 1:     # one oversize event among normal ones
        evs = [gen_event(rng, rng.pick([10, 200])) for _ in range(rng.rand_range(0, 4))]
        evs.insert(rng.below(len(evs) + 1), gen_event(rng, rng.pick([CAP - 1500, CAP, CAP + 500, 3 * CAP])))
        return evs
    if kind == 2:     # sizes that make batches land right at the cap
        return [gen_event(rng, rng.pick([15000, 20000, 30000, 31000, 32000])) for _ in range(rng.rand_range(2, 7))]
    if kind == 3:     # many small events
        return [gen_event(rng, rng.pick([0, 5, 50])) for _ in range(rng.rand_range(20, 120 if tier == "quick" else 200))]
    return [gen_event(rng, rng.pick([0, 10, 500, 4096])) for _ in range(rng.rand_range(1, 12))]


def model_line(ctx, evs):
    t = ["telem"] + [hx(ctx[k]) for k in ("cid", "tenant", "role", "roleinst", "sub", "rg", "vm")] + [str(ctx["imageorigin"]),
         hx(ctx["os"]), hx(ctx["kw"]), str(ctx["ram"]), str(ctx["cpu"]), str(len(evs))]
    for e in evs:
        t += [hx(e[k]) for k in ("EventLevel", "Message", "Version", "TaskName", "EventPid", "EventTid", "OperationId", "TimeStamp")]
    return " ".join(t)


def parse_doc(body):
    """independent parse (expat), twice: the parameters sit inside CDATA. Returns list of events = list of (name, value)"""
    events = []
    cur = {"cdata": None}

    def start(name, attrs):
        if name == "Event":
            cur["cdata"] = []

    def end(name):
        if name == "Event":
            events.append("".join(cur["cdata"]))
            cur["cdata"] = None

    def chars(data):
        if cur["cdata"] is not None:
            cur["cdata"].append(data)
    p = xml.parsers.expat.ParserCreate()
    p.StartElementHandler = start
    p.EndElementHandler = end
    p.CharacterDataHandler = chars
    p.Parse(body, True)
    out = []
    for inner in events:
        params = []

        def s2(name, attrs):
            if name == "Param":
                params.append((attrs.get("Name"), attrs.get("Value")))
        p2 = xml.parsers.expat.ParserCreate()
        p2.StartElementHandler = s2
        p2.Parse("<r>" + inner + "</r>", True)
        out.append(params)
    return out


def single_reader(chk, binp):
    """at most once also needs: one reader per event directory. The agent starts its event threads (logger, reader, status) when
    provisioning finishes; whatever readiness reports, key-latch resets and deadlines follow, it must not start them a second time
    (seen through the H3 trace of the provision actor: SetEventLogThreadsInitialized marks each start)"""
    import e2e
    if not e2e.in_netns():
        return
    stack = e2e.Stack(binp)
    try:
        stack.ctl("prov trace")
        seq = ["ready r", "ready k", "ready l", "reset", "ready k", "timeup", "reset", "reset", "ready k", "ready r", "timeup", "ready k"]
        for s_ in seq:
            stack.ctl("prov call " + s_)
            time.sleep(0.02)
        time.sleep(0.2)
        tr = stack.ctl("prov trace").split(",")
        starts = tr.count("SetEventLogThreadsInitialized")
        chk.case(nontrivial_key=("single-reader", starts))
        chk.count("event_thread_starts", starts)
        if starts > 1:
            chk.violation("the event reader was started %d times in one process: two readers over one event directory upload events twice" % starts,
                          {"provision_calls": seq}, expected="started once", observed=starts, finding_key="second-event-reader")
        elif starts == 0:
            chk.disagreement("telemetry-batches", {"provision_calls": seq}, "event threads started once provisioning finished", "never started")
    finally:
        stack.close()


def shutdown_during_upload(chk, binp, ctx_unused=None):
    """the shutdown signal arrives while a file of two batches is being uploaded (the host is slow to answer the second one): no
    event of that file reaches the host twice"""
    fab = fabric.Fabric("127.0.0.1", 0)
    sd = vlib.scratch_dir("c18c")
    evdir = os.path.join(sd, "events")
    os.makedirs(evdir)
    exe = os.path.join(sd, "harness")
    shutil.copyfile(binp, exe); os.chmod(exe, 0o755)
    json.dump({"logFolder": sd + "/logs", "eventFolder": evdir, "latchKeyFolder": sd + "/keys", "monitorIntervalInSeconds": 60,
               "pollKeyStatusIntervalInSeconds": 15, "hostGAPluginSupport": 1, "ebpfProgramName": "e.o"}, open(sd + "/proxy-agent.json", "w"))
    r, w = os.pipe()
    proc = subprocess.Popen([exe], stdin=subprocess.PIPE, stdout=subprocess.DEVNULL, stderr=open(sd + "/err.txt", "wb"), pass_fds=(w,), cwd=sd,
                            env=dict(os.environ, VERIF_ENGINE="telemetry", VERIF_OUT=f"/dev/fd/{w}", VERIF_EVENT_DIR=evdir,
                                     VERIF_HOST_IP=fab.ip, VERIF_HOST_PORT=str(fab.port), VERIF_INTERVAL_MS="60"))
    os.close(w)
    fo = os.fdopen(r)
    try:
        if not fo.readline().startswith("ready"):
            chk.broken.append({"kind": "harness", "name": "telemetry engine (shutdown stage)", "why": open(sd + "/err.txt").read()[-300:]})
            return
        posts = []

        def gate(req):
            if req["method"] == "POST" and "telemetrydata" in req["target"]:
                posts.append(time.time())
                if len(posts) >= 2:
                    time.sleep(1.2)          # the second batch and everything after it is answered slowly
        fab.gate = gate
        rng = vlib.Rng(chk.seed + 18)
        evs = [gen_event(rng, 30000) for _ in range(4)]
        for i, e in enumerate(evs):
            e["TaskName"] = "shutdown-%d" % i
        tmp = os.path.join(evdir, "000000000001.json.part")
        json.dump(evs, open(tmp, "w"))
        os.rename(tmp, os.path.join(evdir, "000000000001.json"))
        end = time.time() + 10
        while len(posts) < 2 and time.time() < end:
            time.sleep(0.02)
        proc.stdin.write(b"cancel\n"); proc.stdin.flush()
        fo.readline()
        time.sleep(0.3)
        with fab.lock:
            got = list(fab.telemetry)
        from collections import Counter
        seen = Counter()
        for b, st in got:
            if st != 200:
                continue
            try:
                for p in parse_doc(b):
                    seen[dict(p).get("TaskName")] += 1
            except Exception:
                pass
        chk.case(nontrivial_key=("shutdown-during-upload", len(got), tuple(sorted(seen.items()))))
        chk.count("shutdown_during_upload")
        dup = {k: n for k, n in seen.items() if n > 1}
        d = {"file": "4 events of 30000 bytes (two batches)", "posts_accepted": len(got), "shutdown": "signalled while the second batch was waiting for its answer",
             "deliveries_per_event": dict(seen)}
        if len(posts) < 2:
            chk.disagreement("telemetry-batches", d, "two batches posted", len(posts))
        elif dup:
            chk.violation("an event was uploaded more often than it was written (or its text was altered)", d, expected="each event at most once", observed=dup)
    finally:
        try:
            proc.stdin.write(b"quit\n"); proc.stdin.flush(); proc.wait(timeout=5)
        except Exception:
            proc.kill()
        fab.close()
        shutil.rmtree(sd, ignore_errors=True)


def run(chk):
    if not e2e.in_netns():
        e2e.reexec_in_netns()
    e2e.setup_net()
    rng = vlib.Rng(chk.seed)
    chk.prove()
    if not chk.driver():
        return
    ok, binp, out = vlib.build_harness("agent")
    if not ok:
        chk.broken.append({"kind": "harness", "name": "agent harness build", "why": out[-1500:]})
        return
    fab = fabric.Fabric("127.0.0.1", 0)
    sd = vlib.scratch_dir("c18")
    evdir = os.path.join(sd, "events")
    os.makedirs(evdir)
    exe = os.path.join(sd, "harness")
    shutil.copyfile(binp, exe); os.chmod(exe, 0o755)
    json.dump({"logFolder": sd + "/logs", "eventFolder": evdir, "latchKeyFolder": sd + "/keys", "monitorIntervalInSeconds": 60,
               "pollKeyStatusIntervalInSeconds": 15, "hostGAPluginSupport": 1, "ebpfProgramName": "e.o"}, open(sd + "/proxy-agent.json", "w"))
    r, w = os.pipe()
    proc = subprocess.Popen([exe], stdin=subprocess.PIPE, stdout=subprocess.DEVNULL, stderr=open(sd + "/err.txt", "wb"), pass_fds=(w,), cwd=sd,
                            env=dict(os.environ, VERIF_ENGINE="telemetry", VERIF_OUT=f"/dev/fd/{w}", VERIF_EVENT_DIR=evdir,
                                     VERIF_HOST_IP=fab.ip, VERIF_HOST_PORT=str(fab.port), VERIF_INTERVAL_MS="60"))
    os.close(w)
    fo = os.fdopen(r)
    try:
        ready = fo.readline().split()
        if not ready or ready[0] != "ready":
            chk.broken.append({"kind": "harness", "name": "telemetry engine", "why": open(sd + "/err.txt").read()[-500:]})
            return
        ctx = {"os": unhx(ready[1]).decode(), "kw": json.dumps({"CpuArchitecture": unhx(ready[2]).decode()}, separators=(",", ":")),
               "ram": int(ready[3]), "cpu": int(ready[4]),
               "cid": "374188df-b0a2-456a-a7b2-83f28b18d36f", "tenant": "7d2798bb72a0413d9a60b355277df726", "role": "TenantAdminApi.Worker",
               "roleinst": "TenantAdminApi.Worker_IN_0", "sub": "sub-verif", "rg": "rg-verif", "vm": "02aab8a4-74ef-476e-8182-f6d2ba4166a6",
               "imageorigin": 1}
        nsets = int(os.environ.get("VERIF_C18_NSETS") or (12 if chk.tier == "quick" else 600))
        model_lines, expect = [], []
        seq = 0
        for s in range(nsets):
            files = [gen_file(rng, chk.tier) for _ in range(rng.rand_range(1, 4))]
            plan = []
            slow = (s == 3) if chk.tier == "quick" else (s % 25 == 3)
            if s == 1:
                # events too large for any batch whose text is multi-byte throughout (every byte offset of the rendered event falls
                # inside a character for one of the three prefixes): they are dropped, the others of the file delivered
                files = []
                for k in range(3):
                    evs = [gen_event(rng, 10) for _ in range(2)]
                    big = gen_event(rng, 10)
                    big["Message"] = "a" * k + "\u65e5" * 23000
                    evs.insert(1, big)
                    files.append(evs)
                chk.count("oversize_events_multibyte", 3)
            if s == 2:
                # two plain events per file whose rendered sizes add up to the cap, a few bytes below and above it, in steps of 32 bytes
                # (the fixed part of a document and of an event is not assumed: the sweep is wide enough to cross the cap)
                files = []
                plain = {"EventLevel": "Info", "Version": "1.0.30", "TaskName": "proxy_server", "EventPid": "123", "EventTid": "7",
                         "OperationId": "op", "TimeStamp": "2026-09-26T23:00:00.123Z"}
                for d in range(2600, 3700, 24):
                    files.append([dict(plain, Message="a" * 32000), dict(plain, Message="b" * (CAP - 32000 - d))])
                chk.count("files_sized_around_the_cap", len(files))
            giveup = chk.tier != "quick" and s == 7
            if slow:
                plan = [500]              # one failed upload: retried after 15 s
            if giveup:
                # a file of two batches: the first is accepted, the second fails all five attempts (the reader gives it up after 75 s);
                # the sets that follow show whether anything of that file is sent again
                files = [[gen_event(rng, 30000) for _ in range(4)]]
                plan = [200] + [500] * 5
            with fab.lock:
                fab.telemetry = []
                fab.telemetry_plan = list(plan)
            names = []
            for evs in files:
                seq += 1
                name = "%012d.json" % seq
                tmp = os.path.join(evdir, name + ".part")
                json.dump(evs, open(tmp, "w"), ensure_ascii=rng.chance(1, 2))
                os.rename(tmp, os.path.join(evdir, name))
                names.append(name)
            if rng.chance(1, 5):           # an unreadable file must be removed too
                seq += 1
                bad = "%012d.json" % seq
                open(os.path.join(evdir, bad), "w").write("{not json")
                names.append(bad); files.append(None)
            # wait until consumed
            deadline = time.time() + (120 if giveup else 40 if slow else 15)
            while time.time() < deadline:
                left = [n for n in os.listdir(evdir) if n.endswith(".json")]
                if not left:
                    break
                time.sleep(0.05)
            time.sleep(0.25)
            with fab.lock:
                got = list(fab.telemetry)
            left = sorted(os.listdir(evdir))
            readable = [f for f in files if f is not None]
            for evs in readable:
                model_lines.append(model_line(ctx, evs))
            expect.append({"set": s, "files": readable, "got": got, "left": left, "plan": plan, "names": names})
        outs = vlib.run_driver(model_lines)
        oi = iter(outs)
        for ex in expect:
            want_batches = []
            dropped = 0
            for evs in ex["files"]:
                t = next(oi).split(" ")
                nb = int(t[0])
                want_batches += [unhx(x) for x in t[1:1 + nb]]
                dropped += int(t[-1])
            if ex["set"] == 2:
                sizes = sorted(len(b) for b in want_batches)
                chk.coverage["cap_sweep_model_batch_sizes_closest_to_the_cap"] = [x for x in sizes if CAP - 200 <= x < CAP][-6:]
                chk.coverage["cap_sweep_model_batch_sizes_sample"] = sizes[:4] + sizes[-4:]
                chk.count("cap_sweep_files_sent_as_one_batch", sum(1 for x in sizes if x > 60000))
            # what the answers planned for this set let through: a batch is posted until it is accepted, five times at most
            answers = list(ex["plan"])
            delivered, given_up = [], []
            for b in want_batches:
                for attempt in range(5):
                    st_ = answers.pop(0) if answers else 200
                    if st_ == 200:
                        delivered.append(b)
                        break
                else:
                    given_up.append(b)
            if given_up:
                chk.count("batches_given_up_after_five_failures", len(given_up))
                for b in given_up:
                    try:
                        dropped += len(parse_doc(b))
                    except Exception:
                        pass
            want_batches = delivered
            got_ok = [b for b, st in ex["got"] if st == 200]
            got_all = [b for b, st in ex["got"]]
            nev = sum(len(f) for f in ex["files"])
            chk.case(nontrivial_key=("set", ex["set"], nev, len(want_batches), dropped))
            chk.count("events", nev); chk.count("batches", len(want_batches)); chk.count("dropped_oversize", dropped)
            chk.count("upload_failures", len(ex["plan"]))
            desc = {"set": ex["set"], "events_per_file": [len(f) for f in ex["files"]], "plan": ex["plan"],
                    "posted_sizes": [len(b) for b in got_all], "model_batch_sizes": [len(b) for b in want_batches]}
            # correspondence: successful uploads == model batches, byte for byte, in order
            if got_ok != want_batches:
                chk.disagreement("telemetry-batches", desc, [len(b) for b in want_batches], [len(b) for b in got_ok])
            # oracle (on the implementation): size, well-formedness, data preserved, at most once, files removed
            seen_msgs = {}
            for b in got_all:
                if len(b) >= CAP:
                    chk.violation("uploaded batch is not smaller than 64 KiB", desc, observed=len(b))
                try:
                    evs = parse_doc(b)
                except Exception as e:
                    chk.violation("uploaded batch is not well-formed XML", dict(desc, error=str(e), head=b[:200].decode("utf-8", "replace")))
                    continue
                for params in evs:
                    d = dict(params)
                    if len(params) != 23 or len(d) != 23:
                        chk.violation("event text altered the document structure (parameter count)", dict(desc, n=len(params)))
            ok_events = []
            for b in got_ok:
                try:
                    ok_events += [dict(p) for p in parse_doc(b)]
                except Exception:
                    pass
            # every event delivered at most once, with its text intact
            src = [e for f in ex["files"] for e in f]
            from collections import Counter
            want_c = Counter((e["Message"], e["TimeStamp"], e["TaskName"], e["EventLevel"]) for e in src)
            got_c = Counter((e.get("Context1"), e.get("Context2"), e.get("TaskName"), e.get("CapabilityUsed")) for e in ok_events)
            for k, n in got_c.items():
                if n > want_c.get(k, 0):
                    chk.violation("an event was uploaded more often than it was written (or its text was altered)", dict(desc, key=[str(x)[:60] for x in k], n=n))
            if sum(got_c.values()) + dropped != nev:
                chk.violation("events lost or duplicated: delivered + dropped-as-oversize != written", dict(desc, delivered=sum(got_c.values()), dropped=dropped, written=nev))
            if ex["left"]:
                chk.violation("consumed event files were not removed", dict(desc, left=ex["left"][:5]))
        chk.sample({"set0": {"events_per_file": [len(f) for f in expect[0]["files"]], "posted_sizes": [len(b) for b, _ in expect[0]["got"]]},
                    "first_event": expect[0]["files"][0][:1] if expect[0]["files"] and expect[0]["files"][0] else None})
    finally:
        try:
            proc.stdin.write(b"quit\n"); proc.stdin.flush(); proc.wait(timeout=5)
        except Exception:
            proc.kill()
        fab.close()
        shutil.rmtree(sd, ignore_errors=True)
    single_reader(chk, binp)
    shutdown_during_upload(chk, binp)
    for k in ("dropped_oversize", "batches"):
        if chk.counts.get(k, 0) == 0:
            chk.broken.append({"kind": "gate", "name": "generator sanity", "why": f"{k} never exercised"})
    chk.coverage["rule"] = ("sets of 1-4 event files (empty, 1-12 mixed, 20-120 small, events sized to land on the 64 KiB cap, one oversize event "
                            "among others, unreadable file) with markup characters, CDATA terminators, entity look-alikes, non-ASCII; one set "
                            "per run with a failed upload (15 s retry); POST bodies compared byte-for-byte with the model's batches and parsed "
                            "twice with expat")
    chk.assumptions += ["control characters are excluded from event text as the property says", "retry plans with more than one failure are "
                        "only run in the thorough tier (each failure costs the real 15 s sleep)"]
