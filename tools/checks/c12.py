"""C12 the latched key value never leaves the key store.

Proof: Gpa/Props/C12.lean (taint model Gpa/Model/Secrets.lean; the variant of the two echoing error texts is
read from the source by extract_facts). Correspondence: the REAL key keeper, proxy listener, file loggers, event
logger and status task in one process, against a lock-step mock host; every history is replayed on the model
(`sec` ops of gpa-driver) and compared emission by emission (sink, statement, which key's guid appears), and
every byte the process wrote anywhere — log, event, status, provision files, stdout/stderr, bytes returned to
local clients — is searched for the key values the host issued in that history.
"""
import base64
import glob
import json
import os
import re
import shutil
import subprocess
import time

import e2e
import keeper
import pipe
import vlib
from vlib import hx

TEMPLATES = [
    ("provision-state", r"Provision state: "),
    ("provision-failed-state", r"(ebpfProgramStatus|keyLatchStatus|proxyListenerStatus) - "),
    ("task-started", r"poll secure channel status task started\."),
    ("keydir-created", r"key folder .* created if not exists before\."),
    ("keydir-acl", r"Folder .* ACLed if has not before\."),
    ("status-failed", r"Failed to get key status - "),
    ("status-ok", r"Got key status successfully: "),
    ("acquire-failed", r"Failed to acquire key details: "),
    ("store-failed", r"Failed to save key details to file"),
    ("acquired", r"Successfully acquired the key '"),
    ("attest-failed", r"Failed to attest the key: "),
    ("attested", r"Successfully attest the key and ready to use\."),
    ("found-local", r"Found key details from local and ready to use\."),
    ("fetch-local-failed", r"Failed to fetch local key details with error: "),
    ("not-enforced", r"Customer has not enforce the secure channel state\."),
    ("no-key", r"current key is empty, skip computing the signature\."),
    ("added-auth", r"Added authorization header "),
    ("sig-failed", r"compute_signature failed with error: "),
]
TEMPLATES = [(t, re.compile(r)) for t, r in TEMPLATES]
LOGLINE = re.compile(r"^\d{4}-\d\d-\d\dT[\d:.]+ \[(\w+)\]\s+(.*)$")
_SEEN = {}
DERIVED = ("provision-state", "provision-failed-state")
WS = hx("wireserver")
DIS = hx("disabled")


def classify(msg):
    for t, r in TEMPLATES:
        if r.search(msg):
            return t
    return None


def classify_msg(msg):
    """a bare status message (without the wrappers of the derived sinks)"""
    for t, r in TEMPLATES:
        if t not in DERIVED and r.search(msg):
            return t
    return None


def variants(key):
    """forms of a key value whose appearance counts as a leak: any 20 consecutive characters of the text
    (case-insensitive), and for hex keys the raw bytes and their base64"""
    out = []
    low = key.lower().encode()
    n = 20 if len(low) >= 20 else len(low)
    out += [low[i:i + n] for i in range(0, len(low) - n + 1)]
    try:
        raw = bytes.fromhex(key)
        if len(raw) >= 16:
            out.append(raw)
            b = base64.b64encode(raw).lower()
            out.append(b[:24])
    except ValueError:
        pass
    return out


def find_leak(data, keys):
    low = data.lower()
    for kid, key in keys.items():
        for v in variants(key):
            if (v in low) or (v in data):
                return kid
    return None


class Real:
    """one process lifetime of the real agent parts"""

    def __init__(self, binp, key_dir, wrapper=None):
        self.st = e2e.Stack(binp, log_level="Trace", wrapper=wrapper)
        sd = self.st.sd
        self.sd = sd
        self.logs, self.events, self.status = sd + "/logs", sd + "/events", sd + "/status"
        r = self.st.ctl("sinks %s %s %s 60" % (hx(self.logs), hx(self.events), hx(self.status)))
        assert r == "ok", r
        self.kp = keeper.Keeper(None, sd=sd, attach=self.st, interval_ms=15, key_dir=key_dir)
        self.off = {}
        self.seen_events = set()
        self.client_bytes = []
        self.caller = self.st.spawn_caller()

    def new_text(self, path):
        try:
            with open(path, "rb") as f:
                f.seek(self.off.get(path, 0))
                d = f.read()
                self.off[path] = f.tell()
                return d
        except OSError:
            return b""

    def new_log_msgs(self, name):
        out = []
        for line in self.new_text(os.path.join(self.logs, name)).decode("utf-8", "replace").splitlines():
            m = LOGLINE.match(line)
            if m:
                out.append((m.group(1), m.group(2)))
            elif out:
                out[-1] = (out[-1][0], out[-1][1] + "\n" + line)     # continuation of a multi-line message
            else:
                out.append(("?", line))
        return out

    def new_events(self):
        out = []
        for f in sorted(glob.glob(self.events + "/*.json")):
            if f in self.seen_events:
                continue
            try:
                evs = json.load(open(f))
            except (OSError, ValueError):
                continue       # still being written: next time
            self.seen_events.add(f)
            out += [e.get("Message", "") for e in evs]
        return out

    def all_sink_bytes(self):
        """(label, bytes) of everything written outside the key store"""
        out = []
        for root in (self.logs, self.events, self.status, self.sd + "/keys", self.sd + "/tmp"):
            for f in sorted(glob.glob(root + "/**", recursive=True)):
                if os.path.isfile(f):
                    try:
                        out.append((os.path.relpath(f, self.sd), open(f, "rb").read()))
                    except OSError:
                        pass
        for n in ("stdout.txt", "stderr.txt"):
            try:
                out.append((n, open(os.path.join(self.sd, n), "rb").read()))
            except OSError:
                pass
        out.append(("client-bytes", b"\n".join(self.client_bytes)))
        return out

    def close(self):
        try:
            self.kp.close()
        finally:
            self.st.close()


def gen_history(rng, tier):
    """abstract steps; key numbers are allocated as the host issues them"""
    n = rng.rand_range(6, 14 if tier == "quick" else 24)
    steps = []
    nkeys = 0
    files = []          # key numbers with a file (as the model will see it)
    cur = None
    for _ in range(n):
        r = rng.below(100)
        if r < 58:
            sr = rng.below(10)
            if sr == 0:
                status = ("F", rng.pick([500, 503, 404]))
            elif sr == 1:
                status = ("FM", rng.below(3))
            else:
                gr = rng.below(10)
                if gr < 4 or (not files and gr < 8):
                    guid = None
                elif gr < 7 and cur is not None:
                    guid = cur
                elif files:
                    guid = rng.pick(files)
                else:
                    guid = 900 + rng.below(3)      # a guid nobody ever stored
                status = ("K", guid, rng.pick(["wireserver"] * 5 + ["disabled"]))
            ar = rng.below(12)
            if ar < 2:
                acquire = ("H", rng.pick([500, 403, 410]))
            elif ar < 5:
                nkeys += 1
                acquire = ("M", nkeys, rng.below(5))
            elif ar < 6:
                acquire = ("S",)
            elif ar < 7:
                # the host sends the whole key document but announces a longer one and drops the connection: the response ends
                # in the middle as far as the agent can tell, with the key already received
                nkeys += 1
                acquire = ("T", nkeys)
            else:
                nkeys += 1
                acquire = ("K", nkeys, 0 if rng.chance(1, 4) else 1, rng.below(3))
            store_ok = 0 if (acquire[0] == "K" and rng.chance(1, 8)) else 1
            if acquire[0] == "K" and status[0] == "K" and status[1] is None and status[2] != "disabled" and rng.chance(1, 5):
                store_ok = 2            # the key directory has vanished when the key is to be stored (moved away for this one poll)
            attest = rng.pick([("O",)] * 5 + [("H", 500), ("H", 403), ("S",)])
            steps.append(("poll", status, acquire, store_ok, attest))
            # bookkeeping only to steer the generator (the model is the judge)
            if status[0] == "K" and status[2] != "disabled":
                g = status[1]
                need = g is None or g != cur
                if need and not (g in files):
                    if acquire[0] == "K" and store_ok == 1:
                        files.append(acquire[1])
                        if acquire[2] == 1 and attest == ("O",):
                            cur = acquire[1]
                elif need:
                    cur = g
            elif status[0] == "K":
                cur = None
        elif r < 70:
            steps.append(("request",))
        elif r < 75:
            steps.append(("abort",))
        elif r < 85:
            steps.append(("provq",))
        elif r < 92:
            steps.append(("tick",))
        elif r < 96:
            steps.append(("timeup",))
        else:
            steps.append(("restart",))
            cur = None
    # every history ends with clients hanging up mid-request (whatever key is latched by then) and a last look at the status
    steps += [("abort",), ("tick",)]
    return steps


def key_text(rng_val, kid, hexok, shape):
    base = "%064x" % ((0x9E3779B97F4A7C15 * (kid + 17) * (rng_val | 1)) % (1 << 256))
    if hexok:
        return base.upper() if shape == 1 else base
    if shape == 0:
        return "ZK" + base[2:]           # not hex
    if shape == 1:
        return base[:-1]                 # odd length
    return base[:30] + "-" + base[31:]   # a separator inside


def malformed_body(kid, key, shape):
    good = {"authorizationScheme": "Azure-HMAC-SHA256", "guid": "g-%d" % kid, "issued": "2024-01-01T00:00:00Z", "key": key}
    if shape == 0:
        d = dict(good); del d["issued"]
        return json.dumps(d).encode()
    if shape == 1:
        d = dict(good); d["incarnationId"] = "not-a-number"
        return json.dumps(d).encode()
    if shape == 2:
        return json.dumps(good).encode()[:-1]            # truncated
    if shape == 3:
        return json.dumps(good).encode() + b" trailing"
    return b'["' + key.encode() + b'"]'                   # wrong top-level type


def run(chk):
    if not e2e.in_netns():
        e2e.reexec_in_netns()
    rng = vlib.Rng(chk.seed)
    chk.prove()
    if not chk.driver():
        return
    ok, binp, out = vlib.build_harness("agent")
    if not ok:
        chk.broken.append({"kind": "harness", "name": "agent harness build", "why": out[-1500:]})
        return
    nhist = 8 if chk.tier == "quick" else 250
    for h in range(nhist):
        steps = gen_history(rng, chk.tier)
        run_history(chk, binp, steps, rng.below(1 << 30), strace=(h == 0))
        if len(chk.violations) + len(chk.disagreements) > 12:
            break
    for delay in ((250,) if chk.tier == "quick" else (30, 250, 700)):
        slow_acl(chk, binp, delay)
    if chk.counts.get("key_files_with_canary", 0) < 3 or chk.counts.get("signed_requests", 0) < 1:
        chk.broken.append({"kind": "gate", "name": "generator sanity", "why": "too few latched keys / signed requests: %r" % dict(chk.counts)})
    chk.coverage["rule"] = ("histories of polls (status error/malformed/doc naming no, the current, a stored or an unknown guid; acquire "
                            "error status, five malformed bodies that contain the key, connection reset, hex and non-hex keys; store failure; "
                            "attest ok/error/reset), authorized client requests, /provision queries, status ticks, deadline, restarts; "
                            "non-trivial = a history in which the host issued at least one key")


def step_line(step, guids):
    if step[0] == "abort":
        return "sec request"        # clients that hang up mid-request: the model has nothing to add to a request
    if step[0] != "poll":
        return "sec " + step[0]
    _, status, acquire, store_ok, attest = step
    if status[0] == "F":
        s = "F %d" % status[1]
    elif status[0] == "FM":
        s = "F %d" % (1000 + status[1])
    else:
        s = "K %s %s 0" % ("N" if status[1] is None else str(status[1]), hx(status[2]))
    if acquire[0] == "H":
        a = "H %d" % acquire[1]
    elif acquire[0] == "M":
        a = "M %d" % acquire[1]
    elif acquire[0] in ("S", "T"):
        a = "S"
    else:
        a = "K %d %d" % (acquire[1], acquire[2])
    t = "O" if attest[0] == "O" else ("H %d" % attest[1] if attest[0] == "H" else "S")
    return "sec poll %s %s %d %s" % (s, a, 1 if store_ok == 1 else 0, t)


def parse_model(line):
    m = re.match(r"^cur=(\S+) files=(\S+) emits=(\S+) fs=(\S+)$", line)
    if not m:
        return None
    emits = []
    if m.group(3) != "-":
        for e in m.group(3).split(","):
            sink, tid, flags = e.split(":")
            emits.append((sink, tid, [] if flags == "-" else flags.split("+")))
    return {"cur": m.group(1), "files": [] if m.group(2) == "-" else sorted(m.group(2).split(",")), "emits": emits,
            "fs": [] if m.group(4) == "-" else m.group(4).split(",")}


def run_history(chk, binp, steps, salt, strace=False):
    work = vlib.scratch_dir("c12")
    key_dir = os.path.join(work, "keys")
    keys = {}          # key number -> text, as issued by the host in this history
    desc = {"steps": [list(map(str, s)) for s in steps], "salt": salt}
    model_lines = ["sec new", "sec start"]
    owner = [None, -1]
    for i, s_ in enumerate(steps):
        if s_[0] == "restart":
            model_lines += ["sec restart", "sec start"]
            owner += [None, i]
        else:
            model_lines.append(step_line(s_, None))
            owner.append(i)
    try:
        mout = vlib.run_driver(model_lines)
    except RuntimeError as e:
        chk.broken.append({"kind": "driver", "name": "sec ops", "why": str(e)})
        shutil.rmtree(work, ignore_errors=True)
        return
    if not mout[0].startswith("ok variant=11") and not any(b.get("name") == "code_withholds" and b.get("kind") == "theorem" and "driver" in b.get("why", "") for b in chk.broken):
        chk.broken.append({"kind": "theorem", "name": "code_withholds",
                           "why": "the source no longer withholds the key / the key response body at every site (driver: %s)" % mout[0]})
    parsed = {}
    for l, o in zip(mout, owner):
        if o is None:
            continue
        pm = parse_model(l)
        if pm is None:
            chk.broken.append({"kind": "driver", "name": "sec ops", "why": "unparsable: %r" % l})
            shutil.rmtree(work, ignore_errors=True)
            return
        parsed[o] = pm
    models = [parsed[i] for i in range(-1, len(steps))]
    strace_log = os.path.join(work, "strace.txt")
    wrapper = ["strace", "-f", "-o", strace_log, "-e", "trace=mkdir,mkdirat,chmod,fchmod,fchmodat,chown,fchown,fchownat,lchown,openat,open,creat,rename,renameat,renameat2"] if strace else None
    real = Real(binp, key_dir, wrapper)
    reals = [real]
    status_tid = [None]
    cur_status_tid = {"tid": "task-started"}
    try:
        # start-up section: wait for the first status request at the gate
        if not real.kp.wait_at_gate(timeout=10):
            chk.broken.append({"kind": "harness", "name": "keeper start", "why": "no status request"})
            return
        compare(chk, desc, -1, models[0], observe(real, 0.15), keys, cur_status_tid, more=lambda: observe(real, 0.25))
        for i, step in enumerate(steps):
            m = models[i + 1]
            kind = step[0]
            chk.count("step_" + kind)
            if kind == "poll":
                plan = make_plan(step, keys, salt, chk)
                vanished = step[3] == 2
                if vanished:
                    os.rename(key_dir, key_dir + ".away")
                    chk.count("polls_with_the_key_directory_gone")
                state = real.kp.step(plan, kick=True)
                if vanished:
                    if os.path.isdir(key_dir):
                        # the agent made a key directory of its own in the meantime: whatever it put there is judged like any key file
                        check_key_dir(chk, dict(desc, note="key directory re-created by the agent after it had vanished"), i,
                                      dict(m, files=sorted(os.path.basename(f)[2:-4] for f in glob.glob(key_dir + "/*.key"))), key_dir, keys)
                        shutil.rmtree(key_dir, ignore_errors=True)
                    os.rename(key_dir + ".away", key_dir)
                if state is None:
                    chk.disagreement("poll-did-not-finish", dict(desc, at=i), "iteration completes", "no next status request within 8 s")
                    return
                obs = observe(real, 0.15)
                compare(chk, desc, i, m, obs, keys, cur_status_tid, more=lambda: observe(real, 0.25))
                check_key_dir(chk, desc, i, m, key_dir, keys)
                st = keeper.parse_state(state)
                real_cur = vlib.unhx(st.get("guid", "")).decode() if st.get("guid") not in (None, "-") else ""
                want_cur = "" if m["cur"] == "-" else "g-%s" % m["cur"]
                if real_cur != want_cur:
                    chk.disagreement("current-key-guid", dict(desc, at=i), want_cur, real_cur)
            elif kind == "request":
                real.st.hosts.take()
                c = real.st.connect(audit=(0, real.caller, 1, "168.63.129.16", 80))
                resp = c.request(e2e.build_request("GET", "/machine?comp=goalstate", [(b"Host", b"168.63.129.16"), (b"x-ms-version", b"2012-11-30")]), b"GET", 5.0)
                c.close()
                real.client_bytes.append(repr(resp).encode())
                recs = real.st.hosts.take()
                obs = observe(real, 0.05)
                auth = [v for r in recs for n, v in r["headers"] if n.lower() == b"x-ms-azure-host-authorization"]
                obs["upstreamAuth"] = [("auth", a.decode("latin-1")) for a in auth]
                compare(chk, desc, i, m, obs, keys, cur_status_tid, only={"connLog", "upstreamAuth"}, more=lambda: observe(real, 0.25))
                for a in auth:
                    chk.count("signed_requests")
                    if not re.match(r"^Azure-HMAC-SHA256 \S+ [0-9a-f]{64}$", a.decode("latin-1")):
                        chk.disagreement("authorization-header-shape", dict(desc, at=i), "scheme guid mac", a.decode("latin-1"))
            elif kind == "abort":
                # clients hang up while their requests wait for the (slowed) actors: whatever the agent logs about the undeliverable
                # replies goes through the same sinks
                try:
                    for j in range(16):
                        if j % 8 == 0:
                            # first the key keeper's state actor is the slow one (rules and key reads are answered late), then the status actor
                            real.st.ctl("slowactor key_keeper 6000" if j == 0 else "slowactor agent_status 4000")
                            # (not in the traced history: under strace the agent needs some ten seconds to work 48 dropped connections
                            # off, and the steps that follow would be judged while it is still busy)
                            if not strace:
                                pipe.concurrent_aborts(lambda: real.st.connect(audit=(0, real.caller, 1, "168.63.129.16", 80)),
                                                       lambda q: e2e.build_request("GET", "/machine?comp=goalstate&abort=%d-%d" % (j, q), [(b"Host", b"168.63.129.16")]))
                        c = real.st.connect(audit=(0, real.caller, 1, "168.63.129.16", 80))
                        c.send(e2e.build_request("GET", "/machine?comp=goalstate&abort=%d" % j, [(b"Host", b"168.63.129.16")]))
                        time.sleep(0.004 * (j % 8))
                        c.close(rst=True)
                    time.sleep(0.25)
                finally:
                    real.st.ctl("khook off")
                # the agent works the aborted connections off (slowly when it is traced): wait until its logs have been quiet for
                # 0.4 s (20 s at most) before the next step is judged
                t_end, last, quiet_since = time.time() + 20.0, None, time.time()
                while time.time() < t_end:
                    sz = tuple(os.path.getsize(f) if os.path.exists(f) else 0 for f in (os.path.join(real.logs, "ProxyAgent.log"), os.path.join(real.logs, "ProxyAgent.Connection.log")))
                    if sz != last:
                        last, quiet_since = sz, time.time()
                    elif time.time() - quiet_since > 0.4:
                        break
                    time.sleep(0.05)
                real.st.hosts.take()
                observe(real, 0.05)           # not compared: how far each aborted request got is timing
            elif kind == "provq":
                c = e2e.ClientConn(0, 5.0)
                resp = c.request(e2e.build_request("GET", "/provision", [(b"Host", b"127.0.0.1"), (b"Metadata", b"true")]), b"GET", 5.0)
                c.close()
                body = resp["body"] if resp else b""
                real.client_bytes.append(repr(resp).encode())
                compare(chk, desc, i, m, observe(real, 0.05), keys, cur_status_tid, only={"connLog"}, more=lambda: observe(real, 0.25))
                mm = re.search(rb"keyLatchStatus - ([^\r\n]*?)(?:\\r\\n|\r\n|\")", body)
                if mm:
                    chk.count("provision_reply_with_key_latch_text")
                    t = classify_msg(mm.group(1).decode("utf-8", "replace"))
                    if t != cur_status_tid["tid"]:
                        chk.disagreement("provision-key-latch-text", dict(desc, at=i), cur_status_tid["tid"], "%s: %r" % (t, mm.group(1)[:120]))
            elif kind == "tick":
                p = os.path.join(real.status, "status.json")
                time.sleep(0.15)
                try:
                    sj = json.load(open(p))
                    msg = sj["proxyAgentStatus"]["keyLatchStatus"]["message"]
                    t = classify_msg(msg)
                    chk.count("status_json_read")
                    if t != cur_status_tid["tid"]:
                        chk.disagreement("status-json-key-latch-text", dict(desc, at=i), cur_status_tid["tid"], "%s: %r" % (t, msg[:120]))
                except (OSError, ValueError, KeyError):
                    chk.count("status_json_unreadable")
            elif kind == "timeup":
                real.st.ctl("prov call timeup")
                compare(chk, desc, i, m, observe(real, 0.15), keys, cur_status_tid, only={"agentLog", "event"}, more=lambda: observe(real, 0.25))
                try:
                    tag = open(os.path.join(real.sd, "keys", "status.tag"), "rb").read()
                    chk.count("status_tag_read")
                    mm = re.search(rb"keyLatchStatus - ([^\r\n]*)", tag)
                    if mm and classify_msg(mm.group(1).decode("utf-8", "replace")) != cur_status_tid["tid"]:
                        chk.disagreement("status-tag-key-latch-text", dict(desc, at=i), cur_status_tid["tid"], repr(mm.group(1)[:120]))
                except OSError:
                    chk.count("status_tag_absent")
            elif kind == "restart":
                scan(chk, desc, i, real, keys)
                real.close()
                real = Real(binp, key_dir, None)
                reals.append(real)
                cur_status_tid["tid"] = "task-started"
                if not real.kp.wait_at_gate(timeout=10):
                    chk.broken.append({"kind": "harness", "name": "keeper restart", "why": "no status request"})
                    return
                # the model's `restart` is followed by `start`: compare the start-up section of the new process
                compare(chk, desc, i, m, observe(real, 0.15), keys, cur_status_tid, more=lambda: observe(real, 0.25))
            scan(chk, desc, i, real, keys)
        if keys:
            chk.case(nontrivial_key=("issued", len(keys), tuple(s[0] for s in steps)))
        else:
            chk.case(nontrivial_key=None)
        if strace:
            check_strace(chk, desc, strace_log, key_dir, models)
    finally:
        for r in reals:
            try:
                r.close()
            except Exception:
                pass
        shutil.rmtree(work, ignore_errors=True)


def slow_acl(chk, binp, delay_ms=250):
    """restricting the key directory is slow (changing owner and mode take 250 ms each: a busy or remote file system) on the first start
    with a key directory that is not yet root-only: from the moment a key file exists in it, the directory must be root-only"""
    import subprocess
    import threading
    so = os.path.join(vlib.VERIF, ".cache", "slowacl.so")
    cc = subprocess.run(["clang", "-shared", "-fPIC", "-O1", "-w", "-o", so, os.path.join(vlib.VERIF, "tools", "native", "slowacl.c"), "-ldl"],
                        stdout=subprocess.PIPE, stderr=subprocess.STDOUT, text=True)
    if cc.returncode != 0:
        chk.notes.append("slow-acl stage skipped: the shim does not build (%s)" % cc.stdout[-200:])
        return
    work = vlib.scratch_dir("c12acl")
    key_dir = os.path.join(work, "keys")
    keys = {}
    real = None
    bad, seen_key = [], []
    stop = threading.Event()

    def poll():
        while not stop.is_set():
            try:
                if glob.glob(key_dir + "/*.key"):
                    st = os.stat(key_dir)
                    if not seen_key:
                        seen_key.append(time.time())
                    if ((st.st_mode & 0o777) != 0o700 or st.st_uid != 0) and not bad:
                        bad.append("mode %o uid %d" % (st.st_mode & 0o777, st.st_uid))
            except OSError:
                pass
            time.sleep(0.001)
    try:
        os.makedirs(key_dir, exist_ok=True)
        os.chmod(key_dir, 0o755)          # before the agent starts: a key directory left by an installation that did not restrict it
        real = Real(binp, key_dir, ["env", "LD_PRELOAD=" + so, "VERIF_SLOW_ACL_MS=%d" % delay_ms])
        th = threading.Thread(target=poll, daemon=True)
        th.start()
        if not real.kp.wait_at_gate(timeout=10):
            chk.broken.append({"kind": "harness", "name": "keeper start (slow acl)", "why": "no status request"})
            return
        step = ("poll", ("K", None, "wireserver"), ("K", 1, 1, 0), 1, ("O",))
        plan = make_plan(step, keys, 77, chk)
        real.kp.step(plan, kick=True)
        time.sleep(0.8)
        stop.set()
        th.join(2)
        chk.case(nontrivial_key=("slow-acl", delay_ms, bool(seen_key), bool(bad)))
        chk.count("first_start_with_slow_acl")
        if not seen_key:
            chk.disagreement("key-files", {"stage": "slow acl"}, "the key of the first poll is stored", "no key file")
        elif bad:
            chk.violation("key files exist in a key directory that is not root-only",
                          {"situation": "first start, key directory still 0755, chown/chmod each take %d ms; host names" % delay_ms + " key g-1 and hands it out"},
                          expected="mode 0700 uid 0 from the moment a key file exists", observed=bad[0], finding_key="keydir-mode-slow-acl")
    finally:
        stop.set()
        if real is not None:
            real.close()
        shutil.rmtree(work, ignore_errors=True)


def make_plan(step, keys, salt, chk):
    _, status, acquire, store_ok, attest = step
    plan = {}
    if status[0] == "F":
        plan["status"] = {"kind": "http", "code": status[1]}
    elif status[0] == "FM":
        plan["status"] = {"kind": "raw", "body": [b"{not json", b'{"version": 7}', b""][status[1]]}
    else:
        guid = None if status[1] is None else "g-%d" % status[1]
        plan["status"] = {"kind": "doc", "doc": {"version": "1.0", "secureChannelState": "Wireserver" if status[2] == "wireserver" else "Disabled", "keyGuid": guid}}
    if acquire[0] == "H":
        plan["acquire"] = {"kind": "http", "code": acquire[1]}
    elif acquire[0] == "S":
        plan["acquire"] = {"kind": "reset"}
    elif acquire[0] == "T":
        k = key_text(salt, acquire[1], True, 0)
        keys[acquire[1]] = k
        plan["acquire"] = {"kind": "truncated", "guid": "g-%d" % acquire[1], "key": k}
        chk.count("acquire_response_cut_short")
    elif acquire[0] == "M":
        k = key_text(salt, acquire[1], True, 0)
        keys[acquire[1]] = k
        plan["acquire"] = {"kind": "raw", "body": malformed_body(acquire[1], k, acquire[2])}
        chk.count("malformed_body_shape_%d" % acquire[2])
    else:
        k = key_text(salt, acquire[1], acquire[2] == 1, acquire[3])
        keys[acquire[1]] = k
        guid = "g-%d" % acquire[1] if store_ok in (1, 2) else "nodir-%d/g-%d" % (acquire[1], acquire[1])
        plan["acquire"] = {"kind": "key", "guid": guid, "key": k}
        chk.count("key_hex" if acquire[2] == 1 else "key_not_hex_shape_%d" % acquire[3])
    plan["attest"] = {"kind": "ok"} if attest[0] == "O" else ({"kind": "http", "code": attest[1]} if attest[0] == "H" else {"kind": "reset"})
    return plan


def observe(real, wait):
    time.sleep(wait)
    obs = {"agentLog": [], "connLog": [], "console": [], "event": [], "other": 0}
    for lvl, msg in real.new_log_msgs("ProxyAgent.log"):
        t = classify(msg)
        if t:
            obs["agentLog"].append((t, msg))
        else:
            obs["other"] += 1
    for lvl, msg in real.new_log_msgs("ProxyAgent.Connection.log"):
        t = classify(msg)
        if t:
            obs["connLog"].append((t, msg))
        else:
            obs["other"] += 1
    for line in real.new_text(os.path.join(real.sd, "stdout.txt")).decode("utf-8", "replace").splitlines():
        t = classify(line)
        if t:
            obs["console"].append((t, line))
    for msg in real.new_events():
        t = classify(msg)
        if t:
            obs["event"].append((t, msg))
    return obs


def compare(chk, desc, at, m, obs, keys, cur_status_tid, only=None, more=None):
    """model emissions vs classified real lines, per sink, as ordered lists of statements; and which guid each carries"""
    sinks = ["agentLog", "connLog", "console", "event", "upstreamAuth"]
    if more is not None:
        # the sinks are written by other tasks (file loggers, the event flush): what the model expects and is not there yet is waited
        # for a little longer (1.5 s at most) - the next step has not run, so nothing that belongs to it can turn up meanwhile
        for _ in range(6):
            lacking = [k for k in sinks if (only is None or k in only) and k in obs
                       and len([1 for s_, _t, _f in m["emits"] if s_ == k]) > len(obs[k])]
            if not lacking:
                break
            for k, v in more().items():
                if isinstance(v, list):
                    obs.setdefault(k, [])
                    obs[k] += v
                else:
                    obs[k] = obs.get(k, 0) + v
            chk.count("emissions_waited_for")
    for sink in sinks:
        if only is not None and sink not in only:
            continue
        if sink not in obs:
            continue
        want = [(tid, fl) for s, tid, fl in m["emits"] if s == sink]
        got = obs[sink]
        chk.count("emissions_compared", len(want))
        if sorted(t for t, _ in want) != sorted(t for t, _ in got):
            chk.disagreement("emissions-" + sink, dict(desc, at=at), [t for t, _ in want], [(t, x[:100]) for t, x in got])
            continue
        # guid flags, statement by statement (same statement order within a sink)
        for tid in set(t for t, _ in want):
            ws = [fl for t, fl in want if t == tid]
            gs = [x for t, x in got if t == tid]
            for fl, text in zip(ws, gs):
                for f in fl:
                    if tid in DERIVED:
                        continue      # a copy of the status message that the code includes only while the latch is not ready
                    if f[0] == "g" and ("g-%s" % f[1:]) not in text:
                        chk.disagreement("guid-flow-" + sink, dict(desc, at=at), "%s carries guid g-%s" % (tid, f[1:]), text[:160])
                for g in re.findall(r"\bg-(\d+)\b", text):
                    if ("g" + g) not in fl:
                        chk.disagreement("guid-flow-" + sink, dict(desc, at=at), "%s without guid g-%s (model flags %r)" % (tid, g, fl), text[:160])
    for s, tid, fl in m["emits"]:
        if s == "statusMsg":
            cur_status_tid["tid"] = tid
        if s != "keyFile" and any(f[0] == "s" for f in fl):
            chk.violation("the model of the current source sends the key value to sink %s (statement %s)" % (s, tid), dict(desc, at=at),
                          expected="no key material outside the key file", observed="%s:%s:%s" % (s, tid, "+".join(fl)),
                          finding_key="model-leak-%s-%s" % (s, tid))


def check_key_dir(chk, desc, at, m, key_dir, keys):
    real_files = sorted(os.path.basename(f)[2:-4] for f in glob.glob(key_dir + "/*.key"))
    if real_files != sorted(m["files"]):
        chk.disagreement("key-files", dict(desc, at=at), m["files"], real_files)
    if real_files:
        st = os.stat(key_dir)
        if (st.st_mode & 0o777) != 0o700 or st.st_uid != 0:
            chk.violation("key files exist in a key directory that is not root-only", dict(desc, at=at), expected="mode 0700 uid 0",
                          observed="mode %o uid %d" % (st.st_mode & 0o777, st.st_uid), finding_key="keydir-mode")
    for f in glob.glob(key_dir + "/*.key"):
        kid = int(os.path.basename(f)[2:-4])
        data = open(f, "rb").read()
        if kid in keys and keys[kid].encode() in data:
            chk.count("key_files_with_canary")
        else:
            chk.disagreement("key-file-content", dict(desc, at=at), "file of key %d holds its value" % kid, repr(data[:200]))
    # nothing else in the key directory (or next to it) may hold a key value
    for f in glob.glob(os.path.dirname(key_dir) + "/**", recursive=True):
        if os.path.isfile(f) and not (os.path.dirname(f) == key_dir and f.endswith(".key")) and not f.endswith("strace.txt"):
            leak = find_leak(open(f, "rb").read(), keys)
            if leak is not None:
                chk.violation("a key value is stored outside <guid>.key in the key directory", dict(desc, at=at, file=os.path.relpath(f, os.path.dirname(key_dir))),
                              expected="only <keydir>/<guid>.key", observed="key %d found in %s" % (leak, f), finding_key="stray-key-file")


def scan(chk, desc, at, real, keys):
    if not keys:
        return
    for label, data in real.all_sink_bytes():
        chk.count("sink_bytes_scanned", len(data))
        leak = find_leak(data, keys)
        if leak is not None:
            low = data.lower()
            pos = -1
            for v in variants(keys[leak]):
                pos = low.find(v)
                if pos >= 0:
                    break
            ctx = data[max(0, pos - 160):pos + 100].decode("utf-8", "replace") if pos >= 0 else ""
            sinkkind = re.sub(r"[0-9]+", "N", label)
            stmt = classify(ctx) or "unclassified"
            seen = _SEEN.setdefault(desc["salt"], set())
            if (sinkkind, stmt) in seen:
                return
            seen.add((sinkkind, stmt))
            chk.violation("a key value issued by the host appears in %s" % label, dict(desc, at=at, key_number=leak, key_value=keys[leak]),
                          expected="the key value only in <keydir>/<guid>.key", observed=ctx,
                          replay_cmd="python3 tools/run_check.py C12 %s  # VERIF_SEED=%s" % (chk.tier, chk.seed),
                          finding_key="leak-%s-%s" % (sinkkind, stmt))
            return


def check_strace(chk, desc, log, key_dir, models):
    """order of the key directory's mkdir / chown / chmod and the first key file creation, from the syscall trace"""
    try:
        lines = open(log, errors="replace").read().splitlines()
    except OSError:
        chk.broken.append({"kind": "harness", "name": "strace", "why": "no trace"})
        return
    # strace -f splits a call that another thread interrupts into "... <unfinished ...>" and "<... name resumed> ...) = result":
    # join the two halves (per thread) so that the result belongs to the call again
    joined, pending = [], {}
    for l in lines:
        mp = re.match(r"\s*(\d+)\s+(.*)$", l)
        pid_, body = (mp.group(1), mp.group(2)) if mp else ("", l)
        if body.endswith("<unfinished ...>"):
            pending[pid_] = body[:-len("<unfinished ...>")]
            continue
        mr = re.match(r"<\.\.\. \w+ resumed>\s*(.*)$", body)
        if mr and pid_ in pending:
            joined.append(pid_ + " " + pending.pop(pid_) + mr.group(1))
            continue
        joined.append(l)
    lines = joined
    ops = []
    for l in lines:
        if key_dir not in l or "= -1" in l and "EEXIST" not in l:
            continue
        m = re.search(r"\b(mkdir|mkdirat|chmod|fchmodat|chown|fchownat|lchown|openat|open|creat)\((.*)$", l)
        if not m:
            continue
        call, rest = m.group(1), m.group(2)
        if call.startswith("mkdir") and ('"%s"' % key_dir) in rest:
            ops.append("mkdir")
        elif call in ("chown", "fchownat", "lchown") and ('"%s"' % key_dir) in rest:
            ops.append("chown")
        elif call in ("chmod", "fchmodat") and ('"%s"' % key_dir) in rest:
            mm = re.search(r", 0?([0-7]{3,4})\b", rest)
            ops.append("chmod%d" % int(mm.group(1), 8) if mm else "chmod?")
        elif call in ("openat", "open", "creat") and "O_CREAT" in rest or call == "creat":
            mm = re.search(r'"%s/g-(\d+)\.(?:key|tmp)"' % re.escape(key_dir), rest)
            if mm:
                ops.append("create" + mm.group(1))
    chk.count("strace_ops", len(ops))
    want = [o for m in models for o in m["fs"]]
    # the model's trace covers the first process lifetime only when there was no restart; compare the prefix up to the first create
    def upto_create(seq):
        out = []
        for o in seq:
            out.append(o)
            if o.startswith("create"):
                break
        return [o for o in out if o != "mkdir"]     # mkdir is skipped when the directory exists (create_dir_all / harness pre-creates)
    w_, o_ = upto_create(want), upto_create(ops)
    if not any(x.startswith("create") for x in o_):
        # the traced (first) process lifetime ended before any key was stored: what it did is the beginning of the model's sequence
        # (which goes on through the later lifetimes)
        w_ = [x for x in w_ if not x.startswith("create")][:len(o_)]
    if o_ != w_:
        chk.disagreement("fs-order", desc, w_, o_)
    seen_chmod = False
    for o in ops:
        if o == "chmod448":
            seen_chmod = True
        if o.startswith("create") and not seen_chmod:
            chk.violation("a key file was created before the key directory was made mode 0700", desc, expected="chmod 0700 first", observed=ops[:12],
                          finding_key="create-before-chmod")
            break
