"""C20 extension health hysteresis: proof (Gpa.Props.C20) + correspondence with the real
StatusState / ServiceState + executable oracle of the property on the implementation's outputs."""
import itertools
import shutil
import vlib

SPEC_THR = 20
SPEC_REP = 120


def gen_ops(chk, rng):
    """Returns list of sessions; a session = list of op lines starting with a reset."""
    sessions = []
    quick = chk.tier == "quick"
    # (1) exhaustive short observation sequences
    maxlen = 10 if quick else 14
    for n in range(1, maxlen + 1):
        for bits in itertools.product("01", repeat=n):
            sessions.append(["health new"] + [f"health obs {b}" for b in bits])
    chk.count("exhaustive_sequences", len(sessions))
    # (2) failure runs of chosen lengths followed by every short suffix
    if quick:
        lens = list(range(0, 45)) + [9999, 10000, 10001, 10050]
    else:
        lens = list(range(0, 300)) + list(range(9990, 10060)) + [20000, 70000]
    sufs = [[], ["1"], ["1", "1"], ["1", "0"], ["1", "0", "1"], ["1", "1", "0"]]
    for L in lens:
        for suf in sufs:
            pre = rng.pick([[], ["1"], ["1", "1"], ["0", "1"]])
            sessions.append(["health new"] + [f"health obs {b}" for b in pre + ["0"] * L + suf])
            chk.count("failure_runs")
    # (3) random long sequences, failure-biased so that Error is reached often
    for _ in range(40 if quick else 800):
        n = rng.rand_range(30, 400)
        p = rng.pick([1, 3, 10, 30, 50])
        s = ["health new"]
        for _ in range(n):
            s.append("health obs " + ("1" if rng.chance(p, 100) else "0"))
        sessions.append(s)
        chk.count("random_sequences")
    return sessions


def gen_notes(chk, rng, note_max):
    sessions = []
    keys = ["ReadProxyAgentStatusFile", "FileVersion", "k"]
    vals = ["success", "error", "transitioning", ""]
    # the monitor loop's shape: every iteration reports on the status file, and when that was readable, on the file version
    for _ in range(6 if chk.tier == "quick" else 100):
        s = ["svc new"]
        ver = rng.pick(["success", "error"])
        for i in range(rng.rand_range(130, 400)):
            readable = not rng.chance(1, 40)
            s.append(f"svc note {vlib.hx(keys[0])} {vlib.hx('success' if readable else 'error')}")
            if readable:
                if rng.chance(1, 90):
                    ver = rng.pick(["success", "error"])
                s.append(f"svc note {vlib.hx(keys[1])} {vlib.hx(ver)}")
        sessions.append(s)
        chk.count("monitor_shaped_sessions")
    for _ in range(30 if chk.tier == "quick" else 600):
        s = ["svc new"]
        n = rng.rand_range(50, 900)
        cur = {k: rng.pick(vals) for k in keys}
        for _ in range(n):
            k = rng.pick(keys[: rng.rand_range(1, 3)])
            if rng.chance(1, 150):
                cur[k] = rng.pick(vals)
            s.append(f"svc note {vlib.hx(k)} {vlib.hx(cur[k])}")
        sessions.append(s)
        chk.count("note_sessions")
    # deterministic: 400 identical notifications for one key, other keys interleaved
    s = ["svc new"]
    for i in range(400):
        s.append(f"svc note {vlib.hx('a')} {vlib.hx('x')}")
        if i % 3 == 0:
            s.append(f"svc note {vlib.hx('b')} {vlib.hx('y' if i % 2 else 'z')}")
    sessions.append(s)
    return sessions


def oracle_health(chk, session, outs):
    """decidable form of C20 (a)-(d) on the IMPLEMENTATION's reports."""
    obs = []
    prev = None
    for line, o in zip(session[1:], outs[1:]):
        b = line.endswith("1")
        obs.append(b)
        bad = None
        if o == "error":
            if len(obs) < SPEC_THR or any(obs[-SPEC_THR:]):
                bad = f"Error reported with fewer than {SPEC_THR} trailing failures"
            if b:
                bad = "Error reported directly after a successful observation"
            if prev == "success":
                bad = "Error reported directly after a Success report"
        if b and prev == "error" and o == "error":
            bad = "a success did not move the report away from Error"
        if len(obs) >= 2 and obs[-1] and obs[-2] and o != "success":
            bad = "two consecutive successes did not yield Success"
        if o.startswith("other"):
            bad = "unknown state string reported"
        if bad:
            k = len(obs)
            chk.violation(bad, {"ops": session[: k + 1][-60:], "n_ops": k}, expected="per C20", observed=o,
                          replay_cmd="VERIF_ENGINE=health <harness-ext> < ops")
            return False
        prev = o
    return True


def oracle_notes(chk, session, outs):
    last = {}  # key -> (value, index-in-key-stream of last emission, count since)
    for line, o in zip(session[1:], outs[1:]):
        t = line.split(" ")
        k, v = t[2], t[3]
        emitted = o == "true"
        bad = None
        if k not in last:
            if not emitted:
                bad = "first notification for a key not emitted"
            last[k] = [v, 1]
        else:
            pv, since = last[k]
            if pv != v:
                if not emitted:
                    bad = "value change not emitted"
                last[k] = [v, 1]
            else:
                if emitted and since < SPEC_REP:
                    bad = f"identical notification re-emitted after only {since} repetitions (< {SPEC_REP})"
                last[k] = [v, 1 if emitted else since + 1]
        if bad:
            chk.violation(bad, {"ops_tail": session[-50:], "n_ops": len(session)}, observed=o)
            return False
    return True


def monitor_functions(chk, rng, binp, dok):
    """the functions through which the monitor loop itself feeds the health automaton and publishes its verdict (private to
    service_main; the farm's copy of that file declares a child module that calls them): a read of the agent's status file whose
    version agrees with the extension's is one successful observation, a version mismatch or any outcome of the update command one
    failed observation; what they publish is what the automaton says for that observation"""
    sd = vlib.scratch_dir("c20m")
    sessions = []
    for k in range(40 if chk.tier == "quick" else 800):
        ops = []
        n = rng.rand_range(5, 90)
        p_fail = rng.pick([10, 50, 90, 97])
        for _ in range(n):
            if rng.chance(p_fail, 100):
                ops.append(rng.pick([("sub", "1.0.5", "1.0.6"), ("sub", "1.0.5", ""), ("svc", "0"), ("svc", "3"), ("svc", "spawn-error"), ("sub", "2.0", "1.0")]))
            else:
                ops.append(("sub", "1.0.5", "1.0.5"))
        if k % 4 == 0:
            # a long failure run, one success, then a failure / two successes (the shapes the property's sentences are about)
            ops = [rng.pick([("sub", "1", "2"), ("svc", "spawn-error"), ("svc", "1")]) for _ in range(rng.pick([19, 20, 21, 25]))] + \
                  [("sub", "1", "1")] + rng.pick([[("svc", "spawn-error")], [("sub", "1", "1")], [("sub", "1", "2"), ("sub", "1", "1"), ("sub", "1", "1")]]) + ops[:10]
        sessions.append(ops)
    lines, mlines = [], []
    for ops in sessions:
        lines.append("mon new"); mlines.append("health new")
        for o in ops:
            if o[0] == "sub":
                # empty summaries and non-empty ones
                nc, nf = rng.pick([(0, 0), (0, 0), (1, 1), (3, 0), (0, 2)])
                lines.append("mon substatus %s %s %d %d" % (o[1] or "-", o[2] or "-", nc, nf))
                mlines.append("health obs %d" % (1 if (o[1] or "-") == (o[2] or "-") else 0))
            else:
                lines.append("mon service " + o[1]); mlines.append("health obs 0")
    rc, so, se = vlib.run_harness(binp, "health", "\n".join(lines) + "\n", env={"VERIF_SCRATCH": sd})
    shutil.rmtree(sd, ignore_errors=True)
    if rc != 0:
        chk.broken.append({"kind": "harness", "name": "health engine (monitor functions)", "why": se[-600:]})
        return
    impl = so.split("\n")[:-1]
    model = vlib.run_driver(mlines) if dok else None
    pos = 0
    for ops in sessions:
        n = len(ops) + 1
        io = impl[pos:pos + n]
        ml = mlines[pos:pos + n]
        states = [x.split(" ")[0] for x in io]
        chk.case(nontrivial_key=("monitor", tuple(states[-12:]), len(ops)))
        chk.count("monitor_function_sessions")
        chk.count("monitor_function_observations", len(ops))
        if "error" in states:
            chk.count("monitor_sessions_reaching_error")
        # the property's sentences on what was published
        oracle_health(chk, ml, states)
        for ln, x in zip(lines[pos:pos + n], io):
            if ln.startswith("mon service"):
                t = x.split(" ")
                if len(t) != 2 or t[0] != t[1]:
                    chk.violation("the status written for the platform is not the automaton's verdict for that observation",
                                  {"op": ln, "in_memory": t[0], "written_to_the_status_file": t[1:] and t[1]})
        if model is not None:
            mo = model[pos:pos + n]
            for i in range(n):
                if mo[i] != states[i]:
                    chk.disagreement("monitor-functions", {"ops": lines[pos:pos + i + 1][-40:], "index": i}, mo[i], io[i])
                    break
        pos += n


def run(chk):
    rng = vlib.Rng(chk.seed)
    chk.prove()
    dok = chk.driver()
    ok, binp, out = vlib.build_harness("ext")
    if not ok:
        chk.broken.append({"kind": "harness", "name": "ext harness build", "why": out[-1500:]})
        return
    note_max = chk.facts.get("stateNoteMax", SPEC_REP)
    sessions = gen_ops(chk, rng)
    nsessions = gen_notes(chk, rng, note_max)
    lines = [l for s in sessions for l in s]
    nlines = [l for s in nsessions for l in s]
    # implementation
    # the two streams the monitor loop feeds are sent under the key constants the code itself uses (a collision of the two
    # constants merges the streams); any other key goes in as text
    real = {vlib.hx("ReadProxyAgentStatusFile"): "status", vlib.hx("FileVersion"): "version"}

    def impl_line(l):
        t = l.split(" ")
        if l.startswith("svc note") and t[2] in real:
            return f"svc stream {real[t[2]]} {t[3]} {note_max}"
        return l + f" {note_max}" if l.startswith("svc note") else l
    impl_in = "\n".join(lines + [impl_line(l) for l in nlines]) + "\n"
    rc, so, se = vlib.run_harness(binp, "health", impl_in)
    if rc != 0:
        chk.broken.append({"kind": "harness", "name": "health engine", "why": se[-800:]})
        return
    impl = so.split("\n")[:-1]
    model = vlib.run_driver(lines + nlines) if dok else None
    # split back into sessions
    pos = 0
    errors_reached = 0
    for s in sessions + nsessions:
        io = impl[pos:pos + len(s)]
        chk.case(nontrivial_key=None)
        is_health = s[0] == "health new"
        if is_health:
            if "error" in io:
                errors_reached += 1
                chk.nontrivial.add(("h", tuple(s[-40:]), len(s)))
            oracle_health(chk, s, io)
        else:
            if io.count("true") > 1:
                chk.nontrivial.add(("n", len(s), io.count("true")))
            oracle_notes(chk, s, io)
        if model is not None:
            mo = model[pos:pos + len(s)]
            if mo != io:
                i = next(i for i in range(len(s)) if mo[i] != io[i])
                chk.disagreement("health" if is_health else "notes", {"ops": s[: i + 1][-60:], "index": i}, mo[i], io[i])
        pos += len(s)
    monitor_functions(chk, rng, binp, dok)
    chk.count("sessions_reaching_error", errors_reached)
    chk.count("ops_total", len(lines) + len(nlines))
    if errors_reached == 0:
        chk.broken.append({"kind": "gate", "name": "generator sanity", "why": "no session reached Error"})
    chk.sample({"session": sessions[5], "impl": impl[sum(len(s) for s in sessions[:5]):][:len(sessions[5])]})
    chk.sample({"session_tail": nsessions[0][-5:], "n": len(nsessions[0])})
    chk.coverage["rule"] = ("all observation sequences up to length %d exhaustively, failure runs of chosen lengths "
                            "(incl. 19/20/21 and around/above the 10000 saturation point) x short suffixes, random "
                            "failure-biased sequences, notification histories over 3 keys; non-trivial = session in "
                            "which the implementation reported Error / emitted more than once" % (10 if chk.tier == "quick" else 14))
    chk.assumptions += ["StatusState/ServiceState are only driven through update_state / update_service_state_entry",
                        "MAX_STATE_COUNT reaches update_service_state_entry only at the anchored call site"]
