"""C06 kernel hook redirects exactly the protected connects, records the true caller."""
import os
import re
import shutil
import subprocess
import vlib

TCP = 6
UDP = 17
AGENT_PID = 777
LOCAL_PORT = 3080
SIM = os.path.join(vlib.CACHE, "ebpf_sim", "ebpf_sim")


def build_sim():
    p = subprocess.run([os.path.join(vlib.VERIF, "ebpf_sim", "build.sh"), os.path.join(vlib.CACHE, "ebpf_sim")],
                       stdout=subprocess.PIPE, stderr=subprocess.STDOUT, text=True, env=dict(os.environ, VERIF_REPO=vlib.REPO))
    return p.returncode == 0 and os.path.exists(SIM), p.stdout


def bswap16(p):
    return ((p & 0xff) << 8) | (p >> 8)


def netip(a, b, c, d):
    return a | (b << 8) | (c << 16) | (d << 24)


def leaked_attempts(chk, binp, sd, pol_keys, pol_val, skip_word, ws_ip, ws_port, local_ip):
    """connects that pass the first hook and never reach the second (the socket call fails in between) leave their hand-over entry
    behind; hundreds of them, more than the hand-over map holds, must not stop later connects from being recorded (the map evicts)"""
    lines = [f"policy {k} {pol_val}" for k in pol_keys] + [f"skip {skip_word}"]
    for i in range(260):
        pid = 1000 + i
        lines.append(f"c4 {(pid << 32) | pid} {(100 << 32) | 1000} {ws_ip} {bswap16(ws_port)} {TCP}")
    pid, uid, gid, lport = 5000, 33, 7, 40123
    lines.append(f"c4 {(pid << 32) | pid} {(gid << 32) | uid} {ws_ip} {bswap16(ws_port)} {TCP}")
    proc = subprocess.Popen([SIM], stdin=subprocess.PIPE, stdout=subprocess.PIPE, text=True, bufsize=1)
    out = []
    for l in lines:
        proc.stdin.write(l + "\n"); proc.stdin.flush()
        out.append(proc.stdout.readline().strip())
    _, v, nip, nport = out[-1].split(" ")
    proc.stdin.write(f"tc {(pid << 32) | pid} {(gid << 32) | uid} 2 {nip} {nport} {lport}\n"); proc.stdin.flush()
    proc.stdout.readline()
    tc_line = f"tc {(pid << 32) | pid} {(gid << 32) | uid} 2 {nip} {nport} {lport}"
    proc.stdin.write("dump\n"); proc.stdin.flush()
    dump = proc.stdout.readline().strip()
    proc.stdin.close(); proc.wait()
    # the model with the maps' declared kinds and capacities (eviction included) against the C program on the same schedule
    mo = vlib.run_driver(["ebpf new"] + ["ebpf " + l for l in lines + [tc_line, "dump"]])
    if mo[1:len(lines) + 1] != out or mo[-1] != dump:
        i = next((i for i in range(len(lines)) if mo[1 + i] != out[i]), None)
        chk.disagreement("ebpf-sim-leaks", {"schedule": "260 leaked hand-over entries then one complete connect", "first_difference_at_op": i},
                         (mo[1 + i] if i is not None else mo[-1][:300]), (out[i] if i is not None else dump[:300]))
    chk.case(nontrivial_key=("leaked-attempts", 260))
    chk.count("leaked_attempt_schedules")
    ent = None
    for e in dump.split(" | ")[0].split(" ")[1:]:
        k, val = e.strip("[]").split("->")
        if k == f"{TCP},{lport}":
            ent = val
    desc = {"schedule": "260 connects to WireServer fail between the two hooks, then one connect by uid 33 / gid 7 / pid 5000 completes",
            "redirected_to": [int(nip), int(nport)]}
    redirected = (int(nip), int(nport)) == (local_ip, bswap16(LOCAL_PORT))
    if not redirected:
        chk.violation("connect redirected iff (destination protected and caller not the agent) does not hold", desc, expected=True, observed=False)
    elif ent is None:
        chk.violation("a redirected connect was left without an audit record after many connects had failed between the hooks", desc,
                      expected="a record for (TCP, %d)" % lport, observed=dump.split(" | ")[0][:200])
    else:
        rc, so, se = vlib.run_harness(binp, "ebpf", "dec " + " ".join(ent.split(",")) + "\n", env={"VERIF_OUT": sd + "/o2.txt"}, cwd=sd)
        dec = open(sd + "/o2.txt").read().strip()
        a, b, c, d = [(ws_ip >> s_) & 0xff for s_ in (0, 8, 16, 24)]
        want = "%d %d %d %d.%d.%d.%d %d" % (uid, pid, 0, a, b, c, d, ws_port)
        if dec != want:
            chk.violation("audit record does not state the true caller / original destination", desc, expected=want, observed=dec)


def attach_point(chk, binp, sd, rng):
    """where the connect hook is attached: the real cgroup2 mount lookup run against stand-in `findmnt` programs (several mounts,
    bind mounts of sub-directories listed after the boot-time mount, no mount, failing / garbled output, no findmnt at all)"""
    import json
    names = ["/sys/fs/cgroup", "/sys/fs/cgroup/unified", "/run/containers/c1/cgroup", "/var/lib/kubelet/pods/p/cgroup", "/mnt/cg 2",
             "/sys/fs/cgroup/system.slice/x.service"]
    cases = []
    for k in range(0, 5):
        for _ in range(3 if k else 1):
            ms = [names[0] if rng.chance(1, 2) else names[1]] + [rng.pick(names[2:]) for _ in range(max(0, k - 1))] if k else []
            cases.append(("listed", ms, 0))
    cases += [("listed", [names[2], names[0]], 0), ("listed", [names[0], names[5], names[2]], 0)]
    cases += [("failed", [names[0]], 1), ("failed", [names[0], names[2]], 32), ("garbled", [], 0), ("absent", [], 0), ("empty-output", [], 1)]
    lines, model = [], []
    for i, (kind, ms, rc) in enumerate(cases):
        bindir = os.path.join(sd, "fm%d" % i)
        os.makedirs(bindir, exist_ok=True)
        doc = json.dumps({"filesystems": [{"target": t, "source": "cgroup2", "fstype": "cgroup2", "options": "rw,nosuid,nodev,noexec,relatime"}
                                          for t in ms]}, indent=3)
        if kind != "absent":
            body = {"listed": doc, "failed": doc, "garbled": '{"filesystems": [ {"target": ', "empty-output": ""}[kind]
            open(os.path.join(bindir, "out.json"), "w").write(body)
            open(os.path.join(bindir, "findmnt"), "w").write("#!/bin/sh\n/bin/cat %s/out.json\nexit %d\n" % (bindir, rc))
            os.chmod(os.path.join(bindir, "findmnt"), 0o755)
        lines.append("cgmount " + bindir)
        model.append("attach listed " + " ".join(t.encode().hex() for t in ms) if kind == "listed" else "attach failed")
    rc_, so, se = vlib.run_harness(binp, "ebpf", "\n".join(lines) + "\n", env={"VERIF_OUT": sd + "/o3.txt"}, cwd=sd)
    got = open(sd + "/o3.txt").read().split("\n")[:-1]
    want = vlib.run_driver([m.strip() for m in model])
    for (kind, ms, rc), g, w in zip(cases, got, want):
        chk.case(nontrivial_key=("attach", kind, len(ms), tuple(ms[:1])))
        chk.count("attach_lookups")
        desc = {"findmnt": kind, "exit": rc, "mounts_listed": ms}
        if g != w:
            chk.disagreement("attach", desc, w, g)
        if kind == "listed" and len(ms) > 1 and ms[0] in names[:2] and all(t not in names[:2] for t in ms[1:]):
            chk.count("attach_root_listed_first")
            # the boot-time mount of the whole hierarchy is listed first, mounts of sub-directories after it: a hook attached
            # anywhere else never runs for a process outside that sub-directory
            if g != "ok " + ms[0].encode().hex():
                chk.violation("the connect hook is attached below the root of the cgroup hierarchy: connects by processes outside that "
                              "cgroup are neither redirected nor recorded", desc, expected=ms[0],
                              observed=(bytes.fromhex(g[3:]).decode() if g.startswith("ok ") else g))
    if len(got) != len(cases):
        chk.broken.append({"kind": "harness", "name": "attach lookups", "why": "%d answers for %d lookups: %s" % (len(got), len(cases), se[-300:])})


HELPER = r"""
import os, socket, sys, threading
def one(spec):
    ip, port, proto = spec.split(":")
    s = socket.socket(socket.AF_INET, socket.SOCK_STREAM if proto == "tcp" else socket.SOCK_DGRAM)
    s.settimeout(2.0)
    try:
        s.connect((ip, int(port)))
        if proto == "tcp":
            tag = s.recv(1).decode() or "?"
        else:
            tag = "u:%s:%d" % s.getpeername()
    except OSError as e:
        tag = "E%d" % (e.errno or 0)
    s.close()
    return tag
for line in sys.stdin:
    t = line.split()
    if not t:
        continue
    if t[0] == "B":
        # n short-lived processes, all on ONE cpu, each making one connect: prints their pids
        n, spec = int(t[1]), t[2]
        try:
            os.sched_setaffinity(0, {sorted(os.sched_getaffinity(0))[0]})
        except OSError:
            pass
        pids = []
        for _ in range(n):
            pid = os.fork()
            if pid == 0:
                one(spec)
                os._exit(0)
            os.waitpid(pid, 0)
            pids.append(pid)
        sys.stdout.write(" ".join(map(str, pids)) + "\n"); sys.stdout.flush()
        continue
    uid, gid, specs = int(t[0]), int(t[1]), t[2:]
    r, w = os.pipe()
    pid = os.fork()
    if pid == 0:
        os.close(r)
        os.setgroups([]); os.setresgid(gid, gid, gid); os.setresuid(uid, uid, uid)
        tags = [one(sp) for sp in specs]
        os.write(w, (" ".join([str(os.getpid())] + tags) + "\n").encode())
        os._exit(0)
    os.close(w)
    out = os.read(r, 4096).decode()
    os.close(r)
    os.waitpid(pid, 0)
    sys.stdout.write(out); sys.stdout.flush()
"""


def redirect_switch_under_lookups(chk, binp, sd, prop_text="a protected destination's redirect policy in the kernel differs from what the agent was last asked to set"):
    """the running kernel again: the three redirect policies are switched on and off through the agent's own update_*_redirect_policy
    (shared redirector state; the loaded object behind its mutex) while proxy connections look callers up in the audit map through the
    same mutex. After every switch the kernel's policy map must say what was asked for: a switch that is dropped because the object
    is busy leaves a protected destination unredirected (or redirected after the channel was disabled)"""
    import socket
    obj = os.path.join(sd, "ebpf_cgroup.sw.o")
    cc = subprocess.run(["clang", "-target", "bpf", "-O2", "-g", "-Wno-everything", "-D__TARGET_ARCH_x86", "-I", os.path.join(vlib.VERIF, "ebpf_sim", "bpfinc"),
                         "-I/usr/include/x86_64-linux-gnu", "-c", os.path.join(vlib.REPO, "linux-ebpf", "ebpf_cgroup.c"), "-o", obj],
                        stdout=subprocess.PIPE, stderr=subprocess.STDOUT, text=True)
    if cc.returncode != 0:
        chk.notes.append("redirect-switch stage skipped: the program does not compile for the bpf target here")
        return
    r, w = os.pipe()
    eng = subprocess.Popen([binp], stdin=subprocess.PIPE, stdout=subprocess.DEVNULL, stderr=subprocess.DEVNULL, pass_fds=(w,), cwd=sd,
                           env=dict(os.environ, VERIF_ENGINE="kernel", VERIF_OUT="/dev/fd/%d" % w))
    os.close(w)
    eout = os.fdopen(r)
    try:
        def ctl(line):
            eng.stdin.write((line + "\n").encode()); eng.stdin.flush()
            return eout.readline().strip()
        ld = ctl("load " + vlib.hx(obj))
        if ld != "ok":
            chk.notes.append("redirect-switch stage skipped: the object does not load here")
            return
        rounds = 90 if chk.tier == "quick" else 1500
        got = ctl("contend 3080 %d 3" % rounds)
        mm = re.match(r"lookups=(\d+) wrong=(\S+)$", got)
        if not mm:
            chk.disagreement("kernel", {"step": "redirect switches under lookups"}, "a report", got[:200])
            return
        chk.case(nontrivial_key=("kernel-switch", int(mm.group(1)) > rounds, mm.group(2) == "-"))
        chk.count("kernel_redirect_switches_under_lookups", rounds)
        chk.count("kernel_audit_lookups_during_switches", int(mm.group(1)))
        if mm.group(2) != "-":
            chk.violation(prop_text,
                          {"schedule": "%d policy switches (wireserver, imds, hostga in turn; on, off alternating) through update_*_redirect_policy "
                                       "while 3 tasks call redirector::lookup_audit on the same loaded object" % rounds,
                           "switches_not_in_the_kernel_map (round:destination:asked)": mm.group(2).split(",")},
                          expected="policy_map entry present exactly when the last switch said on", observed="differs")
    finally:
        try:
            eng.stdin.close()
        except OSError:
            pass
        try:
            eng.wait(5)
        except Exception:
            eng.kill()
        eout.close()


def agent_attach_sequence(chk, binp, sd, lport_hint=0):
    """the agent's own attach step in the running kernel - Redirector::attach_bpf_prog with both programs, in the order of the source,
    at the cgroup2 mount it finds itself (a stand-in findmnt names a test cgroup): once connects of a process in that cgroup are
    redirected, the program that records the caller must be attached too. Where the kernel cannot attach it (no kprobes here), a
    failed attach step must not leave connects redirected (nothing could ever be recorded for them)"""
    import socket
    import sys
    import threading
    import json
    obj = os.path.join(sd, "ebpf_cgroup.att.o")
    cc = subprocess.run(["clang", "-target", "bpf", "-O2", "-g", "-Wno-everything", "-D__TARGET_ARCH_x86", "-I", os.path.join(vlib.VERIF, "ebpf_sim", "bpfinc"),
                         "-I/usr/include/x86_64-linux-gnu", "-c", os.path.join(vlib.REPO, "linux-ebpf", "ebpf_cgroup.c"), "-o", obj],
                        stdout=subprocess.PIPE, stderr=subprocess.STDOUT, text=True)
    if cc.returncode != 0:
        chk.notes.append("agent-attach stage skipped: the program does not compile for the bpf target here")
        return
    fm = subprocess.run(["findmnt", "-t", "cgroup2", "-n", "-o", "TARGET"], stdout=subprocess.PIPE, text=True).stdout.split("\n")[0].strip()
    if not fm:
        chk.notes.append("agent-attach stage skipped: no cgroup2 mount")
        return
    cg = os.path.join(fm, "verif-c06a-%d" % os.getpid())
    try:
        os.mkdir(cg)
    except OSError as e:
        chk.notes.append("agent-attach stage skipped: cannot create a cgroup (%s)" % e)
        return
    bindir = os.path.join(sd, "fmatt")
    os.makedirs(bindir, exist_ok=True)
    doc = json.dumps({"filesystems": [{"target": cg, "source": "cgroup2", "fstype": "cgroup2", "options": "rw"}]})
    open(os.path.join(bindir, "out.json"), "w").write(doc)
    open(os.path.join(bindir, "findmnt"), "w").write("#!/bin/sh\n/bin/cat %s/out.json\nexit 0\n" % bindir)
    os.chmod(os.path.join(bindir, "findmnt"), 0o755)
    stop, eng, helper = [], None, None
    name, ip, port = "wireserver", netip(168, 63, 129, 16), 80
    a = "168.63.129.16"
    try:
        lp = socket.socket(); lp.bind(("127.0.0.1", 0)); lp.listen(16)
        lport = lp.getsockname()[1]
        subprocess.run(["ip", "addr", "add", a + "/32", "dev", "lo"], stderr=subprocess.DEVNULL)
        h = socket.socket(); h.setsockopt(socket.SOL_SOCKET, socket.SO_REUSEADDR, 1)
        try:
            h.bind((a, port)); h.listen(16)
        except OSError as e:
            chk.notes.append("agent-attach stage skipped: cannot listen on the protected address (%s)" % e)
            return

        def serve(sock, tag):
            sock.settimeout(0.3)
            while not stop:
                try:
                    c, _ = sock.accept()
                except OSError:
                    continue
                try:
                    c.sendall(tag)
                finally:
                    c.close()
        for sock, tag in ((lp, b"P"), (h, b"H")):
            threading.Thread(target=serve, args=(sock, tag), daemon=True).start()
        r, w = os.pipe()
        eng = subprocess.Popen([binp], stdin=subprocess.PIPE, stdout=subprocess.DEVNULL, stderr=subprocess.DEVNULL, pass_fds=(w,), cwd=sd,
                               env=dict(os.environ, VERIF_ENGINE="kernel", VERIF_OUT="/dev/fd/%d" % w))
        os.close(w)
        eout = os.fdopen(r)

        def ctl(line):
            eng.stdin.write((line + "\n").encode()); eng.stdin.flush()
            return eout.readline().strip()
        if ctl("load " + vlib.hx(obj)) != "ok":
            chk.notes.append("agent-attach stage skipped: the object does not load here")
            return
        att = ctl("attachagent %s %d" % (vlib.hx(bindir), lport))
        ctl("policy %d %d %d" % (ip, port, lport))
        open(os.path.join(sd, "helper_att.py"), "w").write(HELPER)
        helper = subprocess.Popen([sys.executable, os.path.join(sd, "helper_att.py")], stdin=subprocess.PIPE, stdout=subprocess.PIPE, text=True, bufsize=1)
        open(os.path.join(cg, "cgroup.procs"), "w").write(str(helper.pid))
        tags = []
        for uid in (1000, 0, 33):
            helper.stdin.write("%d %d %s:%d:tcp\n" % (uid, uid, a, port)); helper.stdin.flush()
            ans = helper.stdout.readline().split()
            tags.append(ans[1] if len(ans) > 1 else "?")
        why = vlib.unhx(att[4:]).decode("utf-8", "replace")[-160:] if att.startswith("err ") else ""
        chk.case(nontrivial_key=("agent-attach", att.split(" ")[0], tuple(tags)))
        chk.count("kernel_agent_attach_" + att.split(" ")[0])
        d = {"kernel": "running kernel; Redirector::attach_bpf_prog at a test cgroup", "attach_step": att.split(" ")[0], "error": why,
             "connects_to_168.63.129.16:80_landed_at": tags}
        if att != "ok" and "P" in tags:
            chk.violation("a connect was redirected to the proxy although no caller record can be produced for it", d,
                          expected="not redirected after a failed attach step (or both programs attached)", observed=tags)
        elif att == "ok" and any(t != "P" for t in tags):
            chk.violation("connect redirected iff (destination protected and caller not the agent) does not hold", d, expected="P", observed=tags)
    finally:
        stop.append(1)
        for p_ in (helper, eng):
            if p_ is not None:
                try:
                    p_.stdin.close()
                    p_.wait(timeout=3)
                except Exception:
                    p_.kill()
        try:
            os.rmdir(cg)
        except OSError:
            pass


def kernel_stage(chk, binp, sd, rng, protected, local_ip):
    """the program built from the unmodified ebpf_cgroup.c for the bpf target is loaded into the RUNNING kernel by the agent's own loader
    (both programs pass the verifier), cgroup/connect4 is attached to a test cgroup, and real processes in that cgroup connect:
    where they land, and what the hand-over map then holds, is compared with the model; the policy and skip maps are kept through
    the agent's own BpfObject methods and read back from the kernel. (This kernel has no kprobes: the tcp_connect half is load-only.)"""
    import socket
    import sys
    import threading
    import time
    obj = os.path.join(sd, "ebpf_cgroup.bpf.o")
    cc = subprocess.run(["clang", "-target", "bpf", "-O2", "-g", "-Wno-everything", "-D__TARGET_ARCH_x86", "-I", os.path.join(vlib.VERIF, "ebpf_sim", "bpfinc"),
                         "-I/usr/include/x86_64-linux-gnu", "-c", os.path.join(vlib.REPO, "linux-ebpf", "ebpf_cgroup.c"), "-o", obj],
                        stdout=subprocess.PIPE, stderr=subprocess.STDOUT, text=True)
    if cc.returncode != 0:
        if "unknown target" in cc.stdout or "No available targets" in cc.stdout:
            chk.notes.append("kernel stage skipped: clang has no bpf target")
            return
        chk.disagreement("kernel", {"step": "clang -target bpf"}, "the program compiles for the bpf target", cc.stdout[-600:])
        return
    fm = subprocess.run(["findmnt", "-t", "cgroup2", "-n", "-o", "TARGET"], stdout=subprocess.PIPE, text=True).stdout.split("\n")[0].strip()
    if not fm:
        chk.notes.append("kernel stage skipped: no cgroup2 mount")
        return
    import glob
    for old in glob.glob(os.path.join(fm, "verif-c06-*")):
        try:
            os.rmdir(old)            # left behind by a run that was killed (only possible once it is empty)
        except OSError:
            pass
    cg = os.path.join(fm, "verif-c06-%d" % os.getpid())
    try:
        os.mkdir(cg)
    except OSError as e:
        chk.notes.append("kernel stage skipped: cannot create a cgroup (%s)" % e)
        return
    lsocks, stop = [], []
    eng = None
    helper = None
    try:
        # listeners: the proxy's stand-in ("P") and the real addresses ("H") on this namespace's loopback
        lp = socket.socket(); lp.bind(("127.0.0.1", 0)); lp.listen(64)
        lport = lp.getsockname()[1]
        lsocks.append((lp, b"P"))
        for name, ip, port in protected + [("plain", netip(10, 0, 0, 4), 443)]:
            a = "%d.%d.%d.%d" % tuple((ip >> s_) & 0xff for s_ in (0, 8, 16, 24))
            subprocess.run(["ip", "addr", "add", a + "/32", "dev", "lo"], stderr=subprocess.DEVNULL)
            h = socket.socket(); h.setsockopt(socket.SOL_SOCKET, socket.SO_REUSEADDR, 1)
            try:
                h.bind((a, port)); h.listen(64)
                lsocks.append((h, b"H"))
            except OSError:
                pass

        def serve(sock, tag):
            sock.settimeout(0.3)
            while not stop:
                try:
                    c, _ = sock.accept()
                except OSError:
                    continue
                try:
                    c.sendall(tag)
                finally:
                    c.close()
        for sock, tag in lsocks:
            threading.Thread(target=serve, args=(sock, tag), daemon=True).start()
        r, w = os.pipe()
        eng = subprocess.Popen([binp], stdin=subprocess.PIPE, stdout=subprocess.DEVNULL, stderr=subprocess.DEVNULL, pass_fds=(w,), cwd=sd,
                               env=dict(os.environ, VERIF_ENGINE="kernel", VERIF_OUT="/dev/fd/%d" % w))
        os.close(w)
        eout = os.fdopen(r)

        def ctl(line):
            eng.stdin.write((line + "\n").encode()); eng.stdin.flush()
            return eout.readline().strip()
        ld = ctl("load " + vlib.hx(obj))
        if ld != "ok":
            why = vlib.unhx(ld[4:]).decode("utf-8", "replace") if ld.startswith("err ") else ld
            if "Operation not permitted" in why or "EPERM" in why or "Permission denied" in why:
                chk.notes.append("kernel stage skipped: bpf() not permitted here")
                return
            chk.disagreement("kernel", {"step": "load"}, "the object loads", why[-600:])
            return
        kp = ctl("kprobe")
        chk.count("kernel_kprobe_" + kp.split(" ")[0].replace("-", "_"))
        if kp.startswith("err"):
            chk.disagreement("kernel", {"step": "tcp_connect program"}, "the verifier accepts the program", vlib.unhx(kp[4:]).decode("utf-8", "replace")[-800:])
        at = ctl("attach " + vlib.hx(cg))
        if at != "ok":
            why = vlib.unhx(at[4:]).decode("utf-8", "replace")
            if "verifier" in why.lower() or "load" in why.lower():
                chk.disagreement("kernel", {"step": "connect4 program"}, "the verifier accepts the program", why[-800:])
            else:
                chk.notes.append("kernel stage skipped: cannot attach to a cgroup here (%s)" % why[-200:])
            return
        chk.count("kernel_programs_loaded")
        # ---- the user-space half on the real maps: the agent's own methods, over a history of policy changes
        model = ["ebpf new"]
        lval = None
        for step in range(14 if chk.tier == "quick" else 200):
            name, ip, port = rng.pick(protected)
            if step < 3:
                name, ip, port = protected[step]
                ctl("policy %d %d %d" % (ip, port, lport)); on = True
            else:
                on = rng.chance(1, 2)
                ctl("redirect %d %d %d %d" % (ip, port, lport, 1 if on else 0))
            key = " ".join(str(x) for x in (ip, 0, 0, 0, bswap16(port), TCP))
            val = " ".join(str(x) for x in (local_ip, 0, 0, 0, bswap16(lport), TCP))
            model.append(("ebpf policy %s %s" % (key, val)) if on else ("ebpf unpolicy " + key))
            if step % 3 == 2 or step > 10:
                model.append("ebpf pdump")
                got = ctl("dump").split(" | ")
                model.append(("CMP", got[0] + " | " + got[1], "policy history step %d (%s %s)" % (step, name, "on" if on else "off")))
        helper_pid_line = None
        # ---- real connects from processes inside the cgroup
        open(os.path.join(sd, "helper.py"), "w").write(HELPER)
        helper = subprocess.Popen([sys.executable, os.path.join(sd, "helper.py")], stdin=subprocess.PIPE, stdout=subprocess.PIPE, text=True, bufsize=1)
        open(os.path.join(cg, "cgroup.procs"), "w").write(str(helper.pid))
        for name, ip, port in protected:      # everything protected again
            ctl("redirect %d %d %d 1" % (ip, port, lport))
            model.append("ebpf policy %s %s" % (" ".join(str(x) for x in (ip, 0, 0, 0, bswap16(port), TCP)), " ".join(str(x) for x in (local_ip, 0, 0, 0, bswap16(lport), TCP))))
        dq = lambda ip: "%d.%d.%d.%d" % tuple((ip >> s_) & 0xff for s_ in (0, 8, 16, 24))
        plain = (netip(10, 0, 0, 4), 443)
        runs = []
        for k in range(10 if chk.tier == "quick" else 120):
            uid = rng.pick([0, 1000, 1001, 33, 65534]); gid = rng.pick([0, 100, 27, 65534, 1000])
            n = rng.rand_range(1, 4)
            specs = []
            for _ in range(n):
                kind = rng.pick(["prot", "prot", "plain", "udp", "otherport"])
                name, ip, port = rng.pick(protected)
                if kind == "prot":
                    specs.append((ip, port, "tcp", True))
                elif kind == "plain":
                    specs.append((plain[0], plain[1], "tcp", False))
                elif kind == "udp":
                    specs.append((ip, port, "udp", False))
                else:
                    specs.append((ip, port + 1, "tcp", False))
            runs.append((uid, gid, specs))
        # one process that is in the agent's process list
        for (uid, gid, specs) in runs:
            helper.stdin.write("%d %d %s\n" % (uid, gid, " ".join("%s:%d:%s" % (dq(ip), port, proto) for ip, port, proto, _ in specs))); helper.stdin.flush()
            ans = helper.stdout.readline().split()
            if not ans:
                chk.broken.append({"kind": "harness", "name": "kernel stage helper", "why": "no answer"})
                return
            pid, tags = int(ans[0]), ans[1:]
            pt = (pid << 32) | pid
            for (ip, port, proto, prot), tag in zip(specs, tags):
                chk.case(nontrivial_key=("kernel-connect", uid, gid, prot, proto, tag))
                chk.count("kernel_connects")
                d = {"kernel": "running kernel, real connect() by pid %d uid %d gid %d" % (pid, uid, gid), "destination": "%s:%d/%s" % (dq(ip), port, proto), "landed": tag}
                landed_proxy = tag == "P"
                if landed_proxy != prot:
                    chk.violation("connect redirected iff (destination protected and caller not the agent) does not hold", d, expected=prot, observed=landed_proxy)
                model.append("ebpf c4 %d %d %d %d %d" % (pt, (gid << 32) | uid, ip, bswap16(port), TCP if proto == "tcp" else UDP))
            # what the hand-over map holds for that thread now (tcp_connect never runs in this kernel, so the last word stays)
            model.append("ebpf ldump")
            got = ctl("dump").split(" | ")[3]
            mine = " ".join(e for e in got.split(" ")[1:] if e.startswith("[%d,%d->" % (pid, pid)))
            model.append(("CMPL", mine, pt, "hand-over entry of pid %d after %s" % (pid, [(dq(i), p, pr) for i, p, pr, _ in specs]), uid, gid, specs))
        # a burst of 60 processes on one CPU, each with one connect to a protected address: the hand-over map (200 entries) holds
        # an entry for every one of them (nothing consumes them in this kernel) - capacity is per map, not per CPU
        name, ip, port = protected[0]
        helper.stdin.write("B 60 %s:%d:tcp\n" % (dq(ip), port)); helper.stdin.flush()
        bpids = [int(x) for x in helper.stdout.readline().split()]
        got = ctl("dump").split(" | ")[3]
        have = set(int(e.split(",")[0][1:]) for e in got.split(" ")[1:] if e.startswith("["))
        missing = [p_ for p_ in bpids if p_ not in have]
        chk.case(nontrivial_key=("kernel-burst-one-cpu", len(bpids), len(missing)))
        chk.count("kernel_burst_connects", len(bpids))
        if len(bpids) == 60 and missing:
            chk.violation("audit record does not state the true caller / original destination",
                          {"kernel": "running kernel; 60 processes on one CPU, one protected connect each, nothing consumed in between",
                           "pending_entries_expected": 60, "pending_entries_missing": len(missing)},
                          expected="an entry for each of the 60 (the map holds 200)", observed="%d missing" % len(missing))
        outs = iter(vlib.run_driver([m for m in model if isinstance(m, str)]))
        last = None
        for m in model:
            if isinstance(m, str):
                last = next(outs)
                continue
            if m[0] == "CMP":
                chk.case(nontrivial_key=("kernel-policy", m[2]))
                chk.count("kernel_policy_dumps")
                if last != m[1]:
                    chk.disagreement("kernel-maps", {"after": m[2]}, last, m[1])
                    chk.violation("the redirect policy in the kernel map is not the one the agent was told to apply", {"after": m[2]}, expected=last, observed=m[1])
            else:
                _, mine, pt, what, uid, gid, specs = m
                want = " ".join(e for e in last.split(" ")[1:] if e.startswith("[%d,%d->" % (pt & 0xffffffff, pt >> 32)))
                chk.count("kernel_handover_entries_compared")
                if want != mine:
                    chk.disagreement("kernel-handover", {"what": what, "uid": uid, "gid": gid}, want, mine)
                    if mine and not want:
                        chk.violation("a record was produced for a connect that must be left untouched", {"what": what, "pending_entry_in_the_kernel_map": mine})
                    elif mine and want and mine.split("->")[1].split(",")[0] != str(uid):
                        chk.violation("audit record does not state the true caller / original destination", {"what": what, "uid": uid, "gid": gid}, expected=want, observed=mine)
    finally:
        stop.append(1)
        for p_ in (helper, eng):
            if p_ is not None:
                try:
                    p_.stdin.close()
                    p_.wait(timeout=3)
                except Exception:
                    p_.kill()
        for sock, _ in lsocks:
            sock.close()
        for _ in range(50):
            try:
                os.rmdir(cg)
                break
            except OSError:
                time.sleep(0.1)


def run(chk):
    import e2e
    if not e2e.in_netns():
        e2e.reexec_in_netns()
    e2e.setup_net()
    rng = vlib.Rng(chk.seed)
    chk.prove()
    if not chk.driver():
        return
    ok, out = build_sim()
    if not ok:
        chk.broken.append({"kind": "harness", "name": "ebpf_sim build (unmodified ebpf_cgroup.c in user space)", "why": out[-1500:]})
        return
    ok, binp, out = vlib.build_harness("agent")
    if not ok:
        chk.broken.append({"kind": "harness", "name": "agent harness build", "why": out[-1500:]})
        return
    sd = vlib.scratch_dir("c06")
    # ---- the arrays user space would write, from the REAL encoders
    rc, so, se = vlib.run_harness(binp, "ebpf", "consts\n", env={"VERIF_OUT": sd + "/o.txt"}, cwd=sd)
    consts = [int(x) for x in open(sd + "/o.txt").read().split()]
    ws_ip, ws_port, ga_ip, ga_port, imds_ip, imds_port, local_ip = consts
    protected = [("ws", ws_ip, ws_port), ("ga", ga_ip, ga_port), ("imds", imds_ip, imds_port)]
    enc_lines = [f"policy {ip} {port}" for _, ip, port in protected] + [f"policy {local_ip} {LOCAL_PORT}", f"skip {AGENT_PID}"]
    rc, so, se = vlib.run_harness(binp, "ebpf", "\n".join(enc_lines) + "\n", env={"VERIF_OUT": sd + "/o.txt"}, cwd=sd)
    enc = open(sd + "/o.txt").read().split("\n")[:-1]
    pol_keys = enc[:3]
    pol_val = enc[3]
    skip_word = enc[4]
    # ---- schedules
    nsched = 250 if chk.tier == "quick" else 20000
    sim_lines, meta = [], []
    dests = [(ip, port, TCP, True) for _, ip, port in protected] + [
        (ws_ip, 81, TCP, False), (netip(168, 63, 129, 17), 80, TCP, False), (ws_ip, 80, UDP, False), (imds_ip, 8080, TCP, False),
        (netip(10, 0, 0, 4), 443, TCP, False), (netip(127, 0, 0, 1), 3080, TCP, False), (ga_ip, 32527, TCP, False)]
    for sc in range(nsched):
        sim_lines.append("RESET"); meta.append(("reset",))
        active = rng.chance(9, 10)
        policy_on = [True, True, True] if active else [rng.chance(1, 2) for _ in range(3)]
        for i, k in enumerate(pol_keys):
            if policy_on[i]:
                sim_lines.append(f"policy {k} {pol_val}"); meta.append(("setup",))
        sim_lines.append(f"skip {skip_word}"); meta.append(("setup",))
        nthreads = rng.pick([1, 2, 3, 8, 20]) if sc % 10 else rng.pick([60, 150, 199])
        threads = []
        used_pt = set()
        pid_pool = [rng.rand_range(2, 60000) for _ in range(rng.pick([1, 2, 4]))]
        lport = 20000 + rng.below(1000)
        for i in range(nthreads):
            if i > 0 and rng.chance(1, 5):
                # the same thread connects again after its earlier attempt is over (completed, or failed between the two hooks):
                # one connect at a time per thread, but any number one after the other
                j = rng.below(i)
                if not any(t.get("after") == j for t in threads):
                    ip, port, proto, prot = rng.pick(dests)
                    lport += 1
                    threads.append(dict(threads[j], ip=ip, port=port, proto=proto, lport=lport, stage=0, after=j,
                                        protected=prot and policy_on[[p[1:] for p in protected].index((ip, port))] if prot else False))
                    chk.count("second_attempt_of_a_thread")
                    continue
            # a thread has at most one connect between the two hooks: attempts that may overlap never share (pid, tid)
            while True:
                # processes with several threads connecting at once (same pid, different tids) as well as single-threaded ones
                pid = AGENT_PID if rng.chance(1, 12) else (rng.pick(pid_pool) if rng.chance(1, 2) else rng.rand_range(2, 60000))
                tid = pid + rng.below(64)
                if ((pid << 32) | tid) not in used_pt:
                    used_pt.add((pid << 32) | tid)
                    break
            uid = rng.pick([0, 0, 1000, 1001, 33, 65534])
            gid = rng.pick([0, 0, 1000, 100, 27, 65534]) if rng.chance(3, 4) else uid
            ip, port, proto, prot = rng.pick(dests)
            lport += 1
            reuse_of = None
            if threads and rng.chance(1, 8):
                # the local source port of an earlier attempt of this schedule is used again (its connection is over, its record was
                # never removed by the agent - a refused or abandoned connect): the record under that port is the LATER caller's
                j = rng.below(len(threads))
                if threads[j]["proto"] == TCP and not any(t.get("reuse_of") == j for t in threads):
                    reuse_of = j
            threads.append({"pt": (pid << 32) | tid, "ug": (gid << 32) | uid, "pid": pid, "uid": uid, "gid": gid, "ip": ip, "port": port,
                            "proto": proto, "protected": prot and policy_on[[p[1:] for p in protected].index((ip, port))] if prot else False,
                            "lport": lport if reuse_of is None else threads[reuse_of]["lport"], "stage": 0})
            if reuse_of is not None:
                threads[-1]["reuse_of"] = reuse_of
                threads[-1]["after2"] = reuse_of
                chk.count("source_port_used_again")
        # interleave the two hook points of every attempt arbitrarily; a few attempts fail between the hooks
        pending = list(range(nthreads))
        while pending:
            i = rng.pick(pending)
            t = threads[i]
            if t.get("after") is not None and t["after"] in pending:
                continue                        # its thread is still busy with the earlier attempt
            if t.get("after2") is not None and t["after2"] in pending:
                continue                        # the earlier connection on this source port is not over yet
            if t["stage"] == 0:
                sim_lines.append(f"c4 {t['pt']} {t['ug']} {t['ip']} {bswap16(t['port'])} {t['proto']}")
                meta.append(("c4", sc, i))
                t["stage"] = 1
                if t["proto"] != TCP or rng.chance(1, 25):
                    pending.remove(i)          # UDP never reaches tcp_connect; some attempts fail in between
                    t["aborted"] = True
            else:
                # the kprobe sees the address the socket is really connecting to (after the rewrite)
                sim_lines.append("tc %d %d 2 %s %d %d" % (t["pt"], t["ug"], "{DADDR%d}" % len(meta), 0, t["lport"]))
                meta.append(("tc", sc, i))
                pending.remove(i)
            if rng.chance(1, 6):
                sim_lines.append("dump"); meta.append(("dump", sc))
        sim_lines.append("dump"); meta.append(("dump", sc, "final", [dict(t) for t in threads]))
    # the kprobe's daddr/dport depend on the c4 result: run the simulator interactively per schedule
    sim_out, model_in = [], []
    proc = None

    def start():
        return subprocess.Popen([SIM], stdin=subprocess.PIPE, stdout=subprocess.PIPE, text=True, bufsize=1)
    rewritten = {}
    for line, m in zip(sim_lines, meta):
        if line == "RESET":
            if proc:
                proc.stdin.close(); proc.wait()
            proc = start()
            sim_out.append("ok"); model_in.append("ebpf new")
            continue
        if m[0] == "tc":
            key = (m[1], m[2])
            ip, port = rewritten[key]
            line = line.replace("{DADDR%d}" % sim_lines.index(line) if False else line[line.index("{"):line.index("}") + 1], str(ip))
            parts = line.split(" ")
            parts[5] = str(port)
            line = " ".join(parts)
        proc.stdin.write(line + "\n"); proc.stdin.flush()
        o = proc.stdout.readline().strip()
        sim_out.append(o)
        model_in.append("ebpf " + line)
        if m[0] == "c4":
            _, v, nip, nport = o.split(" ")
            rewritten[(m[1], m[2])] = (int(nip), int(nport))
    if proc:
        proc.stdin.close(); proc.wait()
    model = vlib.run_driver(model_in)
    # ---- decode every audit value with the REAL user-space decoder
    dec_lines, dec_meta = [], []
    for idx, (m, so_) in enumerate(zip(meta, sim_out)):
        if m[0] == "dump" and len(m) > 2:
            for ent in so_.split(" | ")[0].split(" ")[1:]:
                k, v = ent.strip("[]").split("->")
                dec_lines.append("dec " + " ".join(v.split(",")))
                dec_meta.append((idx, k, v))
    dec_out = []
    if dec_lines:
        rc, so, se = vlib.run_harness(binp, "ebpf", "\n".join(dec_lines) + "\n", env={"VERIF_OUT": sd + "/o.txt"}, cwd=sd)
        dec_out = open(sd + "/o.txt").read().split("\n")[:-1]
    decoded = {}
    for (idx, k, v), d in zip(dec_meta, dec_out):
        decoded.setdefault(idx, {})[k] = d
    dec_model = vlib.run_driver(["ebpf " + l for l in dec_lines]) if dec_lines else []
    for l, a, b in zip(dec_lines, dec_out, dec_model):
        if a != b:
            chk.disagreement("decode", {"value_words": l}, b, a)
    # ---- compare + oracle
    for idx, (m, so_, mo, line) in enumerate(zip(meta, sim_out, model, model_in)):
        if so_ != mo and m[0] != "reset":
            chk.disagreement("ebpf-sim", {"op": line, "schedule": m[1] if len(m) > 1 else None}, mo, so_)
        if m[0] == "dump" and len(m) > 2:
            threads = m[3]
            sc = m[1]
            inflight = len(threads)
            chk.case(nontrivial_key=("sched", sc, inflight))
            chk.count("schedules"); chk.count("attempts", inflight)
            got = decoded.get(idx, {})
            for i, t in enumerate(threads):
                key = f"{TCP},{t['lport']}"
                rw = rewritten.get((sc, i))
                redirected = rw is not None and rw != (t["ip"], bswap16(t["port"]))
                should = t["protected"] and t["pid"] != AGENT_PID and t["proto"] == TCP
                desc = {"schedule": sc, "threads_in_flight": inflight, "thread": {k: t[k] for k in ("pid", "uid", "gid", "ip", "port", "proto", "lport")},
                        "rewritten_to": rw, "audit_entry": got.get(key)}
                if t["uid"] != t["gid"]:
                    chk.count("uid_ne_gid")
                if should != redirected:
                    chk.violation("connect redirected iff (destination protected and caller not the agent) does not hold", desc,
                                  expected=should, observed=redirected)
                if should and redirected and rw != (local_ip, bswap16(LOCAL_PORT)):
                    chk.violation("redirected to something else than the proxy listener", desc, expected=(local_ip, bswap16(LOCAL_PORT)), observed=rw)
                if inflight >= 200:
                    continue      # beyond the map capacity LRU eviction may drop records: not part of the claim
                completed = not t.get("aborted")
                superseded = any(u.get("reuse_of") == i for u in threads)       # a later attempt used this source port again
                if superseded:
                    continue      # what is under that port now is judged with the later attempt
                if t.get("reuse_of") is not None and not (should and completed):
                    continue      # nothing new was to be written: the earlier connection's record may still be there
                if should and completed:
                    chk.count("records_expected")
                    a, b, c, d = [(t["ip"] >> s) & 0xff for s in (0, 8, 16, 24)]
                    want = "%d %d %d %d.%d.%d.%d %d" % (t["uid"], t["pid"], 1 if t["uid"] == 0 else 0, a, b, c, d, t["port"])
                    if got.get(key) != want:
                        chk.violation("audit record does not state the true caller / original destination", desc, expected=want, observed=got.get(key))
                if not should and key in got and completed:
                    chk.violation("a record was produced for a connect that must be left untouched", desc, observed=got.get(key))
    leaked_attempts(chk, binp, sd, pol_keys, pol_val, skip_word, ws_ip, ws_port, local_ip)
    attach_point(chk, binp, sd, rng)
    kernel_stage(chk, binp, sd, rng, protected, local_ip)
    redirect_switch_under_lookups(chk, binp, sd)
    agent_attach_sequence(chk, binp, sd)
    shutil.rmtree(sd, ignore_errors=True)
    chk.sample({"ops": model_in[:8], "sim": sim_out[:8]})
    if chk.counts.get("uid_ne_gid", 0) == 0 or chk.counts.get("records_expected", 0) == 0:
        chk.broken.append({"kind": "gate", "name": "generator sanity", "why": "no uid != gid caller / no record expected"})
    chk.coverage["rule"] = ("schedules of 1-199 connect attempts (pids/tids/uids/gids with uid != gid in most cases, uid 0 with gid != 0 and vice "
                            "versa, the agent's pid, protected endpoints / same ip other port / same port other ip / UDP), the two hook points "
                            "of different threads interleaved arbitrarily, some attempts failing between the hooks; the UNMODIFIED "
                            "ebpf_cgroup.c runs in user space against a simulator of the documented helper/map semantics with the exact arrays "
                            "the real Rust encoders produce; audit values decoded by the real Rust decoder; one thread may connect several "
                            "times in a row; 260 leaked hand-over entries against the bounded model; the cgroup2 mount lookup against "
                            "stand-in findmnt programs; and IN THE RUNNING KERNEL: the same source built with clang -target bpf, loaded by the "
                            "agent's BpfObject (both programs pass the verifier), cgroup/connect4 attached to a test cgroup, real processes "
                            "with uid != gid connecting to protected / unprotected / UDP / other-port destinations (where they land, what "
                            "local_map then holds), policy and skip maps kept through the agent's own methods and read back")
    chk.assumptions += ["BPF helper/map semantics as documented (bpf-helpers(7)); verifier acceptance, attach points and real LRU eviction are the kernel's",
                        "the first cgroup2 mount findmnt lists is the boot-time mount of the whole hierarchy (attach theorems hook_runs_for_every_process)",
                        "tcp_connect's kprobe runs after cgroup/connect4 of the same syscall on the same thread",
                        "the running kernel has no kprobes (CONFIG_KPROBES unset): the tcp_connect program is loaded (verifier) but never runs there",
                        "hook H4's audit_entry() repeats the five-field mapping of BpfObject::lookup_audit (which needs a loaded BPF object)"]
